------------------------------ MODULE Threads ------------------------------
(* C18 - "Multi-threaded execution gives the single-thread result under    *)
(* every schedule": the process model.  NT OpenMP threads execute, step by  *)
(* step and in every interleaving,                                           *)
(*  (a) the double-checked-locking initialisation of a lazy geometry table   *)
(*      (ReadFlag / EnterCritical / RecheckFlag / Fill (2 steps) / SetFlag   *)
(*      (last) / LeaveCritical / UseTable),                                  *)
(*  (c) a dynamically scheduled loop over NI work items (Take), for each     *)
(*  (d) a seek + read on the shared stream inside an I/O critical section,   *)
(*  (b) a row-cache access: lock / find / unlock, on a miss Compute outside  *)
(*      the lock, then lock / count / insert-if-absent / unlock,             *)
(*  (c) accumulation into the thread's OWN accumulator; after the join the   *)
(*      master reduces all NT accumulators.                                  *)
(* The whole loop is executed NC times on the same objects ("calls"), each   *)
(* time with a freely chosen number of ACTIVE threads (the caller may change *)
(* the number of threads between calls): StartCall clears every accumulator, *)
(* the reduction always visits all NT slots.  The result of a call must be   *)
(* the sum over the items of THIS call only.                                 *)
(* Bug # "none" selects a version with one protection removed; those MUST    *)
(* violate an invariant (MC_Threads_bug_*.cfg): the model is not vacuous.    *)
EXTENDS ThreadRules, TLC
CONSTANTS NT, NI, NK, NC, Bug
VARIABLES pc, z, incs, rd, cache, lock, row, cnt, ins, next, cur, done, iolock, pos, got, acc, tmp, red, result, call, active, writer, torn, nested

vars == << pc, z, incs, rd, cache, lock, row, cnt, ins, next, cur, done, iolock, pos, got, acc, tmp, red, result, call, active, writer, torn, nested >>
Thr == 1..NT
Items == 1..NI
Keys == 1..NK
KeyOf(i) == ((i - 1) % NK) + 1      \* several items need the same row
Row(k) == k + 1                     \* the (never zero) content of row k
Data(i) == i                        \* what the stream holds at offset i
RECURSIVE SumTo(_)
SumTo(i) == IF i = 0 THEN 0 ELSE Data(i) * Row(KeyOf(i)) + SumTo(i - 1)
Expected == SumTo(NI)               \* the single-thread result

Init == /\ call = 1 /\ active = NT /\ writer = 0 /\ torn = FALSE /\ nested = "no"
        /\ pc = [t \in Thr |-> "read"] /\ z = ZNew /\ incs = {} /\ rd = [t \in Thr |-> FALSE]
        /\ cache = [k \in Keys |-> 0] /\ lock = [k \in Keys |-> 0] /\ row = [t \in Thr |-> 0] /\ cnt = [t \in Thr |-> 0]
        /\ ins = [k \in Keys |-> 0] /\ next = 1 /\ cur = [t \in Thr |-> 0] /\ done = [i \in Items |-> 0]
        /\ iolock = 0 /\ pos = 0 /\ got = [t \in Thr |-> 0] /\ acc = [t \in Thr |-> 0] /\ tmp = [t \in Thr |-> 0]
        /\ red = 0 /\ result = 0

Goto(t, l) == pc' = [pc EXCEPT ![t] = l]
K(t) == KeyOf(cur[t])

\* ---------------------------------------------------------------- (a) lazy table
ReadFlag(t) == /\ pc[t] = "read" /\ rd' = [rd EXCEPT ![t] = z.flag]            \* omp atomic read
               /\ Goto(t, IF z.flag THEN "use" ELSE "enter")
               /\ UNCHANGED << z, incs, cache, lock, row, cnt, ins, next, cur, done, iolock, pos, got, acc, tmp, red, result, call, active, writer, torn, nested >>
EnterCritical(t) == /\ pc[t] = "enter" /\ (Bug = "nocritical" \/ incs = {})     \* omp critical(NAME)
                    /\ incs' = incs \cup {t} /\ Goto(t, "recheck")
                    /\ UNCHANGED << z, rd, cache, lock, row, cnt, ins, next, cur, done, iolock, pos, got, acc, tmp, red, result, call, active, writer, torn, nested >>
RecheckFlag(t) == /\ pc[t] = "recheck"
                  /\ Goto(t, IF z.flag THEN "leave" ELSE IF Bug = "flagfirst" THEN "setflag" ELSE "fill1")
                  /\ UNCHANGED << z, incs, rd, cache, lock, row, cnt, ins, next, cur, done, iolock, pos, got, acc, tmp, red, result, call, active, writer, torn, nested >>
Fill1(t) == /\ pc[t] = "fill1" /\ z' = ZFillBegin(z) /\ Goto(t, "fill2")
            /\ UNCHANGED << incs, rd, cache, lock, row, cnt, ins, next, cur, done, iolock, pos, got, acc, tmp, red, result, call, active, writer, torn, nested >>
Fill2(t) == /\ pc[t] = "fill2" /\ z' = ZFillEnd(z) /\ Goto(t, IF Bug = "flagfirst" THEN "leave" ELSE "setflag")
            /\ UNCHANGED << incs, rd, cache, lock, row, cnt, ins, next, cur, done, iolock, pos, got, acc, tmp, red, result, call, active, writer, torn, nested >>
SetFlag(t) == /\ pc[t] = "setflag" /\ z' = ZSetFlag(z) /\ Goto(t, IF Bug = "flagfirst" THEN "fill1" ELSE "leave")   \* omp atomic write
              /\ UNCHANGED << incs, rd, cache, lock, row, cnt, ins, next, cur, done, iolock, pos, got, acc, tmp, red, result, call, active, writer, torn, nested >>
LeaveCritical(t) == /\ pc[t] = "leave" /\ incs' = incs \ {t} /\ Goto(t, "use")
                    /\ UNCHANGED << z, rd, cache, lock, row, cnt, ins, next, cur, done, iolock, pos, got, acc, tmp, red, result, call, active, writer, torn, nested >>
UseTable(t) == /\ pc[t] = "use" /\ Goto(t, "logb")
               /\ UNCHANGED << z, incs, rd, cache, lock, row, cnt, ins, next, cur, done, iolock, pos, got, acc, tmp, red, result, call, active, writer, torn, nested >>

\* ---------------------------------------------------------------- messages (info / warning through writeText)
\* a message is written in several pieces to the shared channel; critical(TEXTWRITER) makes it arrive whole
LogBegin(t) == /\ pc[t] = "logb" /\ (Bug = "notextlock" \/ writer = 0)
               /\ torn' = (torn \/ writer # 0) /\ writer' = t /\ Goto(t, "loge")
               /\ UNCHANGED << z, incs, rd, cache, lock, row, cnt, ins, next, cur, done, iolock, pos, got, acc, tmp, red, result, call, active, nested >>
LogEnd(t) == /\ pc[t] = "loge" /\ writer' = (IF writer = t THEN 0 ELSE writer) /\ Goto(t, "take")
             /\ UNCHANGED << z, incs, rd, cache, lock, row, cnt, ins, next, cur, done, iolock, pos, got, acc, tmp, red, result, call, active, torn, nested >>
\* ---------------------------------------------------------------- a caller inside the parallel region
\* start_accumulating_in_new_target() called by a thread of the team: the guard "omp_get_num_threads() != 1 => error"
\* refuses it and nothing changes (Bug "noguard": it clears the accumulators under the feet of the other threads)
NestedCall(t) == /\ pc[t] = "take" /\ t = NT /\ NT > 1 /\ nested = "no" /\ call = 1
                 /\ IF Bug = "noguard" THEN acc' = [u \in Thr |-> 0] /\ nested' = "executed"
                    ELSE UNCHANGED acc /\ nested' = "refused"
                 /\ UNCHANGED << pc, z, incs, rd, cache, lock, row, cnt, ins, next, cur, done, iolock, pos, got, tmp, red, result, call, active, writer, torn >>

\* ---------------------------------------------------------------- (c) dynamic work distribution
Take(t) == /\ pc[t] = "take"
           /\ IF next <= NI THEN /\ cur' = [cur EXCEPT ![t] = next] /\ next' = next + 1 /\ Goto(t, "seek")
              ELSE /\ UNCHANGED << cur, next >> /\ Goto(t, "idle")
           /\ UNCHANGED << z, incs, rd, cache, lock, row, cnt, ins, done, iolock, pos, got, acc, tmp, red, result, call, active, writer, torn, nested >>

\* ---------------------------------------------------------------- (d) stream I/O: seek, then read
Seek(t) == /\ pc[t] = "seek" /\ (Bug = "noiolock" \/ iolock = 0)              \* omp critical(PROJDATAFROMSTREAMIO)
           /\ iolock' = (IF Bug = "noiolock" THEN 0 ELSE t) /\ pos' = cur[t] /\ Goto(t, "readio")
           /\ UNCHANGED << z, incs, rd, cache, lock, row, cnt, ins, next, cur, done, got, acc, tmp, red, result, call, active, writer, torn, nested >>
ReadIO(t) == /\ pc[t] = "readio" /\ got' = [got EXCEPT ![t] = Data(pos)] /\ iolock' = 0 /\ Goto(t, "lockL")
             /\ UNCHANGED << z, incs, rd, cache, lock, row, cnt, ins, next, cur, done, pos, acc, tmp, red, result, call, active, writer, torn, nested >>

\* ---------------------------------------------------------------- (b) row cache
LockLookup(t) == /\ pc[t] = "lockL" /\ lock[K(t)] = 0 /\ lock' = [lock EXCEPT ![K(t)] = t] /\ Goto(t, "find")  \* omp_set_lock
                 /\ UNCHANGED << z, incs, rd, cache, row, cnt, ins, next, cur, done, iolock, pos, got, acc, tmp, red, result, call, active, writer, torn, nested >>
Find(t) == /\ pc[t] = "find" /\ lock' = [lock EXCEPT ![K(t)] = 0]
           /\ IF cache[K(t)] # 0 THEN /\ row' = [row EXCEPT ![t] = cache[K(t)]] /\ Goto(t, "acc")
              ELSE /\ UNCHANGED row /\ Goto(t, "compute")
           /\ UNCHANGED << z, incs, rd, cache, cnt, ins, next, cur, done, iolock, pos, got, acc, tmp, red, result, call, active, writer, torn, nested >>
Compute(t) == /\ pc[t] = "compute" /\ row' = [row EXCEPT ![t] = Row(K(t))] /\ Goto(t, "lockI")   \* outside the lock
              /\ UNCHANGED << z, incs, rd, cache, lock, cnt, ins, next, cur, done, iolock, pos, got, acc, tmp, red, result, call, active, writer, torn, nested >>
LockInsert(t) == /\ pc[t] = "lockI" /\ (Bug = "nolock" \/ lock[K(t)] = 0)
                 /\ lock' = (IF Bug = "nolock" THEN lock ELSE [lock EXCEPT ![K(t)] = t]) /\ Goto(t, "count")
                 /\ UNCHANGED << z, incs, rd, cache, row, cnt, ins, next, cur, done, iolock, pos, got, acc, tmp, red, result, call, active, writer, torn, nested >>
Count(t) == /\ pc[t] = "count" /\ cnt' = [cnt EXCEPT ![t] = IF cache[K(t)] # 0 THEN 1 ELSE 0] /\ Goto(t, "insert")
            /\ UNCHANGED << z, incs, rd, cache, lock, row, ins, next, cur, done, iolock, pos, got, acc, tmp, red, result, call, active, writer, torn, nested >>
Insert(t) == /\ pc[t] = "insert"
             /\ cache' = (IF cache[K(t)] = 0 THEN [cache EXCEPT ![K(t)] = row[t]] ELSE cache)    \* no-op if present
             /\ ins' = (IF cnt[t] = 0 THEN [ins EXCEPT ![K(t)] = @ + 1] ELSE ins)              \* inserts that believed to be effective
             /\ lock' = (IF Bug = "nolock" THEN lock ELSE [lock EXCEPT ![K(t)] = 0]) /\ Goto(t, "acc")
             /\ UNCHANGED << z, incs, rd, row, cnt, next, cur, done, iolock, pos, got, tmp, acc, red, result, call, active, writer, torn, nested >>

\* ---------------------------------------------------------------- (c) per-thread accumulators, reduction
Slot(t) == IF Bug = "sharedacc" THEN 1 ELSE t
Accumulate(t) == /\ pc[t] = "acc"
                 /\ IF Bug = "sharedacc"
                    THEN /\ tmp' = [tmp EXCEPT ![t] = acc[1]] /\ Goto(t, "acc2") /\ UNCHANGED << acc, done >>    \* read ... (not atomic)
                    ELSE /\ acc' = [acc EXCEPT ![t] = @ + got[t] * row[t]] /\ done' = [done EXCEPT ![cur[t]] = @ + 1]
                         /\ Goto(t, "take") /\ UNCHANGED tmp
                 /\ UNCHANGED << z, incs, rd, cache, lock, row, cnt, ins, next, cur, iolock, pos, got, red, result, call, active, writer, torn, nested >>
Accumulate2(t) == /\ pc[t] = "acc2" /\ acc' = [acc EXCEPT ![1] = tmp[t] + got[t] * row[t]]                      \* ... modify, write
                  /\ done' = [done EXCEPT ![cur[t]] = @ + 1] /\ Goto(t, "take")
                  /\ UNCHANGED << z, incs, rd, cache, lock, row, cnt, ins, next, cur, iolock, pos, got, tmp, red, result, call, active, writer, torn, nested >>
AllIdle == \A t \in Thr : pc[t] = "idle"
Reduce == /\ AllIdle /\ red < NT                                                 \* after the join, by the master
          /\ red' = red + 1
          /\ result' = (IF Bug = "noreduce" /\ red + 1 = 1 THEN result ELSE result + acc[red + 1])
          /\ UNCHANGED << pc, z, incs, rd, cache, lock, row, cnt, ins, next, cur, done, iolock, pos, got, acc, tmp, call, active, writer, torn, nested >>
Reduced == AllIdle /\ red = NT
\* the next call on the same objects, with any number of active threads; accumulators start from zero
\* (Bug "staleacc": only the accumulators of the threads that will be active are cleared)
StartCall == /\ Reduced /\ call < NC
             /\ call' = call + 1
             /\ \E a \in Thr :
                  /\ active' = a
                  /\ pc' = [t \in Thr |-> IF t <= a THEN "take" ELSE "idle"]
                  /\ acc' = [t \in Thr |-> IF Bug = "staleacc" /\ t > a THEN acc[t] ELSE 0]
             /\ next' = 1 /\ done' = [i \in Items |-> 0] /\ red' = 0 /\ result' = 0
             /\ UNCHANGED << z, incs, rd, cache, lock, row, cnt, ins, cur, iolock, pos, got, tmp, writer, torn, nested >>
Finished == Reduced /\ call = NC
Terminating == Finished /\ UNCHANGED vars

Thread(t) == \/ ReadFlag(t) \/ EnterCritical(t) \/ RecheckFlag(t) \/ Fill1(t) \/ Fill2(t) \/ SetFlag(t) \/ LeaveCritical(t) \/ UseTable(t)
             \/ Take(t) \/ Seek(t) \/ ReadIO(t) \/ LockLookup(t) \/ Find(t) \/ Compute(t) \/ LockInsert(t) \/ Count(t) \/ Insert(t)
             \/ Accumulate(t) \/ Accumulate2(t) \/ LogBegin(t) \/ LogEnd(t) \/ NestedCall(t)
Next == (\E t \in Thr : Thread(t)) \/ Reduce \/ StartCall \/ Terminating
Spec == Init /\ [][Next]_vars
\* weak fairness of every thread and of the master: nothing stronger is assumed of the OpenMP runtime
FairSpec == Spec /\ (\A t \in Thr : WF_vars(Thread(t))) /\ WF_vars(Reduce) /\ WF_vars(StartCall)

\* ---------------------------------------------------------------- the property
\* "at most one process inside [the critical section]"
InvMutex == Cardinality(incs) <= 1
\* "UseTable only when complete"
InvUse == \A t \in Thr : pc[t] = "use" => ZUseOK(z)
\* "filled once"; the flag is set last
InvFilledOnce == z.fills <= 1
InvFlagLast == z.flag => z.tab = 2
\* inside the critical section the steps respect the rules that the recorded executions are validated against
InvRules == \A t \in Thr : /\ pc[t] = "fill1" => ZFillBeginOK(z)
                           /\ pc[t] = "fill2" => ZFillEndOK(z)
                           /\ pc[t] = "setflag" => ZSetFlagOK(z)
                           /\ pc[t] = "leave" => ZLeaveOK(z)
\* "cache[k] = Row(k)", every thread works with the right row, "one effective insert per key", "nothing lost"
InvCache == /\ \A k \in Keys : cache[k] \in {0, Row(k)}
            /\ \A t \in Thr : pc[t] \in {"acc", "acc2"} => row[t] = Row(K(t))
InvOneInsert == \A k \in Keys : ins[k] <= 1
InvNothingLost == \A k \in Keys : ins[k] >= 1 => cache[k] = Row(k)
\* (d) every thread reads the data of its own offset
InvIO == \A t \in Thr : pc[t] \in {"lockL", "find", "compute", "lockI", "count", "insert", "acc", "acc2"} => got[t] = Data(cur[t])
\* "multiset of processed items = all items"
InvItems == /\ \A i \in Items : done[i] <= 1
            /\ AllIdle => \A i \in Items : done[i] = 1
\* "result independent of assignment" (= the single-thread result; integers: no rounding in the model)
InvResult == Reduced => result = Expected
\* "the result equals the sum over the items of THIS call only": when the reduction starts, the accumulators hold
\* exactly the contributions of this call - nothing left over from an earlier call (in any slot, active or not)
RECURSIVE SumAcc(_)
SumAcc(t) == IF t = 0 THEN 0 ELSE acc[t] + SumAcc(t - 1)
InvThisCallOnly == (AllIdle /\ red = 0) => (SumAcc(NT) = Expected /\ \A t \in Thr : t > active => acc[t] = 0)
\* no lock is left behind
InvLocksFree == AllIdle => (incs = {} /\ iolock = 0 /\ \A k \in Keys : lock[k] = 0)
\* BEYOND THE NUMERIC CLAUSE: every message arrives whole; a guarded call inside the parallel region is never executed
InvWhole == ~torn
InvGuard == nested # "executed"
\* termination under weak fairness (checked with SPECIFICATION FairSpec, never under a state constraint)
Termination == <>Finished
=============================================================================
