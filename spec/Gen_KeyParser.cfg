INIT GenInit
NEXT GenNext
CONSTANTS MaxFull = 3 MaxLen = 4 Part = 0 NParts = 1
CHECK_DEADLOCK FALSE
