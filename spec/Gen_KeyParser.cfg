INIT GenInit
NEXT GenNext
CONSTANTS MaxFull = 3 MaxLen = 4
CHECK_DEADLOCK FALSE
