------------------------------ MODULE Subsets ------------------------------
(* C06, first half: ordered subsets partition the projection data.                          *)
(*                                                                                            *)
(* "For every number of views, number of subsets, segment range and symmetry configuration   *)
(*  that the library accepts, the view/segment groups processed for the different subsets     *)
(*  are disjoint and together contain every (segment, view, TOF bin) of the data exactly      *)
(*  once.  Subsets are reported as balanced exactly when all subsets process the same         *)
(*  number of viewgrams."                                                                     *)
(*                                                                                            *)
(* A configuration is a record                                                                *)
(*   c = [views, minSeg, maxSeg, s90, s180, sseg, minTof, maxTof]                             *)
(* views >= 1 views numbered 0..views-1; segments minSeg..maxSeg (minSeg <= 0 <= maxSeg) are  *)
(* processed - the range need not be symmetric (ProjDataInfo::reduce_segment_range);          *)
(* s90/s180/sseg are the *effective* symmetries: 90 degrees (which implies 180), 180 degrees, *)
(* swap-segment.  The five symmetry classes of the projectors are                             *)
(*   none (F,F,F)  swap-segment (F,F,T)  180 (F,T,x)  90 (T,T,x)  trivial (= F,F,F).          *)
(* A view/segment pair is the tuple <<view, segment>>.                                        *)
EXTENDS Integers, FiniteSets, Sequences, TLC

Views(c) == 0 .. c.views - 1
\* (clients written before asymmetric ranges were added pass records without minSeg: symmetric range)
MinSegOf(c) == IF "minSeg" \in DOMAIN c THEN c.minSeg ELSE -c.maxSeg
Segs(c) == MinSegOf(c) .. c.maxSeg
Tofs(c) == c.minTof .. c.maxTof
AllVS(c) == Views(c) \X Segs(c)
AllData(c) == AllVS(c) \X Tofs(c)          \* every (<<view, segment>>, TOF bin) of the data

(* The documented symmetry groups (DataSymmetriesForBins_PET_CartesianGrid.h): "for the      *)
(* azimuthal angle phi, the following angles are symmetry related for a square grid:          *)
(* {phi, 180-phi, 90-phi, 90+phi}"; "only {phi, 180-phi}"; "none"; "axial (i.e. positive vs.  *)
(* negative segment)".  View v is phi = v*180/views degrees, so 180 degrees = views (= view 0) *)
(* and 90 degrees = views/2.  "The symmetry in phi is automatically reduced [...] when the    *)
(* number of views is not a multiple of 4."                                                   *)
Legal(c) == /\ c.views >= 1 /\ MinSegOf(c) <= 0 /\ c.maxSeg >= 0
            /\ c.s90 => (c.s180 /\ c.views % 4 = 0)
            /\ c.s180 => c.views % 2 = 0
            \* the set of segments must be closed under the symmetries used: +-segment needs a symmetric range
            /\ c.sseg => MinSegOf(c) = -c.maxSeg

ViewOrbit(c, v) ==
  LET V == c.views
      h == V \div 2 IN
  {v} \cup (IF c.s180 THEN {(V - v) % V} ELSE {})
      \cup (IF c.s90 THEN {(h - v + V) % V, (h + v) % V} ELSE {})
SegOrbit(c, s) == IF c.sseg THEN {s, -s} ELSE {s}
Orbit(c, vs) == ViewOrbit(c, vs[1]) \X SegOrbit(c, vs[2])

(* ---------------------------------------------------------------------------------------- *)
(* The implementation's system of representatives ("basic" view/segment pairs), transcribed  *)
(* from find_basic_view_segment_numbers; TrivialDataSymmetriesForBins: everything is basic.   *)
(* Which element of an orbit is the basic one is a choice of the implementation, not part of  *)
(* the property: the property needs exactly one basic element per orbit (theorem T1 below).   *)
FindBasicVS(c, vs) ==
  LET V == c.views
      v90 == V \div 2
      v45 == v90 \div 2
      v135 == v90 + v45
      v == vs[1]
      sg == IF c.sseg /\ vs[2] < 0 THEN -vs[2] ELSE vs[2]
      bv == IF c.s90 THEN (IF v >= v135 THEN V - v
                           ELSE IF v >= v90 THEN v - v90
                           ELSE IF v > v45 THEN v90 - v ELSE v)
            ELSE IF c.s180 THEN (IF v > v90 THEN V - v ELSE v)
            ELSE v IN
  << bv, sg >>
IsBasic(c, vs) == FindBasicVS(c, vs) = vs

(* num_related_view_segment_numbers, as coded (the balance verdict is computed from it) *)
NumRelated(c, vs) ==
  LET V == c.views
      a == IF c.s180 /\ (vs[1] % (V \div 2)) # 0 THEN 2 ELSE 1
      b == IF c.s90 /\ (vs[1] % (V \div 2)) # V \div 4 THEN 2 ELSE 1
      d == IF c.sseg /\ vs[2] # 0 THEN 2 ELSE 1 IN
  a * b * d

(* get_related_view_segment_numbers, as coded (a sequence) *)
RelatedVS(c, b) ==
  LET V == c.views
      v == b[1]
      sg == b[2]
      symz == c.sseg /\ sg # 0
      pair(w) == IF symz THEN << <<w, sg>>, <<w, -sg>> >> ELSE << <<w, sg>> >>
      p1 == pair(v)
      p2 == IF c.s180 /\ c.s90 /\ (v % (V \div 2)) # V \div 4
            THEN pair(IF v < V \div 2 THEN v + V \div 2 ELSE v - V \div 2) ELSE << >>
      p3 == IF c.s180 /\ (v % (V \div 2)) # 0 THEN pair(V - v) ELSE << >>
      p4 == IF c.s90 /\ (v % (V \div 4)) # 0 THEN pair((V \div 2 - v + V) % V) ELSE << >> IN
  p1 \o p2 \o p3 \o p4
Range(f) == { f[i] : i \in DOMAIN f }
NoDup(f) == Cardinality(Range(f)) = Len(f)

(* ---------------------------------------------------------------------------------------- *)
(* Subsets: detail::find_basic_vs_nums_in_subset takes view = min_view + subset_num, step      *)
(* num_subsets, and keeps the basic ones; projectors and the objective function then process   *)
(* all related view/segment pairs of each, for every TOF bin.                                  *)
SubsetViews(c, s, N) == { s + k * N : k \in 0 .. ((c.views - 1 - s) \div N) }
SubsetVSFor(c, s, N, basic(_)) == { vs \in SubsetViews(c, s, N) \X Segs(c) : basic(vs) }
SubsetVS(c, s, N) == SubsetVSFor(c, s, N, LAMBDA vs : IsBasic(c, vs))
Processed(c, s, N) == UNION { Orbit(c, b) : b \in SubsetVS(c, s, N) }
ProcessedData(c, s, N) == Processed(c, s, N) \X Tofs(c)

RECURSIVE SumTo(_, _)
SumTo(f, n) == IF n < 0 THEN 0 ELSE f[n] + SumTo(f, n - 1)

(* P is a function 0..N-1 -> sets: "the groups processed for the different subsets are         *)
(* disjoint and together contain every element of All exactly once"                            *)
IsPartition(P, N, All) ==
  /\ UNION { P[s] : s \in 0 .. N - 1 } = All
  /\ SumTo([s \in 0 .. N - 1 |-> Cardinality(P[s])], N - 1) = Cardinality(All)

(* "balanced exactly when all subsets process the same number of viewgrams" *)
EqualSizes(sz, N) == \A s \in 0 .. N - 1 : sz[s] = sz[0]
Balanced(c, N) == EqualSizes([s \in 0 .. N - 1 |-> Cardinality(Processed(c, s, N))], N)
(* the implementation's way of counting (sum of num_related over the basic pairs of the subset) *)
RECURSIVE ImplCountSeg(_, _, _), ImplCountView(_, _, _, _)
ImplCountSeg(c, v, sg) == IF sg > c.maxSeg THEN 0
                          ELSE (IF IsBasic(c, <<v, sg>>) THEN NumRelated(c, <<v, sg>>) ELSE 0) + ImplCountSeg(c, v, sg + 1)
ImplCountView(c, s, N, v) == IF v > c.views - 1 THEN 0 ELSE ImplCountSeg(c, v, MinSegOf(c)) + ImplCountView(c, s, N, v + N)
ImplCount(c, s, N) == ImplCountView(c, s, N, s)

(* ---------------------------------------------------------------------------------------- *)
(* Theorems about the model, evaluated by MC_Subsets for every configuration:               *)
(* T1  exactly one basic element per orbit: FindBasicVS maps every pair into its orbit, onto   *)
(*     a basic pair, and is constant on orbits                                               *)
T1(c) == \A vs \in AllVS(c) :
           LET b == FindBasicVS(c, vs) IN
           /\ b \in Orbit(c, vs) /\ b \in AllVS(c) /\ IsBasic(c, b)
           /\ \A x \in Orbit(c, vs) : x \in AllVS(c) /\ FindBasicVS(c, x) = b
(* T2  the coded enumeration of related pairs is the documented orbit, without repetition,     *)
(*     and num_related is its length                                                         *)
T2(c) == \A b \in AllVS(c) : IsBasic(c, b) =>
           LET r == RelatedVS(c, b) IN
           /\ Range(r) = Orbit(c, b) /\ NoDup(r) /\ Len(r) = NumRelated(c, b) /\ r[1] = b
(* T3  the partition, T4 the balance verdict (set sizes = implementation's count), per (c, N)  *)
ProcessedTable(c, N) == [s \in 0 .. N - 1 |-> Processed(c, s, N)]
=============================================================================
