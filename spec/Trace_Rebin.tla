----------------------------- MODULE Trace_Rebin -----------------------------
(* Trace validation for C15 (rebinning): every line recorded from the real     *)
(* SSRB / LmToProjData / ProjDataInMemory must be explained by Rebin.tla over  *)
(* Geometry.tla.  One execution = Config, Ev, Hist fine, Hist coarse, Rebin*,  *)
(* End.  The lines of an execution are functions of (Config, Ev), so           *)
(* validation does not stop at the first unexplained line: their indices are   *)
(* collected in `bad' (as in Trace_Geometry).                                  *)
EXTENDS Rebin, TraceLib
VARIABLES l, c, p, o, ipN, ipT, evB, fineTot, coarse, bad

vars == <<l, c, p, o, ipN, ipT, evB, fineTot, coarse, bad>>
NoCfg == [N |-> 0]
CfgOf(r) == [N |-> r.N, R |-> r.R, span |-> r.span, ge |-> r.ge, maxDelta |-> r.maxDelta, mash |-> r.mash,
             tofMash |-> r.tofMash, maxT |-> r.maxT, minTang |-> r.minTang, maxTang |-> r.maxTang,
             minSeg |-> r.minSeg, maxSeg |-> r.maxSeg]
ParOf(r) == [segComb |-> r.segComb, viewComb |-> r.viewComb, trim |-> r.trim, maxSegArg |-> r.maxSegArg, tofComb |-> r.tofComb]
\* residual of the recorded m values (Q encoding): 1e-4 quarter ring spacings
ResTol == 100

\* the implementation's own description of the INPUT must be the documented Michelogram (as in C01)
InputOk(r) ==
  LET cc == CfgOf(r) IN
  /\ LegalConfig(cc) /\ ~TruncSingleRD(cc)
  /\ r.numViews = NV(cc) \div cc.mash /\ r.minView = 0
  /\ r.minTof = MinTof(cc) /\ r.maxTof = MaxTof(cc)
  /\ Len(r.segs) = cc.maxSeg - cc.minSeg + 1
  /\ \A i \in 1..Len(r.segs) :
       LET s == r.segs[i][1] IN
       /\ s = cc.minSeg + i - 1
       /\ r.segs[i][2] = SegMinRD(cc, s) /\ r.segs[i][3] = SegMaxRD(cc, s)
       /\ r.segs[i][4] = 0 /\ r.segs[i][5] = NumAx(cc, s) - 1
\* "construct new ProjDataInfo that is appropriate for rebinned data": what the returned object says about
\* itself must be the documented construction (segment grouping, m-range -> number of axial positions,
\* view / tangential / TOF sampling) and the m of its sinograms must be those of the Michelogram
OutputOk(r) ==
  LET cc == CfgOf(r)  pp == ParOf(r)  oo == SSRBGeom(cc, pp) IN
  /\ Representable(cc, pp)
  /\ r.oViews = NumViews(oo) /\ r.oMinView = 0
  /\ r.oMinTang = OutMinTang(cc, pp) /\ r.oMaxTang = OutMaxTang(cc, pp)
  /\ r.oTofMash = oo.tofMash
  /\ r.oMinTof = MinTof(oo) /\ r.oMaxTof = MaxTof(oo)
  /\ Len(r.oSegs) = 2 * OutMaxSeg(cc, pp) + 1
  /\ Len(r.oM0) = Len(r.oSegs) /\ Len(r.iM0) = Len(r.segs)
  /\ \A i \in 1..Len(r.oSegs) :
       LET so == r.oSegs[i][1] IN
       /\ so = i - 1 - OutMaxSeg(cc, pp)
       /\ r.oSegs[i][2] = OutMinRD(cc, pp, so) /\ r.oSegs[i][3] = OutMaxRD(cc, pp, so)
       /\ r.oSegs[i][4] = 0 /\ r.oSegs[i][5] = OutNumAx(cc, pp, so) - 1
       /\ r.oM0[i] = OutMinMQ(cc, pp, so)
  /\ \A i \in 1..Len(r.segs) : r.iM0[i] = MQ(cc, r.segs[i][1], 0)
  /\ r.mRes <= ResTol
ConfigOk(r) == InputOk(r) /\ (IF r.err THEN SSRBRefuses(CfgOf(r), ParOf(r)) ELSE ~SSRBRefuses(CfgOf(r), ParOf(r)) /\ OutputOk(r))

(* ----------------------------- histograms ------------------------------- *)
RECURSIVE SumOver(_, _)
SumOver(I, f) == IF I = {} THEN 0 ELSE LET i == CHOOSE x \in I : TRUE IN f[i] + SumOver(I \ {i}, f)
\* the histogram of the events I under the bin assignment B (sequence of bins): set of <<bin, counts>>
HistOf(I, B, n) == { << b, SumOver({ i \in I : B[i] = b }, n) >> : b \in { B[i] : i \in I } }
BinOfRow(x) == Bin(x[1], x[2], x[3], x[4], x[5])
\* recorded non-zero bins, value * 16 (exact integers: encoding E)
NzSet(nz) == { << BinOfRow(nz[j]), nz[j][6] >> : j \in 1..Len(nz) }
Scale(H, m) == { << h[1], m * h[2] >> : h \in H }
Total(H) == LET S == H  f == [ h \in S |-> h[2] ] IN SumOver(S, f)
EvIdx == 1..Len(evB)
EvN == [ i \in EvIdx |-> evB[i].n ]
InB == [ i \in EvIdx |-> evB[i].bi ]
OutB == [ i \in EvIdx |-> evB[i].bo ]
MapB == [ i \in EvIdx |-> evB[i].mb ]
\* what the three data sets must contain
FineHist == HistOf({ i \in EvIdx : Covered(c, evB[i].bi) }, InB, EvN)
CoarseHist == HistOf({ i \in EvIdx : Covered(o, evB[i].bo) }, OutB, EvN)
\* fine histogram pushed through SSRBMap
RebinHist == HistOf({ i \in EvIdx : Covered(c, evB[i].bi) /\ evB[i].mb # NoBin }, MapB, EvN)
\* Weaker relation used where the TOF part of the rebinning is not determined by the geometry (even
\* tofComb): every count goes to an output bin whose k-interval (edges included) contains the centre of its
\* input TOF bin, spatial part as SSRBMapS.  lower: events that can only be in b, upper: events that may be.
Cnt(I) == SumOver(I, EvN)
MayBeIn(i, b) == /\ Covered(c, evB[i].bi) /\ evB[i].ms # NoBin
                 /\ [b EXCEPT !.tof = 0] = evB[i].ms /\ b.tof \in evB[i].cands
MustBeIn(i, b) == MayBeIn(i, b) /\ evB[i].cert
PermOk(nz) ==
  /\ Cardinality({ BinOfRow(nz[j]) : j \in 1..Len(nz) }) = Len(nz)
  /\ \A j \in 1..Len(nz) :
       LET b == BinOfRow(nz[j]) IN
       /\ nz[j][6] >= 16 * Cnt({ i \in EvIdx : MustBeIn(i, b) })
       /\ nz[j][6] <= 16 * Cnt({ i \in EvIdx : MayBeIn(i, b) })
  /\ \A i \in EvIdx : (Covered(c, evB[i].bi) /\ evB[i].ms # NoBin /\ evB[i].cert) =>
        \E j \in 1..Len(nz) : MustBeIn(i, BinOfRow(nz[j]))
  /\ Total(NzSet(nz)) <= fineTot

EvOk(r) == \A i \in 1..Len(r.ev) :
             LET e == r.ev[i] IN
             /\ e[1] \in 0..(c.N - 1) /\ e[3] \in 0..(c.N - 1) /\ e[1] # e[3]
             /\ e[2] \in Rings(c) /\ e[4] \in Rings(c) /\ e[6] >= 1
             /\ (IF IsTof(c) THEN e[5] \in (-(c.maxT))..c.maxT ELSE e[5] = 0)

\* normalised variant: value * 720 recorded; "normalise ... corresponding to how many input sinograms
\* contribute" (times the views combined): |v * d - 720 * counts| <= d / 2 (rounding of the recording)
NormOk(nz) ==
  /\ { BinOfRow(nz[j]) : j \in 1..Len(nz) } = { h[1] : h \in RebinHist }
  /\ Cardinality({ BinOfRow(nz[j]) : j \in 1..Len(nz) }) = Len(nz)
  /\ \A j \in 1..Len(nz) :
       LET b == BinOfRow(nz[j])
           d == NormDivisor(c, o, p, b.seg, b.ax)
           t == CHOOSE h \in RebinHist : h[1] = b IN
       d >= 1 /\ 2 * Abs(nz[j][6] * d - 720 * t[2]) <= d


(* --------------- inverse_SSRB, extend_segment (self-contained lines) ------------ *)
Cfg3Of(r) == [CfgOf(r) EXCEPT !.span = r.span3, !.maxDelta = r.maxDelta3, !.minSeg = r.minSeg3, !.maxSeg = r.maxSeg3]
\* non-zero bins of the 4D result, value * 16: twice the value = sum of the half weights times the direct sinograms
InvOk(r) ==
  LET c4 == CfgOf(r)  c3 == Cfg3Of(r)
      D == { i \in 1..Len(r.nz3) : r.nz3[i][1] = 0 }                       \* "oblique segments ... are ignored"
      Cand == { Bin(s, ax, r.nz3[i][3], r.nz3[i][4], r.nz3[i][5]) :
                  s \in Segs(c4), ax \in 0..(2 * c4.R), i \in D }
      B == { b \in Cand : b.ax < NumAx(c4, b.seg) /\
                          \E i \in D : r.nz3[i][3] = b.view /\ r.nz3[i][4] = b.tang /\ r.nz3[i][5] = b.tof
                                        /\ InvW2(c4, c3, b.seg, b.ax, r.nz3[i][2]) > 0 }
      Val(b) == FoldSet(LAMBDA i, acc : acc + (IF r.nz3[i][3] = b.view /\ r.nz3[i][4] = b.tang /\ r.nz3[i][5] = b.tof
                                               THEN 8 * InvW2(c4, c3, b.seg, b.ax, r.nz3[i][2]) * r.nz3[i][6] ELSE 0), 0, D)
  IN /\ LegalConfig(c4) /\ LegalButTang(c3) /\ InvCompatible(c4, c3) /\ InvUnity(c4, c3)
     /\ r.numAx3 = NumAx(c3, 0)
     /\ ~r.err /\ r.ok
     /\ Cardinality(NzSet(r.nz)) = Len(r.nz)
     /\ NzSet(r.nz) = { << b, Val(b) >> : b \in B }
\* the extended array: index range grown by the extensions, every element the value of its source (ExtSource)
ExtD(r) == [minAx |-> r.minAx, maxAx |-> r.maxAx, nv |-> r.nv, minT |-> r.minT, maxT |-> r.maxT]
ExtShapeOk(r) ==
  /\ ~r.err /\ r.regular
  /\ r.nv >= 5 /\ r.ext[1] <= r.nv          \* 180 degree data (fewer views are taken for 360 degree data by the tolerance of the test)
  /\ r.lo = << r.minAx - r.ext[2], -r.ext[1], r.minT - r.ext[3] >>
  /\ r.hi = << r.maxAx + r.ext[2], r.nv - 1 + r.ext[1], r.maxT + r.ext[3] >>
  /\ Len(r.out) = (r.hi[1] - r.lo[1] + 1) * (r.hi[2] - r.lo[2] + 1) * (r.hi[3] - r.lo[3] + 1)
ExtElemOk(r, a, v, t) ==
  LET nt == r.maxT - r.minT + 1
      x == ExtSource(ExtD(r), a, v, t)
      ont == r.hi[3] - r.lo[3] + 1
      onv == r.hi[2] - r.lo[2] + 1 IN
  r.out[((a - r.lo[1]) * onv + (v - r.lo[2])) * ont + (t - r.lo[3]) + 1]
     = 16 * r.in[((x[1] - r.minAx) * r.nv + x[2]) * nt + (x[3] - r.minT) + 1]
ExtOk(r) == ExtShapeOk(r) /\ \A a \in r.lo[1]..r.hi[1] : \A v \in r.lo[2]..r.hi[2] : \A t \in r.lo[3]..r.hi[3] : ExtElemOk(r, a, v, t)
\* everything but the elements of wrapped views whose (nearest existing) tangential position has no mirror image
ExtOkButMirrorless(r) ==
  ExtShapeOk(r) /\ \A a \in r.lo[1]..r.hi[1] : \A v \in r.lo[2]..r.hi[2] : \A t \in r.lo[3]..r.hi[3] :
     (ExtWraps(ExtD(r), v) % 2 = 0 \/ ExtHasMirror(ExtD(r), t)) => ExtElemOk(r, a, v, t)

\* interpolate_projdata with linear B-splines on direct sinograms of one scanner (values * 2^8, exact dyadic weights)
InterpOk(r) ==
  LET base == [N |-> r.N, R |-> r.R, span |-> r.span, ge |-> FALSE, maxDelta |-> (IF r.span = 1 THEN 0 ELSE 1), mash |-> r.mash,
               tofMash |-> 0, maxT |-> 0, minTang |-> r.minTang, maxTang |-> r.maxTang, minSeg |-> 0, maxSeg |-> 0]
      ci == base
      co == [base EXCEPT !.span = r.ospan, !.maxDelta = (IF r.ospan = 1 THEN 0 ELSE 1), !.mash = r.omash, !.minTang = r.ominTang, !.maxTang = r.omaxTang]
      d == [minAx |-> 0, maxAx |-> r.numAx - 1, nv |-> r.nv, minT |-> r.minTang, maxT |-> r.maxTang]
      nt == r.maxTang - r.minTang + 1
      ont == r.omaxTang - r.ominTang + 1
      E(a, v, t) == LET x == ExtSource(d, a, v, t) IN r.in[(x[1] * r.nv + x[2]) * nt + (x[3] - r.minTang) + 1]
      den == StepQ(ci, 0) * 2 * ci.mash
  IN /\ LegalConfig(ci) /\ LegalConfig(co) /\ r.minTang = -r.maxTang
     /\ r.numAx = NumAx(ci, 0) /\ r.nv = NumViews(ci) /\ r.onumAx = NumAx(co, 0) /\ r.onv = NumViews(co)
     /\ ~r.err /\ r.ok
     /\ Len(r.out) = r.onumAx * r.onv * ont
     /\ \A a \in 0..(r.onumAx - 1) : \A v \in 0..(r.onv - 1) : \A t \in r.ominTang..r.omaxTang :
           Abs(r.out[(a * r.onv + v) * ont + (t - r.ominTang) + 1] * den - 256 * LinInterp2(E, ci, co, a, v, t)) <= den

\* ScatterSimulation::downsample_scanner: the template it makes is DownsampleGeom (integer maps only; axial length kept)
DownOk(r) ==
  LET cc == CfgOf(r)  d == DownsampleGeom(cc, r.newR, r.newN) IN
  /\ LegalConfig(cc) /\ ~r.err /\ r.ok
  /\ r.dN = d.N /\ r.dR = d.R /\ r.dViews = NumViews(d) /\ r.dMinTang = d.minTang /\ r.dMaxTang = d.maxTang
  /\ r.dTofMash = 0 /\ r.dMaxBins = NumTang(d)
  /\ Len(r.dSegs) = d.maxSeg - d.minSeg + 1
  /\ \A i \in 1..Len(r.dSegs) :
       LET sg == r.dSegs[i][1] IN
       /\ sg = d.minSeg + i - 1 /\ r.dSegs[i][2] = sg /\ r.dSegs[i][3] = sg
       /\ r.dSegs[i][4] = 0 /\ r.dSegs[i][5] = NumAx(d, sg) - 1
  /\ Abs(r.lenRatio6 - 1000000) <= 10

\* lines after a Config line that was refused or not explained have no output geometry to refer to
Ctx == c # NoCfg /\ o # NoCfg
Explains(r) ==
  CASE r.e = "Config" -> ConfigOk(r)
    [] r.e = "End" -> ~r.err
    [] r.e = "Inv" -> InvOk(r)
    [] r.e = "Ext" -> ExtOk(r)
    [] r.e = "Down" -> DownOk(r)
    [] r.e = "Interp" -> InterpOk(r)
    [] ~Ctx -> FALSE
    [] r.e = "Ev" -> EvOk(r)
    [] r.e = "Hist" /\ r.which = "fine" ->
         /\ Cardinality(NzSet(r.nz)) = Len(r.nz)
         /\ NzSet(r.nz) = Scale(FineHist, 16)
    [] r.e = "Hist" /\ r.which = "coarse" ->
         /\ Cardinality(NzSet(r.nz)) = Len(r.nz)
         /\ NzSet(r.nz) = Scale(CoarseHist, 16)
    [] r.e = "Rebin" /\ ~r.norm ->
         IF TofNests(c, o)
         THEN /\ Cardinality(NzSet(r.nz)) = Len(r.nz)
              \* the counts of every bin of the input go to the bin SSRBMap names
              /\ NzSet(r.nz) = Scale(RebinHist, 16)
              \* "histogramming at the coarse sampling equals histogramming finely and then rebinning"
              \* (observation against observation; when no bins are added)
              /\ p.trim >= 0 => NzSet(r.nz) = coarse
              \* "total counts are conserved when no range is trimmed"
              /\ NothingTrimmed(c, p) => Total(NzSet(r.nz)) = fineTot
         ELSE PermOk(r.nz)
    [] r.e = "Rebin" /\ r.norm -> (p.tofComb % 2 = 1) => NormOk(r.nz)
    [] OTHER -> FALSE

\* An unexplained line is attributed to a known finding only by its signature (known_findings.jsonl):
\* C15-eventof: SSRB with an even num_tof_bins_to_combine on data whose coarse TOF bins ARE unions of fine ones:
\* the data-rebinning SSRB decides by comparing floating-point k with the bin edges, so an input TOF bin centred on
\* an output edge goes to the side the comparison (and its rounding) happens to give, not to the bin the
\* output geometry assigns; everything else about the line must still be explained (PermOk).
\* C15-maxsegsmall: SSRB(ProjDataInfo...) does not refuse a max_in_segment_num_to_process smaller than
\* num_segments_to_combine / 2 (its test "out_max_segment_num < 0" never fires: (m - n/2) / n truncates to 0 in C++)
\* and combines segments the caller excluded.
Classify(r) ==
  IF r.e = "Config" /\ ~r.err /\ InputOk(r) /\ TooFewSegments(CfgOf(r), ParOf(r)) /\ r.trim < r.maxTang - r.minTang + 1 /\ r.tofComb >= 1
  THEN "C15-maxsegsmall"
  \* C15-extflip: extend_segment, 180 degree data with an asymmetric tangential range, view AND tangential extension:
  \* the wrapped views are filled before the tangential extension, from positions that are still empty
  ELSE IF r.e = "Ext" /\ r.minT # -r.maxT /\ r.ext[1] > 0 /\ r.ext[3] > 0 /\ ExtOkButMirrorless(r) THEN "C15-extflip"
  ELSE IF r.e = "Rebin" /\ ~r.norm /\ c # NoCfg /\ o # NoCfg /\ p.tofComb % 2 = 0 /\ TofNests(c, o) /\ PermOk(r.nz) THEN "C15-eventof"
  ELSE "new"

Init == l = 1 /\ c = NoCfg /\ p = [segComb |-> 0] /\ o = NoCfg /\ ipN = 0 /\ ipT = <<>> /\ evB = <<>> /\ fineTot = 0 /\ coarse = {} /\ bad = <<>>
Next == /\ l <= Len(TraceLog)
        /\ LET r == TraceLog[l]
               okr == Explains(r) IN
           /\ IF r.e = "Config"
              THEN /\ c' = CfgOf(r) /\ p' = ParOf(r)
                   /\ o' = IF okr /\ ~r.err THEN SSRBGeom(CfgOf(r), ParOf(r)) ELSE NoCfg
                   /\ ipN' = r.N
                   /\ ipT' = IF r.N = ipN THEN ipT ELSE IpTable(CfgOf(r))
                   /\ evB' = <<>> /\ fineTot' = 0 /\ coarse' = {}
              ELSE /\ UNCHANGED <<c, p, o, ipN, ipT>>
                   /\ evB' = IF r.e = "Ev" /\ okr
                             THEN [ i \in 1..Len(r.ev) |->
                                      LET q == << r.ev[i][1], r.ev[i][2], r.ev[i][3], r.ev[i][4], r.ev[i][5] >>
                                          bi == BinOfT(c, ipT, q) IN
                                      [bi |-> bi, bo |-> BinOfT(o, ipT, q),
                                       mb |-> IF Covered(c, bi) THEN SSRBMap(c, o, p, bi) ELSE NoBin,
                                       ms |-> IF Covered(c, bi) THEN SSRBMapS(c, o, p, bi) ELSE NoBin,
                                       cands |-> IF Covered(c, bi) THEN TofCands(c, o, bi.tof) ELSE {},
                                       cert |-> Covered(c, bi) /\ TofCertain(c, o, bi.tof),
                                       n |-> r.ev[i][6]] ]
                             ELSE evB
                   /\ fineTot' = IF r.e = "Hist" /\ r.which = "fine" THEN Total(NzSet(r.nz)) ELSE fineTot
                   /\ coarse' = IF r.e = "Hist" /\ r.which = "coarse" THEN NzSet(r.nz) ELSE coarse
           /\ bad' = IF okr THEN bad
                     ELSE LET cls == Classify(r) IN
                          IF cls = "new" THEN (IF Len(SelectSeq(bad, LAMBDA x : x[2] = "new")) < 500 THEN Append(bad, <<l, cls>>) ELSE bad)
                          ELSE (IF Len(SelectSeq(bad, LAMBDA x : x[2] = cls)) < 20 THEN Append(bad, <<l, cls>>) ELSE bad)
        /\ l' = l + 1
Spec == Init /\ [][Next]_vars

Done == l > Len(TraceLog) => (bad = <<>> \/ PrintT(<<"UNEXPLAINED", bad>>))
Consumed == IF TLCGet("stats").diameter - 1 = Len(TraceLog) THEN TRUE
            ELSE PrintT(<<"REJECTED_AT", TLCGet("stats").diameter>>) /\ FALSE
=============================================================================
