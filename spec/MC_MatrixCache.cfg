SPECIFICATION Spec
CONSTANTS MaxLen = 6 NumGens = 2 Defect = "none"
INVARIANTS InvCache InvGet InvLast InvGen InvSetUp InvKey
VIEW View
CHECK_DEADLOCK FALSE
