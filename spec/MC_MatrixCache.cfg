SPECIFICATION Spec
CONSTANTS MaxLen = 6 NumGens = 2 Defect = "none" Impls = {"RayTracing", "Interpolation", "FromFile"}
INVARIANTS InvCache InvGet InvLast InvGen InvSetUp InvRefused InvKey
VIEW View
CHECK_DEADLOCK FALSE
