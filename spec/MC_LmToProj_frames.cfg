SPECIFICATION Spec
CONSTANTS
  MaxLen = 3
  Symbols = {1, 3, 4, 5, 9, 11}
  SegIMs = {2}
  TofIMs = {2}
  FrameIds = {0, 2, 5}
  StoreIds = {1, 3}
  NStores = {0, 2}
  Freshes = {FALSE}
  MaxSegs = {1}
  FixEmpty = TRUE
INVARIANTS InvBatches InvOut InvPartition InvPos InvCount
CHECK_DEADLOCK FALSE
