-------------------------------- MODULE Zoom --------------------------------
(***************************************************************************)
(* C15, part 2 - zooming / shifting of images (stir::zoom_image,           *)
(* zoom_image_in_place) by separable 'overlap' interpolation, in exact     *)
(* integer arithmetic.                                                     *)
(*                                                                         *)
(* Written from the documentation in zoom.h, overlap_interpolate.h/.cxx:   *)
(*  "This type of interpolation considers the data as the samples of a     *)
(*   step-wise function.  The interpolated array again represents a        *)
(*   step-wise function, such that the counts (i.e. integrals) are         *)
(*   preserved."  "The convention is used that the 'bins' are centered     *)
(*   around the coordinate value."  "zoom larger than 1 means more detail, *)
(*   so smaller pixels."  "Zooming is done such that the physical          *)
(*   coordinates of a point ... remain the same."  "The index range of the *)
(*   new image is according to the standard STIR conventions (z starts     *)
(*   from 0, but x and y from -(new_size/2)).  The origin is then chosen   *)
(*   such that the geometric centres of the images satisfy                 *)
(*   offsets_in_mm == new_middle - old_middle.  The geometric centre is    *)
(*   determined by the average of the physical coordinates of the min and  *)
(*   max indices."  "(i) preserving the image values ... (ii) preserving   *)
(*   the image projectors ... (iii) preserving the image sum: default".    *)
(*                                                                         *)
(* Numbers.  Along one axis the zoom is the rational P/Q (P, Q in 1..3),   *)
(* offsets and origins are multiples of a quarter of the input voxel.      *)
(* Lengths along the axis are integers in the unit  u = input voxel/(4P):  *)
(* input voxel = 4P u, output voxel = 4Q u.  A 1-D grid is a record        *)
(*   [lo, hi : index range, org : physical coordinate of index 0 (u),      *)
(*    vox : voxel size (u)]                                                *)
(* and voxel i covers  [i*vox + org - vox/2, i*vox + org + vox/2].         *)
(* A 3-D grid is the sequence <<z, y, x>> of its axes; an image on it is a  *)
(* function on index triples <<z, y, x>>.                                  *)
(***************************************************************************)
EXTENDS Integers, Sequences, FiniteSets, FiniteSetsExt, TLC

ZAbs(x) == IF x < 0 THEN -x ELSE x
ZMin(a, b) == IF a < b THEN a ELSE b
ZMax(a, b) == IF a > b THEN a ELSE b
Zooms == { <<1, 3>>, <<1, 2>>, <<2, 3>>, <<1, 1>>, <<3, 2>>, <<2, 1>>, <<3, 1>> }     \* <<P, Q>>

(* ------------------------------ 1-D grids ------------------------------- *)
Idx(g) == g.lo..g.hi
Size(g) == g.hi - g.lo + 1
LeftEdge(g, i) == 2 * (i * g.vox + g.org) - g.vox          \* in HALF units (vox may be odd in general)
RightEdge(g, i) == 2 * (i * g.vox + g.org) + g.vox
Centre2(g, i) == 2 * (i * g.vox + g.org)                   \* twice the coordinate of the voxel centre
\* twice the geometric centre: "average of the physical coordinates of the min and max indices"
Middle2(g) == Centre2(g, g.lo) + Centre2(g, g.hi)          \* (= 2 * 2 * middle / 2): FOUR times the middle / 2
\* the new grid: n voxels of size vq = 4Q, standard index range (zfirst: starting from 0, else from
\* -(n/2)), origin such that new_middle - old_middle = off (all in units u; Middle2 = 2 * middle * 2 / 2)
ZoomGrid1(g, vq, off, n, zfirst) ==
  LET lo == IF zfirst THEN 0 ELSE -(n \div 2)
      hi == lo + n - 1
      \* with origin 0 the new middle is (lo + hi) * vq / 2; old middle is Middle2(g) / 4
      \* org = off + old_middle - new_middle0; 4 * org = 4 * off + Middle2(g) - 2 * (lo + hi) * vq
      org4 == 4 * off + Middle2(g) - 2 * (lo + hi) * vq
  IN [lo |-> lo, hi |-> hi, org4 |-> org4, vox |-> vq]
\* origins of the grids used here are whole units: org4 divisible by 4 (checked where used)
GridOf(z) == [lo |-> z.lo, hi |-> z.hi, org |-> z.org4 \div 4, vox |-> z.vox]
WholeOrigin(z) == z.org4 % 4 = 0

(* ------------------------ 1-D overlap interpolation --------------------- *)
\* length (in half units) of the overlap of input voxel i and output voxel j
Ov(gi, go, i, j) == ZMax(0, ZMin(RightEdge(gi, i), RightEdge(go, j)) - ZMax(LeftEdge(gi, i), LeftEdge(go, j)))
\* input voxels overlapping output voxel j
Over(gi, go, j) == { i \in Idx(gi) : Ov(gi, go, i, j) > 0 }
\* out[j] = sum_i f[i] * overlap(i, j) / (input voxel size): numerator over the denominator 2 * gi.vox
Interp1Num(f, gi, go, j) == LET S == Over(gi, go, j) IN FoldSet(LAMBDA i, acc : acc + f[i] * Ov(gi, go, i, j), 0, S)
Den1(gi) == 2 * gi.vox

(* ------------------------------ 3-D, separable -------------------------- *)
Idx3(G) == Idx(G[1]) \X Idx(G[2]) \X Idx(G[3])
\* numerator of the value of output voxel j = <<jz, jy, jx>> over Den3(GI)
Interp3Num(f, GI, GO, j) ==
  LET Sz == Over(GI[1], GO[1], j[1])  Sy == Over(GI[2], GO[2], j[2])  Sx == Over(GI[3], GO[3], j[3]) IN
  FoldSet(LAMBDA iz, az : az + Ov(GI[1], GO[1], iz, j[1]) *
     FoldSet(LAMBDA iy, ay : ay + Ov(GI[2], GO[2], iy, j[2]) *
        FoldSet(LAMBDA ix, ax : ax + Ov(GI[3], GO[3], ix, j[3]) * f[<<iz, iy, ix>>], 0, Sx), 0, Sy), 0, Sz)
Den3(GI) == Den1(GI[1]) * Den1(GI[2]) * Den1(GI[3])
\* the same by three 1-D passes (x, then y, then z - the order of the implementation); theorem Separable
PassX(f, GI, GO) == [ j \in Idx(GI[1]) \X Idx(GI[2]) \X Idx(GO[3]) |->
                        Interp1Num([ i \in Idx(GI[3]) |-> f[<<j[1], j[2], i>>] ], GI[3], GO[3], j[3]) ]
PassY(f, GI, GO) == [ j \in Idx(GI[1]) \X Idx(GO[2]) \X Idx(GO[3]) |->
                        Interp1Num([ i \in Idx(GI[2]) |-> f[<<j[1], i, j[3]>>] ], GI[2], GO[2], j[2]) ]
PassZ(f, GI, GO) == [ j \in Idx(GO[1]) \X Idx(GO[2]) \X Idx(GO[3]) |->
                        Interp1Num([ i \in Idx(GI[1]) |-> f[<<i, j[2], j[3]>>] ], GI[1], GO[1], j[1]) ]
ThreePasses(f, GI, GO) == PassZ(PassY(PassX(f, GI, GO), GI, GO), GI, GO)

(* --------------------------- ZoomOptions scalings ------------------------ *)
\* zoom along an axis = input voxel / output voxel.  Scale factor as <<numerator, denominator>>:
\* "preserve_sum": none; "preserve_values": zoom_x * zoom_y * zoom_z; "preserve_projections": zoom_y * zoom_z
PreserveSum == 0
PreserveValues == 1
PreserveProjections == 2
RECURSIVE ZGcd(_, _)
ZGcd(a, b) == IF b = 0 THEN a ELSE ZGcd(b, a % b)
\* zoom along axis a as a reduced fraction <<numerator, denominator>>
ZoomOf(GI, GO, a) == LET g == ZGcd(GI[a].vox, GO[a].vox) IN << GI[a].vox \div g, GO[a].vox \div g >>
ScaleOf(opt, GI, GO) ==
  LET zz == ZoomOf(GI, GO, 1)  zy == ZoomOf(GI, GO, 2)  zx == ZoomOf(GI, GO, 3) IN
  CASE opt = PreserveSum -> <<1, 1>>
    [] opt = PreserveValues -> << zz[1] * zy[1] * zx[1], zz[2] * zy[2] * zx[2] >>
    [] opt = PreserveProjections -> << zz[1] * zy[1], zz[2] * zy[2] >>
\* the zoomed image: value of voxel j = ZoomNum / ZoomDen
ZoomNum(f, GI, GO, opt, j) == Interp3Num(f, GI, GO, j) * ScaleOf(opt, GI, GO)[1]
ZoomDen(GI, GO, opt) == Den3(GI) * ScaleOf(opt, GI, GO)[2]

(* ----------------------- the grid zoom_image constructs ------------------ *)
\* vq: output voxel sizes, off: offsets, n: new sizes (sequences <<z, y, x>>)
ZoomGrid3(GI, vq, off, n) == << ZoomGrid1(GI[1], vq[1], off[1], n[1], TRUE),
                                ZoomGrid1(GI[2], vq[2], off[2], n[2], FALSE),
                                ZoomGrid1(GI[3], vq[3], off[3], n[3], FALSE) >>

(* -------------------- invariants of the interpolation -------------------- *)
\* support of an image along an axis and coverage by the output grid
Covers1(gi, go, S) == S = {} \/ LET a == CHOOSE x \in S : \A y \in S : x <= y
                                    b == CHOOSE x \in S : \A y \in S : y <= x IN
                                LeftEdge(go, go.lo) <= LeftEdge(gi, a) /\ RightEdge(gi, b) <= RightEdge(go, go.hi)
Sum1(f, g) == FoldSet(LAMBDA i, acc : acc + f[i], 0, Idx(g))
\* first moment in half units: sum f[i] * 2 * centre
Mom1(f, g) == FoldSet(LAMBDA i, acc : acc + f[i] * Centre2(g, i), 0, Idx(g))
\* 1-D theorems for a non-negative input f on gi, output grid go (values = num / Den1(gi)):
\* "when the output range is large enough, in.sum() == out.sum()"
SumPreserved1(f, gi, go) ==
  Covers1(gi, go, { i \in Idx(gi) : f[i] # 0 }) =>
     FoldSet(LAMBDA j, acc : acc + Interp1Num(f, gi, go, j), 0, Idx(go)) = Den1(gi) * Sum1(f, gi)
\* centre of mass within half the sum of the voxel sizes: |Mout / Sout - Min / Sin| <= (vi + vo) / 2
\* with Sout = Sin (sum preserved); everything multiplied by 2 * Den * S
ComKept1(f, gi, go) ==
  LET S == Sum1(f, gi)
      mo == FoldSet(LAMBDA j, acc : acc + Interp1Num(f, gi, go, j) * Centre2(go, j), 0, Idx(go)) IN
  (Covers1(gi, go, { i \in Idx(gi) : f[i] # 0 }) /\ S > 0) =>
     ZAbs(mo - Den1(gi) * Mom1(f, gi)) <= Den1(gi) * S * (gi.vox + go.vox)
\* (beyond the property: the tight bound.  Every piece of mass moves to the centre of the output voxel it falls in,
\* so the centre of mass moves by at most half an OUTPUT voxel; for a pure shift - zoom 1 - that is half a voxel)
ComKeptTight1(f, gi, go) ==
  LET S == Sum1(f, gi)
      mo == FoldSet(LAMBDA j, acc : acc + Interp1Num(f, gi, go, j) * Centre2(go, j), 0, Idx(go)) IN
  (Covers1(gi, go, { i \in Idx(gi) : f[i] # 0 }) /\ S > 0) =>
     ZAbs(mo - Den1(gi) * Mom1(f, gi)) <= Den1(gi) * S * go.vox
\* "value-preserving zoom keeps uniform regions uniform": an output voxel inside a region where the input
\* is the constant v has (after the preserve_values scaling) the value v:  num * vi = Den * v * vo
UniformKept1(f, gi, go, a, b, v) ==
  (\A i \in a..b : f[i] = v) =>
     \A j \in Idx(go) : (LeftEdge(gi, a) <= LeftEdge(go, j) /\ RightEdge(go, j) <= RightEdge(gi, b)) =>
        Interp1Num(f, gi, go, j) * gi.vox = Den1(gi) * v * go.vox
=============================================================================
