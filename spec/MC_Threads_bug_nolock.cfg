SPECIFICATION Spec
CONSTANTS NT = 2 NI = 2 NK = 1 Bug = "nolock"
INVARIANTS InvMutex InvUse InvFilledOnce InvFlagLast InvCache InvOneInsert InvNothingLost InvIO InvItems InvResult InvLocksFree
CHECK_DEADLOCK TRUE
