--------------------------- MODULE Trace_ImageIO ---------------------------
(* Trace validation for C10.  The driver (harness/c10_imageio.cxx) records,  *)
(* per round trip, four kinds of lines:                                      *)
(*   Img    the image handed to write_to_file (geometry and positions as     *)
(*          reported by the API, voxel values m*2^e, exam information)        *)
(*   Write  the outcome of write_to_file and what the driver's OWN reader    *)
(*          finds in the files: header keys, stored integers, decoded values *)
(*   Read   the outcome of read_from_file: geometry, positions, values, exam *)
(*   Trunc  the outcome of read_from_file after cutting the data file        *)
(* Every line must be explained by ImageIO.tla given the lines before it.    *)
(* The round trips are independent, so validation does not stop at the       *)
(* first unexplained line: they are collected in `bad' with a class, so that *)
(* known findings can be told from new violations.                           *)
EXTENDS ImageIO, TraceLib
VARIABLES l, env, img, wr, bad

None == [e |-> "none"]
G(gj) == [min |-> gj.min, size |-> gj.size, org |-> gj.org, vox |-> gj.vox]
ExamOf(x) == ExamProj(x)
EnvOf(r) == [native |-> r.native, defPT |-> r.defPT, defNM |-> r.defNM, defOther |-> r.defOther]

(* ------------------------------------------------------------------ Img *)
\* the driver's description of the image is coherent, and the positions reported by
\* get_physical_coordinates_for_indices are origin + index * voxel size (ties Pos to the API)
ImgOK(r) ==
  /\ r.kind \in { "single", "dyn", "par" } /\ r.fmt \in { "Interfile", "Multi" }
  /\ r.nd >= 1 /\ Len(r.geo) = r.nd /\ Len(r.m) = r.nd /\ Len(r.bits) = r.nd
  /\ (r.kind = "single" => r.nd = 1 /\ r.fmt = "Interfile") /\ (r.kind = "par" => r.nd = 2)
  /\ r.k >= 0 /\ r.k <= 28
  /\ \A d \in 1..r.nd :
       LET g == G(r.geo[d]) IN
       /\ g = G(r.geo[1])
       /\ \A a \in 1..3 : g.size[a] >= 1 /\ Abs(r.geo[d].orgR[a]) <= ResTol(g.org[a]) /\ Abs(r.geo[d].voxR[a]) <= ResTol(g.vox[a])
       /\ Len(r.m[d]) = NumVox(g) /\ Len(r.bits[d]) = NumVox(g)
       /\ \A j \in 1..Len(r.geo[d].pos) :
            LET row == r.geo[d].pos[j]
                p == Pos(g, << g.min[1] + row[1], g.min[2] + row[2], g.min[3] + row[3] >>) IN
            \A a \in 1..3 : QExact(row[3 + a], row[6 + a], p[a])

(* ---------------------------------------------------------------- Write *)
Mabs(m) == LET a == SeqMax(m) b == SeqMin(m) IN IF -b > a THEN -b ELSE a
\* extreme mantissas after UnsignedTruncation
MMax(m) == LET a == SeqMax(m) IN IF a > 0 THEN a ELSE 0
MMin(m, signed) == LET b == SeqMin(m) IN IF signed /\ b < 0 THEN b ELSE 0

\* what the data set in the file must contain, given the values m*2^e handed to write_to_file
DataSetOK(t, m, e, k, ds, bits) ==
  LET nv == Len(m) signed == IsSigned(t) mmax == MMax(m) mmin == MMin(m, signed) IN
  /\ ds.complete /\ Len(ds.dec) = nv
  /\ IF ~IsInt(t)
     THEN \* "exactly for floating-point output"
          /\ \A i \in 1..nv : ds.dec[i] = m[i] * P2(k)
          /\ (t = "FLOAT" /\ ds.sm = 1 /\ ds.se = 0 => ds.sbits = bits)
     ELSE /\ Len(ds.stored) = nv
          /\ IF mmax = 0 /\ mmin = 0
             THEN \A i \in 1..nv : ds.stored[i] = 0 /\ ds.dec[i] = 0           \* all-zero (after UnsignedTruncation)
             ELSE /\ ds.sm > 0
                  \* "which never overflows the chosen type"
                  /\ NoOverflow(mmax, mmin, e, ds.sm, ds.se, MagBits(t), signed)
                  /\ LET exact == ExactStep(ds.sm, ds.se, e, k)
                         S == IF exact THEN P2(ds.se - e + k) ELSE ds.S IN
                     \A i \in 1..nv :
                       LET w == UnsignedTruncation(m[i], signed) * P2(k) IN
                       /\ (m[i] < 0 /\ ~signed => ds.stored[i] = 0)               \* UnsignedTruncation
                       /\ (m[i] = 0 => ds.stored[i] = 0)
                       /\ ds.stored[i] * m[i] >= 0 \/ Abs(ds.stored[i]) >= SAT    \* sign kept
                       \* "within half a quantisation step" (value the file defines: stored * scale)
                       /\ WithinHalfStep(ds.dec[i], w, S, exact)

\* named deviation UserScaleHonoured: a sufficient scale_to_write_data is used as it is
UserScaleOK(r, t, m, e, ds) ==
  (IsInt(t) /\ r.scaleM = 1 /\ Mabs(m) > 0 /\ UserScaleSufficient(Mabs(m), e, r.scaleE, MagBits(t)))
     => (ds.sm = 1 /\ ds.se = r.scaleE)

HeaderOK(h, hi, r, t, g, boExp, dsPerFile) ==
  LET nv == NumVox(g) ex == img.exam fpo == Rev3(FirstPixelOffset(g)) vx == Rev3(g.vox) IN
  /\ h.present
  /\ h.bo = boExp /\ h.nf = NumberFormat(t) /\ h.bpp = Bytes(t)
  \* write_basic_interfile_image_header: matrix size, scaling factors (mm/pixel), first pixel offset, x,y,z order
  /\ h.labels = "xyz" /\ h.msize = Rev3(g.size)
  /\ \A a \in 1..3 : QExact(h.vox[a], h.voxR[a], vx[a])
  /\ h.hasFpo /\ \A a \in 1..3 : QExact(h.fpo[a], h.fpoR[a], fpo[a])
  \* the data file has exactly the length the header announces
  /\ h.dlen = dsPerFile * nv * h.bpp
  /\ h.mod = (IF ex.mod = "Unknown" THEN "-" ELSE ex.mod)
  /\ h.typeOfData = (IF ex.mod = "NM" THEN "Tomographic" ELSE "PET")

WriteOK(r) ==
  LET t == r.type g == G(img.geo[1]) nv == NumVox(g)
      multi == img.fmt = "Multi"
      \* named deviation ContainerNativeOrder: the Interfile formats for dynamic and parametric images
      \* document that the byte order is fixed to the native one
      boExp == IF img.kind = "single" \/ multi THEN r.bo ELSE env.native
      nh == IF multi THEN img.nd ELSE 1
      dsPerFile == IF multi THEN 1 ELSE img.nd IN
  /\ r.id = img.id /\ r.ok /\ ~r.err
  /\ t \in Types /\ r.int = IsInt(t) /\ r.signed = IsSigned(t) /\ r.bytes = Bytes(t) /\ r.nf = NumberFormat(t)
  /\ r.boEff = boExp /\ r.nfEff = NumberFormat(t) /\ r.bytesEff = Bytes(t)
  /\ Len(r.hdrs) = nh
  /\ \A hi \in 1..nh : HeaderOK(r.hdrs[hi], hi, r, t, g, boExp, dsPerFile)
  /\ Len(r.ds) >= img.nd /\ (img.kind # "single" => Len(r.ds) = img.nd)
  /\ \A d \in 1..img.nd :
       /\ r.ds[d].off = (IF multi THEN 0 ELSE (d - 1) * nv * Bytes(t))
       /\ DataSetOK(t, img.m[d], img.vexp, img.k, r.ds[d], img.bits[d])
       /\ UserScaleOK(r, t, img.m[d], img.vexp, r.ds[d])

(* ----------------------------------------------------------------- Read *)
GeomReadOK(gw, gr) ==
  LET g0 == G(gw) ge == ReadGeom(g0) IN
  \* index range re-normalised, origin recomputed from the first pixel offset
  /\ gr.min = ge.min /\ gr.size = ge.size
  /\ \A a \in 1..3 : QExact(gr.org[a], gr.orgR[a], ge.org[a]) /\ QExact(gr.vox[a], gr.voxR[a], ge.vox[a])
  \* "preserves, for every voxel, its physical position": same offset from the minimum index <-> same position
  /\ Len(gr.pos) = Len(gw.pos)
  /\ \A j \in 1..Len(gw.pos) :
       /\ \A a \in 1..3 : gr.pos[j][a] = gw.pos[j][a]
       /\ \A a \in 4..6 : QExact(gr.pos[j][a], gr.pos[j][a + 3], gw.pos[j][a])

ValuesReadOK(t, m, k, e, ds, vals, rbits, wbits) ==
  LET nv == Len(m) signed == IsSigned(t) IN
  /\ Len(vals) = nv
  /\ IF ~IsInt(t)
     THEN \* "exactly for floating-point output"
          /\ \A i \in 1..nv : vals[i] = m[i] * P2(k)
          /\ rbits = wbits
     ELSE LET exact == ExactStep(ds.sm, ds.se, e, k)
              S == IF exact THEN P2(ds.se - e + k) ELSE ds.S IN
          \A i \in 1..nv :
            LET w == UnsignedTruncation(m[i], signed) * P2(k) IN
            \* "within half a quantisation step for scaled integer output"
            /\ WithinHalfStep(vals[i], w, S, exact)
            \* what STIR reads is what the file defines (own decoder), up to single-precision rounding
            /\ (Len(ds.dec) = nv => IF exact THEN vals[i] = ds.dec[i] ELSE Abs(vals[i] - ds.dec[i]) <= FloatSlack(ds.dec[i]))

ReadOK(r) ==
  /\ r.id = img.id /\ r.ok /\ ~r.err
  /\ r.nd = img.nd /\ Len(r.geo) = img.nd /\ Len(r.vals) = img.nd /\ Len(r.bits) = img.nd
  /\ \A d \in 1..img.nd :
       /\ GeomReadOK(img.geo[d], r.geo[d])
       /\ ValuesReadOK(wr.type, img.m[d], img.k, img.vexp, wr.ds[d], r.vals[d], r.bits[d], img.bits[d])
  \* "The exam information that the format stores ... survives the round trip."
  /\ ExamOf(r.exam) = ExamStored(ExamOf(img.exam), env)

(* ---------------------------------------------------------------- Trunc *)
\* "A data file shorter than its header announces is reported as an error rather than returned as an image."
TruncOK(r) ==
  /\ r.id = img.id /\ r.full = wr.hdrs[1].dlen /\ r.len >= 0 /\ r.len <= r.full
  /\ (r.len < r.full => ~r.accepted)
  /\ (r.len = r.full => r.accepted)

Explains(r) ==
  CASE r.e = "Env" -> r.native \in { "LITTLEENDIAN", "BIGENDIAN" }
    [] r.e = "Img" -> ImgOK(r)
    [] r.e = "Write" -> img # None /\ WriteOK(r)
    [] r.e = "Read" -> img # None /\ wr # None /\ wr.id = img.id /\ ReadOK(r)
    [] r.e = "Trunc" -> img # None /\ wr # None /\ wr.id = img.id /\ TruncOK(r)
    [] OTHER -> FALSE

(* ------------------------------------------------- known findings (signatures) *)
\* An unexplained line is attributed to a known finding only by the signature recorded in
\* known_findings.jsonl; everything else is "new".
Classify(r) == "new"

Init == l = 1 /\ env = None /\ img = None /\ wr = None /\ bad = << >>
Next == /\ l <= Len(TraceLog)
        /\ LET r == TraceLog[l] IN
           /\ env' = IF r.e = "Env" THEN EnvOf(r) ELSE env
           /\ img' = IF r.e = "Img" THEN r ELSE img
           /\ wr' = IF r.e = "Write" THEN r ELSE IF r.e = "Img" THEN None ELSE wr
           /\ LET okr == Explains(r)
                  cls == IF okr THEN "ok" ELSE Classify(r) IN
              bad' = IF okr THEN bad
                     ELSE IF cls = "new" THEN (IF Len(SelectSeq(bad, LAMBDA x : x[2] = "new")) < 500 THEN Append(bad, << l, cls >>) ELSE bad)
                     ELSE (IF Len(SelectSeq(bad, LAMBDA x : x[2] = cls)) < 20 THEN Append(bad, << l, cls >>) ELSE bad)
        /\ l' = l + 1
Spec == Init /\ [][Next]_<< l, env, img, wr, bad >>

Done == l > Len(TraceLog) => (bad = << >> \/ PrintT(<< "UNEXPLAINED", bad >>))
Consumed == IF TLCGet("stats").diameter - 1 = Len(TraceLog) THEN TRUE
            ELSE PrintT(<< "REJECTED_AT", TLCGet("stats").diameter >>) /\ FALSE
=============================================================================
