--------------------------- MODULE Trace_ImageIO ---------------------------
(* Trace validation for C10.  The driver (harness/c10_imageio.cxx) records,  *)
(* per round trip, four kinds of lines:                                      *)
(*   Img    the image handed to write_to_file (geometry and positions as     *)
(*          reported by the API, voxel values m*2^e, exam information)        *)
(*   Write  the outcome of write_to_file and what the driver's OWN reader    *)
(*          finds in the files: header keys, stored integers, decoded values *)
(*   Read   the outcome of read_from_file: geometry, positions, values, exam *)
(*   Trunc  the outcome of read_from_file after cutting the data file        *)
(* Every line must be explained by ImageIO.tla given the lines before it.    *)
(* The round trips are independent, so validation does not stop at the       *)
(* first unexplained line: they are collected in `bad' with a class, so that *)
(* known findings can be told from new violations.                           *)
(*                                                                            *)
(* Every predicate takes a set X of known-finding identifiers whose          *)
(* relaxation is switched on.  The verdict of a line is computed with        *)
(* X = {} (the property, nothing relaxed).  Only when that fails, Needed     *)
(* switches on the findings whose SIGNATURE (configuration recorded in       *)
(* known_findings.jsonl) matches the line, and reports those that are        *)
(* necessary to explain it; if the line is still not explained it is "new".  *)
EXTENDS ImageIO, TraceLib
VARIABLES l, env, img, wr, bad

None == [e |-> "none"]
G(gj) == [min |-> gj.min, size |-> gj.size, org |-> gj.org, vox |-> gj.vox]
ExamOf(x) == ExamProj(x)
EnvOf(r) == [native |-> r.native, defPT |-> r.defPT, defNM |-> r.defNM, defOther |-> r.defOther, db |-> r.db]

(* identifiers of the known findings (known_findings.jsonl) *)
K_ROUNDINT == "C10-roundint"        \* convert_range rounds through int: UINT/LONG/ULONG values beyond 2^31 steps overflow
K_UFLOW == "C10-scale-underflow"    \* automatic scale underflows to 0 in single precision (DOUBLE always; 8-byte integers for tiny values): zeros are written
K_NEGUNS == "C10-negunsigned"       \* non-positive image, unsigned type, automatic scale: data file short, success reported
K_ROT == "C10-rotation"             \* patient rotation left/right written as "other"
K_DEC6 == "C10-hdr6digits"          \* header numbers written with 6 significant digits
K_NMOFF == "C10-nm-offsets"         \* NM (SPECT) dynamic/parametric Interfile images: "data offset in bytes" ignored on reading
Findings == { K_ROUNDINT, K_UFLOW, K_NEGUNS, K_ROT, K_DEC6, K_NMOFF }

(* ------------------------------------------------- 6-significant-digit arithmetic (K_DEC6) *)
Digits10(n) == IF n < 10 THEN 1 ELSE IF n < 100 THEN 2 ELSE IF n < 1000 THEN 3 ELSE IF n < 10000 THEN 4 ELSE IF n < 100000 THEN 5
               ELSE IF n < 1000000 THEN 6 ELSE IF n < 10000000 THEN 7 ELSE IF n < 100000000 THEN 8 ELSE IF n < 1000000000 THEN 9 ELSE 10
\* a length of P eighths of a mm is P*125 thousandths of a mm; with 6 significant digits it is a multiple of q thousandths
Dec6Quantum(P) == LET T == Abs(P) * 125 d == Digits10(T) IN IF d <= 6 THEN 1 ELSE 10 ^ (d - 6)
Dec6Exact(P) == Abs(P) > 10000000 \/ (Abs(P) * 125) % Dec6Quantum(P) = 0
\* largest rounding error in 1e-6 of 1/8 mm: q/2 thousandths of a mm = q * 4000
Dec6Tol(P) == IF Dec6Exact(P) THEN 0 ELSE Dec6Quantum(P) * 4000
\* a scale factor rounded to 6 significant digits is off by at most 5e-6 relative (< 2^-17)
Dec6Slack(x) == 1 + Abs(x) \div 131072
QNear(q, r, expected, extra) == q = expected /\ Abs(r) <= ResTol(expected) + extra

(* ------------------------------------------------------------------ Img *)
\* the driver's description of the image is coherent, and the positions reported by
\* get_physical_coordinates_for_indices are origin + index * voxel size (ties Pos to the API)
ImgOK(r) ==
  /\ r.kind \in { "single", "dyn", "par" } /\ r.fmt \in { "Interfile", "Multi" }
  /\ r.nd >= 1 /\ Len(r.geo) = r.nd /\ Len(r.m) = r.nd /\ Len(r.bits) = r.nd
  /\ (r.kind = "single" => r.nd = 1 /\ r.fmt = "Interfile") /\ (r.kind = "par" => r.nd = 2)
  /\ r.k >= 0 /\ r.k <= 28
  /\ \A d \in 1..r.nd :
       LET g == G(r.geo[d]) IN
       /\ g = G(r.geo[1])
       /\ \A a \in 1..3 : g.size[a] >= 1 /\ Abs(r.geo[d].orgR[a]) <= ResTol(g.org[a]) /\ Abs(r.geo[d].voxR[a]) <= ResTol(g.vox[a])
       /\ Len(r.m[d]) = NumVox(g) /\ Len(r.bits[d]) = NumVox(g)
       /\ \A j \in 1..Len(r.geo[d].pos) :
            LET row == r.geo[d].pos[j]
                p == Pos(g, << g.min[1] + row[1], g.min[2] + row[2], g.min[3] + row[3] >>) IN
            \A a \in 1..3 : QExact(row[3 + a], row[6 + a], p[a])

(* ---------------------------------------------------------------- Write *)
Mabs(m) == LET a == SeqMax(m) b == SeqMin(m) IN IF -b > a THEN -b ELSE a
\* extreme mantissas after UnsignedTruncation
MMax(m) == LET a == SeqMax(m) IN IF a > 0 THEN a ELSE 0
MMin(m, signed) == LET b == SeqMin(m) IN IF signed /\ b < 0 THEN b ELSE 0
\* |v| / scale < 2^31 : the rounded value fits in an int
FitsInt(mi, e, sm, se) == LtScaled(Abs(mi), sm, se + 31 - e)

\* what the data set in the file must contain, given the values m*2^e handed to write_to_file
\* range of the type as a power of two (DBL_MAX ~ 2^1024)
RangeBits(t) == IF t = "DOUBLE" THEN 1024 ELSE MagBits(t)
\* the scale needed for the automatic setting, max|v| * 1.01 / TypeMax, is below 2^-150, i.e. it is 0 as a float
ScaleUnderflows(t, m, e) == Mabs(m) > 0 /\ LtScaled(Mabs(m), 1, RangeBits(t) - 151 - e)

DataSetOK(t, m, e, k, ds, bits, X) ==
  LET nv == Len(m) signed == IsSigned(t) mmax == MMax(m) mmin == MMin(m, signed)
      exact == ExactStep(ds.sm, ds.se, e, k)
      S == IF exact THEN P2(ds.se - e + k) ELSE ds.S IN
  /\ ds.complete /\ Len(ds.dec) = nv
  /\ \/ \* known finding: scale 0 and zeros in the file
        K_UFLOW \in X /\ ScaleUnderflows(t, m, e) /\ ds.sm = 0 /\ \A i \in 1..nv : ds.dec[i] = 0
     \/ IF ~IsInt(t)
        THEN \* "exactly for floating-point output"
             /\ \A i \in 1..nv : (ds.dec[i] = m[i] * P2(k))
                                  \/ (K_DEC6 \in X /\ ds.sm # 1 /\ Abs(ds.dec[i] - m[i] * P2(k)) <= Dec6Slack(m[i] * P2(k)))
             /\ (t = "FLOAT" /\ ds.sm = 1 /\ ds.se = 0 => ds.sbits = bits)
        ELSE /\ Len(ds.stored) = nv
             /\ IF mmax = 0 /\ mmin = 0
                THEN \A i \in 1..nv : ds.stored[i] = 0 /\ ds.dec[i] = 0              \* all-zero (after UnsignedTruncation)
                ELSE /\ ds.sm > 0
                     \* "which never overflows the chosen type"
                     /\ NoOverflow(mmax, mmin, e, ds.sm, ds.se, MagBits(t), signed)
                     /\ \A i \in 1..nv :
                          LET w == UnsignedTruncation(m[i], signed) * P2(k) IN
                          /\ (m[i] < 0 /\ ~signed => ds.stored[i] = 0)                \* UnsignedTruncation
                          /\ (m[i] = 0 => ds.stored[i] = 0)
                          /\ \/ K_ROUNDINT \in X /\ ~FitsInt(m[i], e, ds.sm, ds.se)    \* known finding: voxels beyond the int range
                             \/ /\ (m[i] > 0 => ds.stored[i] >= 0) /\ (m[i] < 0 => ds.stored[i] <= 0)      \* sign kept
                                \* "within half a quantisation step" (of the value the file defines: stored * scale)
                                /\ \/ WithinHalfStep(ds.dec[i], w, S, exact)
                                   \/ K_DEC6 \in X /\ ~exact /\ Abs(ds.dec[i] - w) <= HalfStep(S) + Dec6Slack(w)

\* named deviation UserScaleHonoured: a sufficient scale_to_write_data is used as it is
UserScaleOK(r, t, m, e, ds, X) ==
  (IsInt(t) /\ r.scaleM = 1 /\ Mabs(m) > 0 /\ UserScaleSufficient(Mabs(m), e, r.scaleE, MagBits(t)))
     => \/ ds.sm = 1 /\ ds.se = r.scaleE
        \* known finding: 2^j itself is rounded to 6 significant digits in the header
        \/ K_DEC6 \in X /\ LET tt == r.scaleE - ds.se IN tt >= 17 /\ tt <= 24 /\ Abs(ds.sm - P2(tt)) <= P2(tt - 17)

\* K_NEGUNS: the data sets that write_data refuses (no positive value, some negative value, unsigned type, automatic scale)
NegSet(m) == SeqMax(m) <= 0 /\ SeqMin(m) < 0
HeaderOK(h, hi, r, t, g, boExp, dsPerFile, X) ==
  LET nv == NumVox(g) ex == img.exam fpo == Rev3(FirstPixelOffset(g)) vx == Rev3(g.vox) IN
  /\ h.present
  /\ h.bo = boExp /\ h.nf = NumberFormat(t) /\ h.bpp = Bytes(t)
  \* write_basic_interfile_image_header: matrix size, scaling factors (mm/pixel), first pixel offset, x,y,z order
  /\ h.labels = "xyz" /\ h.msize = Rev3(g.size)
  /\ \A a \in 1..3 : QNear(h.vox[a], h.voxR[a], vx[a], IF K_DEC6 \in X THEN Dec6Tol(vx[a]) ELSE 0)
  \* the first pixel offset is either written, or left to the reader's documented default (origin 0 with the
  \* re-normalised index range), which is only right when that default IS the position of the first voxel
  /\ IF h.hasFpo THEN \A a \in 1..3 : QNear(h.fpo[a], h.fpoR[a], fpo[a], IF K_DEC6 \in X THEN Dec6Tol(fpo[a]) ELSE 0)
     ELSE fpo = Rev3([d \in 1..3 |-> ReadMin(g.size)[d] * g.vox[d]])
  \* the data file has exactly the length the header announces
  \* (known finding K_NEGUNS: shorter, if a refused data set belongs to this file)
  /\ \/ h.dlen = dsPerFile * nv * h.bpp
     \/ /\ K_NEGUNS \in X /\ h.dlen < dsPerFile * nv * h.bpp
        /\ IF img.fmt = "Multi" THEN NegSet(img.m[hi]) ELSE \E d \in 1..img.nd : NegSet(img.m[d])

\* Beyond the property (no reader of this tree uses it): the old-style ".ahv" convenience header that
\* write_basic_interfile_image_header writes next to every .hv header describes the same data file
AhvOK(h, t, g) ==
  LET a == h.ahv IN
  /\ a.present /\ a.nimg = g.size[1] /\ a.msize = << g.size[3], g.size[2] >>
  /\ QExact(a.vox[1], a.voxR[1], g.vox[3]) /\ QExact(a.vox[2], a.voxR[2], g.vox[2])
  /\ a.bpp = Bytes(t) /\ a.bo = h.bo
  /\ a.nf = (IF IsInt(t) THEN NumberFormat(t) ELSE IF Bytes(t) = 4 THEN "short float" ELSE "long float")

\* the exam-information keys of a header are those the documented writer emits (ExamToHeader); with the Multi format
\* the header of frame hi carries that frame only
HdrExamOK(h, hi, X) ==
  LET ex == ExamOf(img.exam)
      exh == IF img.fmt = "Multi" /\ img.kind = "dyn" THEN [ex EXCEPT !.frames = << ex.frames[hi] >>] ELSE ex
      e == ExamToHeader(exh) IN
  /\ h.mod = e.mod /\ h.typeOfData = e.typeOfData /\ h.orient = e.orient
  /\ \/ h.rot = e.rot
     \/ K_ROT \in X /\ e.rot \in { "right", "left" } /\ h.rot = "other"      \* known finding
  /\ h.nframes = e.nframes /\ h.frames = e.frames
  /\ h.rn = e.rn /\ h.lo8 = e.lo8 /\ h.hi8 = e.hi8 /\ h.cal4 = e.cal4
  /\ \/ h.hlms = e.hlms /\ h.brppm = e.brppm
     \/ K_DEC6 \in X /\ Abs(h.hlms - e.hlms) <= Dec6Slack(e.hlms) /\ Abs(h.brppm - e.brppm) <= Dec6Slack(e.brppm)

\* named deviation ContainerNativeOrder: the Interfile formats for dynamic and parametric images
\* document that the byte order is fixed to the native one
BoExp(r) == IF img.kind = "single" \/ img.fmt = "Multi" THEN r.bo ELSE env.native
NumHdrs == IF img.fmt = "Multi" THEN img.nd ELSE 1
DsPerFile == IF img.fmt = "Multi" THEN 1 ELSE img.nd
W_status(r) == r.id = img.id /\ r.ok /\ ~r.err
W_format(r) == LET t == r.type IN
  /\ t \in Types /\ r.int = IsInt(t) /\ r.signed = IsSigned(t) /\ r.bytes = Bytes(t) /\ r.nf = NumberFormat(t)
  /\ r.boEff = BoExp(r) /\ r.nfEff = NumberFormat(t) /\ r.bytesEff = Bytes(t)
W_headers(r, X) ==
  /\ Len(r.hdrs) = NumHdrs
  /\ \A hi \in 1..NumHdrs : HeaderOK(r.hdrs[hi], hi, r, r.type, G(img.geo[1]), BoExp(r), DsPerFile, X)
\* data sets back to back (K_NEGUNS: a data set after a refused one starts earlier, where the writer actually was)
W_layout(r, X) ==
  /\ Len(r.ds) >= img.nd /\ (img.kind # "single" => Len(r.ds) = img.nd)
  /\ \A d \in 1..img.nd :
       LET expected == IF img.fmt = "Multi" THEN 0 ELSE (d - 1) * NumVox(G(img.geo[1])) * Bytes(r.type) IN
       \/ r.ds[d].off = expected
       \/ K_NEGUNS \in X /\ r.ds[d].off >= 0 /\ r.ds[d].off < expected /\ \E dd \in 1..(d - 1) : NegSet(img.m[dd])
\* (K_NEGUNS: the content of a refused data set is not examined; the others are)
W_data(r, X) == \A d \in 1..img.nd :
  \/ K_NEGUNS \in X /\ NegSet(img.m[d])
  \/ DataSetOK(r.type, img.m[d], img.vexp, img.k, r.ds[d], img.bits[d], X)
W_userscale(r, X) == \A d \in 1..img.nd : UserScaleOK(r, r.type, img.m[d], img.vexp, r.ds[d], X)
W_exam(r, X) == Len(r.hdrs) = NumHdrs /\ \A hi \in 1..NumHdrs : HdrExamOK(r.hdrs[hi], hi, X)
W_ahv(r) == Len(r.hdrs) = NumHdrs /\ \A hi \in 1..NumHdrs : AhvOK(r.hdrs[hi], r.type, G(img.geo[1]))
WriteOK(r, X) == W_status(r) /\ W_format(r) /\ W_headers(r, X) /\ W_layout(r, X) /\ W_data(r, X) /\ W_userscale(r, X) /\ W_exam(r, X) /\ W_ahv(r)

(* ----------------------------------------------------------------- Read *)
\* The property demands the positions, not a particular index convention: the documented re-normalisation of the
\* index range to (0, -(y/2), -(x/2)) with the origin recomputed from the first pixel offset (ReadGeom) is what
\* MC_ImageIO proves position-preserving; a recorded image is accepted with any minimum index as long as every
\* voxel (same offset from the minimum index) keeps its position and the image is coherent with its own geometry.
GeomReadOK(gw, gr, X) ==
  LET g0 == G(gw) g2 == G(gr) fpo == FirstPixelOffset(g0)
      extra == [a \in 1..3 |-> IF K_DEC6 \in X THEN Dec6Tol(fpo[a]) ELSE 0] IN
  /\ gr.size = g0.size
  /\ \A a \in 1..3 : QExact(gr.vox[a], gr.voxR[a], g0.vox[a])
  \* "preserves, for every voxel, its physical position": same offset from the minimum index <-> same position
  /\ Len(gr.pos) = Len(gw.pos)
  /\ \A j \in 1..Len(gw.pos) :
       /\ \A a \in 1..3 : gr.pos[j][a] = gw.pos[j][a]
       /\ \A a \in 4..6 : QNear(gr.pos[j][a], gr.pos[j][a + 3], gw.pos[j][a], extra[a - 3])
       \* coherence of the image read: reported position = its origin + index * voxel size
       /\ LET row == gr.pos[j] p == Pos(g2, << g2.min[1] + row[1], g2.min[2] + row[2], g2.min[3] + row[3] >>) IN
          \A a \in 1..3 : row[3 + a] = p[a] /\ Abs(row[6 + a] - gr.orgR[a]) <= ResTol(p[a])

ValuesReadOK(t, m, k, e, ds, vals, rbits, wbits, X) ==
  LET nv == Len(m) signed == IsSigned(t)
      exact == ExactStep(ds.sm, ds.se, e, k)
      S == IF exact THEN P2(ds.se - e + k) ELSE ds.S IN
  /\ Len(vals) = nv
  /\ \/ K_UFLOW \in X /\ ScaleUnderflows(t, m, e) /\ \A i \in 1..nv : vals[i] = 0        \* known finding: zeros
     \/ IF ~IsInt(t)
        THEN \* "exactly for floating-point output"
             \/ (\A i \in 1..nv : vals[i] = m[i] * P2(k)) /\ rbits = wbits
             \/ K_DEC6 \in X /\ ds.sm # 1 /\ \A i \in 1..nv : Abs(vals[i] - m[i] * P2(k)) <= Dec6Slack(m[i] * P2(k))
        ELSE \A i \in 1..nv :
               LET w == UnsignedTruncation(m[i], signed) * P2(k) IN
               \/ K_ROUNDINT \in X /\ ds.sm > 0 /\ ~FitsInt(m[i], e, ds.sm, ds.se)
               \/ \* "within half a quantisation step for scaled integer output"
                  /\ \/ WithinHalfStep(vals[i], w, S, exact)
                     \/ K_DEC6 \in X /\ ~exact /\ Abs(vals[i] - w) <= HalfStep(S) + Dec6Slack(w)
                  \* what STIR reads is what the file defines (own decoder), up to single-precision rounding
                  /\ (Len(ds.dec) = nv => IF exact THEN vals[i] = ds.dec[i] ELSE Abs(vals[i] - ds.dec[i]) <= FloatSlack(ds.dec[i]))

\* "The exam information that the format stores ... survives the round trip."
ExamExpected == ExamStored(ExamOf(img.exam), env)
R_status(r) == r.id = img.id /\ r.ok /\ ~r.err
R_shape(r) == r.nd = img.nd /\ Len(r.geo) = img.nd /\ Len(r.vals) = img.nd /\ Len(r.bits) = img.nd /\ Len(r.ftf) = img.nd
R_geom(r, X) == \A d \in 1..img.nd : GeomReadOK(img.geo[d], r.geo[d], X)
\* known finding K_NMOFF: every data set after the first is read from offset 0, i.e. shows the data of the first
\* (decided exactly when both have the same scale factor, not examined otherwise)
NmOffRead(r, d) ==
  LET d1 == wr.ds[1] dd == wr.ds[d] IN
  /\ Len(r.vals[d]) = Len(img.m[d])
  /\ (dd.sm = d1.sm /\ dd.se = d1.se /\ Len(d1.dec) = Len(r.vals[d])) =>
        \A i \in 1..Len(r.vals[d]) : Abs(r.vals[d][i] - d1.dec[i]) <= FloatSlack(d1.dec[i])
\* (K_NEGUNS: a container whose data file lacks a data set can still be read, with a later data set in the place of
\* the refused one: the values of the refused data set are not examined, those of the others are)
R_values(r, X) == \A d \in 1..img.nd :
  \/ K_NEGUNS \in X /\ NegSet(img.m[d]) /\ Len(r.vals[d]) = Len(img.m[d])
  \/ IF K_NMOFF \in X /\ d >= 2 THEN NmOffRead(r, d)
     ELSE ValuesReadOK(wr.type, img.m[d], img.k, img.vexp, wr.ds[d], r.vals[d], r.bits[d], img.bits[d], X)
\* container semantics: frame d of a dynamic image (get_density(d)) carries exactly time frame d of the container,
\* a parameter image / a single image carries the frames of the exam information
R_frames(r) == \A d \in 1..img.nd :
  r.ftf[d].f = (IF img.kind = "dyn" THEN << ExamExpected.frames[d] >> ELSE ExamExpected.frames)
R_exam(r, X) == \/ ExamOf(r.exam) = ExamExpected
                \* known finding: rotation right / left read back as other
                \/ K_ROT \in X /\ ExamExpected.rot \in { 2, 3 } /\ ExamOf(r.exam) = [ExamExpected EXCEPT !.rot = 4]
ReadOK(r, X) ==
  \/ K_NEGUNS \in X /\ r.id = img.id /\ ~r.ok /\ r.err       \* known finding: the short file is (rightly) refused
  \/ R_status(r) /\ R_shape(r) /\ R_geom(r, X) /\ R_values(r, X) /\ R_exam(r, X) /\ R_frames(r)

(* ---------------------------------------------------------------- Trunc *)
\* "A data file shorter than its header announces is reported as an error rather than returned as an image."
TruncOK(r, X) ==
  \* (r.file: which of the data files was cut - with the Multi format the first or the last individual one)
  /\ r.id = img.id /\ r.file >= 1 /\ r.file <= Len(wr.hdrs) /\ r.full = wr.hdrs[r.file].dlen /\ r.len >= 0 /\ r.len <= r.full
  /\ (r.len < r.full => \/ ~r.accepted
                        \* known finding: only the first data set is ever read
                        \/ K_NMOFF \in X /\ r.len >= r.full \div img.nd)
  /\ (r.len = r.full => r.accepted)

Explains(r, X) ==
  CASE r.e = "Env" -> r.native \in { "LITTLEENDIAN", "BIGENDIAN" }
    [] r.e = "Img" -> ImgOK(r)
    [] r.e = "Write" -> img # None /\ WriteOK(r, X)
    [] r.e = "Read" -> img # None /\ wr # None /\ wr.id = img.id /\ ReadOK(r, X)
    [] r.e = "Trunc" -> img # None /\ wr # None /\ wr.id = img.id /\ TruncOK(r, X)
    [] OTHER -> FALSE

(* ------------------------------------------------- known findings (signatures) *)
\* The configuration class of each known finding (the signature recorded in known_findings.jsonl).
WType(r) == IF r.e = "Write" THEN r.type ELSE wr.type
WScaleM(r) == IF r.e = "Write" THEN r.scaleM ELSE wr.scaleM
WDs(r) == IF r.e = "Write" THEN r.ds ELSE wr.ds
Sig(f, r) ==
  /\ r.e \in { "Write", "Read", "Trunc" } /\ img # None /\ (r.e # "Write" => wr # None /\ wr.id = img.id)
  /\ (r.e = "Trunc" => f = K_NMOFF)
  /\ CASE f = K_ROUNDINT ->      \* a type wider than int, and a voxel more than 2^31 steps from zero
            /\ WType(r) \in { "UINT", "LONG", "ULONG" }
            /\ \E d \in 1..img.nd : d <= Len(WDs(r)) /\ WDs(r)[d].sm > 0
                                    /\ ~FitsInt(Mabs(img.m[d]), img.vexp, WDs(r)[d].sm, WDs(r)[d].se)
       [] f = K_UFLOW ->         \* scale_to_write_data = 0 and max|v| * 1.01 / TypeMax < 2^-150 (always for DOUBLE)
            WScaleM(r) = 0 /\ \E d \in 1..img.nd : ScaleUnderflows(WType(r), img.m[d], img.vexp)
       [] f = K_NEGUNS ->        \* unsigned type, automatic scale, a data set without positive values but with negative ones
            /\ WType(r) \in { "UCHAR", "USHORT", "UINT", "ULONG" } /\ WScaleM(r) = 0
            /\ \E d \in 1..img.nd : NegSet(img.m[d])
       [] f = K_ROT -> img.exam.rot \in { 2, 3 }                        \* patient rotation right / left
       [] f = K_NMOFF ->         \* modality NM, dynamic or parametric image in one Interfile file, more than one data set
            r.e \in { "Read", "Trunc" } /\ img.exam.mod = "NM" /\ img.kind # "single" /\ img.fmt = "Interfile" /\ img.nd >= 2
       [] f = K_DEC6 ->          \* a header number that needs more than 6 significant digits
            \/ \E a \in 1..3 : ~Dec6Exact(FirstPixelOffset(G(img.geo[1]))[a])
            \/ \E d \in 1..img.nd : d <= Len(WDs(r)) /\ WDs(r)[d].sm \notin { 0, 1 }
            \/ r.e = "Write" /\ img.exam.hlms > 0
       [] OTHER -> FALSE

\* findings whose signature matches the line; if the line is explained with all of them switched on, those
\* that cannot be switched off again are reported (each is necessary); otherwise the line is "new"
Applicable(r) == { f \in Findings : Sig(f, r) }
\* (all relaxations are disjuncts, so Explains is monotone in X; when several findings are each sufficient
\* alone, one smallest explaining subset is reported)
Needed(r) == LET A == Applicable(r) IN
             IF A = { } \/ ~Explains(r, A) THEN { "new" }
             ELSE LET N == { f \in A : ~Explains(r, A \ { f }) } IN
                  IF N # { } THEN N
                  ELSE CHOOSE Y \in SUBSET A : Explains(r, Y) /\ \A Z \in SUBSET A : Explains(r, Z) => Cardinality(Z) >= Cardinality(Y)

\* first clause that an unexplained line fails with the relaxations X switched on (diagnosis only; printed
\* with the line number): for a "new" line X = all applicable findings, so the clause named is the one that no
\* known finding explains
WhyX(r, X) ==
  CASE r.e = "Write" /\ img # None ->
         (IF ~W_status(r) THEN "W_status" ELSE IF ~W_format(r) THEN "W_format" ELSE IF ~W_headers(r, X) THEN "W_headers"
          ELSE IF ~W_layout(r, X) THEN "W_layout" ELSE IF ~W_data(r, X) THEN "W_data" ELSE IF ~W_userscale(r, X) THEN "W_userscale" ELSE IF ~W_exam(r, X) THEN "W_exam" ELSE "W_ahv")
    [] r.e = "Read" /\ img # None /\ wr # None ->
         (IF ~R_status(r) THEN "R_status" ELSE IF ~R_shape(r) THEN "R_shape" ELSE IF ~R_geom(r, X) THEN "R_geom"
          ELSE IF ~R_values(r, X) THEN "R_values" ELSE IF ~R_exam(r, X) THEN "R_exam" ELSE "R_frames")
    [] OTHER -> r.e
Why(r, N) == IF N = { "new" } THEN WhyX(r, Applicable(r)) ELSE WhyX(r, { })

Count(cls) == Len(SelectSeq(bad, LAMBDA x : x[2] = cls))
Init == l = 1 /\ env = None /\ img = None /\ wr = None /\ bad = << >>
Next == /\ l <= Len(TraceLog)
        /\ LET r == TraceLog[l] IN
           /\ env' = IF r.e = "Env" THEN EnvOf(r) ELSE env
           /\ img' = IF r.e = "Img" THEN r ELSE img
           /\ wr' = IF r.e = "Write" THEN r ELSE IF r.e = "Img" THEN None ELSE wr
           /\ IF Explains(r, { }) THEN bad' = bad
              ELSE LET N == Needed(r) why == Why(r, N)
                       \* new unexplained lines are all kept (cap 500); of a known class only the first 30 witnesses
                       add == SetToSeq({ f \in N : Count(f) < (IF f = "new" THEN 500 ELSE 30) }) IN
                   bad' = bad \o [i \in 1..Len(add) |-> << l, add[i], why >>]
        /\ l' = l + 1
Spec == Init /\ [][Next]_<< l, env, img, wr, bad >>

Done == l > Len(TraceLog) => (bad = << >> \/ PrintT(<< "UNEXPLAINED", bad >>))
Consumed == IF TLCGet("stats").diameter - 1 = Len(TraceLog) THEN TRUE
            ELSE PrintT(<< "REJECTED_AT", TLCGet("stats").diameter >>) /\ FALSE
=============================================================================
