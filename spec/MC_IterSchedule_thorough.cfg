SPECIFICATION Spec
CONSTANTS MaxN = 5 Iters = 3
INVARIANTS InvNoRepeat InvOncePerIteration InvNoCrash InvHistLegal InvHistPrefix
VIEW View
CHECK_DEADLOCK FALSE
