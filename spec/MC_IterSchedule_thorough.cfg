SPECIFICATION Spec
CONSTANTS MaxN = 5 Iters = 4
INVARIANTS InvNoRepeat InvOncePerIteration InvNoCrash InvHistLegal InvHistPrefix
VIEW View
CHECK_DEADLOCK FALSE
