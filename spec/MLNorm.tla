------------------------------- MODULE MLNorm -------------------------------
(***************************************************************************)
(* C20 - component-based normalisation (stir/ML_norm.h).                   *)
(*                                                                         *)
(* Part 1: the detector-pair ("fan") representation of uncompressed        *)
(* projection data: which bin a fan entry <<ra,a,rb,b>> holds (via the     *)
(* detector pair that Geometry.tla assigns to the bin), removal/insertion  *)
(* of the virtual crystals ("gaps"), size of the fan data after gap        *)
(* removal.                                                                *)
(* Part 2: applying efficiencies / geometric factors / block factors to    *)
(* fan data, and undoing it.                                               *)
(* Part 3: the maximum-likelihood updates: fan sums, the efficiency update *)
(* as a relation, the fixed-point theorems on exact product-model data,    *)
(* the Kullback-Leibler distance that the efficiency update descends.      *)
(*                                                                         *)
(* Numbers are encoded exactly (encoding E): a value is a pair (m, e)      *)
(* meaning m * 2^e with m odd, or (0, 0) for zero.  A valued array is a    *)
(* record [m |-> sequence, e |-> sequence].                                *)
(*                                                                         *)
(* A configuration g is a record                                           *)
(*   N, R       detectors per ring, rings (virtual crystals included)      *)
(*   pbT, vT    transaxial crystals per block (virtual included), virtual  *)
(*   pbA, vA    axial crystals per block (virtual included), virtual       *)
(*   maxSeg     largest segment = maximum ring difference (span 1)         *)
(*   minTang, maxTang  tangential range of the projection data             *)
(***************************************************************************)
EXTENDS Geometry

\* the data geometry as a Geometry.tla configuration: uncompressed (span 1), unmashed, non-TOF
GeomOf(g) == [N |-> g.N, R |-> g.R, span |-> 1, ge |-> FALSE, maxDelta |-> g.maxSeg, mash |-> 1, tofMash |-> 0,
              maxT |-> 1, minTang |-> g.minTang, maxTang |-> g.maxTang, minSeg |-> -g.maxSeg, maxSeg |-> g.maxSeg]

(* ------------------------- blocks and gaps ----------------------------- *)
NbT(g) == g.N \div g.pbT                       \* transaxial blocks
NbA(g) == (g.R + g.vA) \div g.pbA              \* axial blocks (no virtual ring after the last block)
PhT(g) == g.pbT - g.vT                         \* physical crystals per block
PhA(g) == g.pbA - g.vA
NPhys(g) == g.N - NbT(g) * g.vT                \* physical detectors per ring
RPhys(g) == g.R - (NbA(g) - 1) * g.vA          \* physical rings

\* "a -> a - (a div perBlock) * virtual, skipped when a mod perBlock >= physical"
IsGapT(g, a) == a % g.pbT >= PhT(g)
IsGapA(g, r) == r % g.pbA >= PhA(g)
RemT(g, a) == a - (a \div g.pbT) * g.vT
RemA(g, r) == r - (r \div g.pbA) * g.vA
\* insertion of the gaps: the inverse on physical crystals (theorem M0)
InsT(g, a) == a + (a \div PhT(g)) * g.vT
InsA(g, r) == r + (r \div PhA(g)) * g.vA
\* a detector pair is written <<ra, a, rb, b>> (ring and detector of the first, of the second crystal)
IsGapPair(g, p) == IsGapA(g, p[1]) \/ IsGapT(g, p[2]) \/ IsGapA(g, p[3]) \/ IsGapT(g, p[4])
RemGaps(g, p) == << RemA(g, p[1]), RemT(g, p[2]), RemA(g, p[3]), RemT(g, p[4]) >>
InsGaps(g, c) == << InsA(g, c[1]), InsT(g, c[2]), InsA(g, c[3]), InsT(g, c[4]) >>
SwapCell(c) == << c[3], c[4], c[1], c[2] >>     \* the same detector pair, crystals exchanged

(* ------------------------ size of the fan data ------------------------- *)
\* the part of the data that is used: tangential positions -Hfs..Hfs, all segments
Hfs(g) == Min2(g.maxTang, -g.minTang)
FanSize(g) == 2 * Hfs(g) + 1
\* "fan size and max ring difference after gap removal": the same reduction applied to the sizes
NewFanSize(g) == FanSize(g) - (FanSize(g) \div g.pbT) * g.vT
NewHfs(g) == NewFanSize(g) \div 2
NewMaxDelta(g) == g.maxSeg - (g.maxSeg \div g.pbA) * g.vA

\* A fan geometry fg = [R, N, md, h]: rings, detectors per ring, max ring difference, half fan size
\* (the constructor arguments of FanProjData; fan size 2h+1).
FanGeomOf(g) == [R |-> RPhys(g), N |-> NPhys(g), md |-> NewMaxDelta(g), h |-> NewHfs(g)]
\* block data is fan data over blocks: all other blocks of all block rings
BlockGeomOf(g) == [R |-> NbA(g), N |-> NbT(g), md |-> NbA(g) - 1, h |-> (NbT(g) - 1) \div 2]
\* documented preconditions of FanProjData (its constructor asserts them)
LegalFanGeom(fg) == fg.R >= 1 /\ fg.N >= 2 /\ fg.N % 2 = 0 /\ fg.md >= 0 /\ fg.md < fg.R /\ fg.h >= 0 /\ 2 * fg.h + 1 < fg.N

LegalFanConfig(g) ==
  /\ g.minTang <= 0 /\ g.maxTang >= 0
  /\ LegalConfig(GeomOf(g))
  /\ g.pbT >= 1 /\ g.pbA >= 1 /\ g.vT >= 0 /\ g.vT < g.pbT /\ g.vA >= 0 /\ g.vA < g.pbA
  /\ g.N % g.pbT = 0 /\ (g.R + g.vA) % g.pbA = 0
  /\ LegalFanGeom(FanGeomOf(g))

\* entries ("cells") of fan data: the second crystal lies in the fan opposite the first one
MinRb(fg, ra) == Max2(ra - fg.md, 0)
MaxRb(fg, ra) == Min2(ra + fg.md, fg.R - 1)
NumRb(fg, ra) == MaxRb(fg, ra) - MinRb(fg, ra) + 1
FanW(fg) == 2 * fg.h + 1
\* position of b in the fan of a: -h..h inside, larger outside
KOf(fg, a, b) == ((b - a - fg.N \div 2 + fg.h) % fg.N) - fg.h
IsCell(fg, c) ==
  /\ c[1] \in 0..(fg.R - 1) /\ c[3] \in MinRb(fg, c[1])..MaxRb(fg, c[1])
  /\ c[2] \in 0..(fg.N - 1) /\ c[4] \in 0..(fg.N - 1)
  /\ KOf(fg, c[2], c[4]) <= fg.h
\* canonical order of the cells (the order in which the driver logs fan data):
\* ra, a, rb = MinRb..MaxRb, position in the fan = -h..h
CellsOfRa(fg, ra) ==
  LET nrb == NumRb(fg, ra)  w == FanW(fg) IN
  [ i \in 1..(fg.N * nrb * w) |->
      LET j == i - 1  a == j \div (nrb * w) IN
      << ra, a, MinRb(fg, ra) + ((j \div w) % nrb), (a + fg.N \div 2 + (j % w) - fg.h) % fg.N >> ]
RECURSIVE CellSeqUpTo(_, _)
CellSeqUpTo(fg, ra) == IF ra < 0 THEN << >> ELSE CellSeqUpTo(fg, ra - 1) \o CellsOfRa(fg, ra)
CellSeq(fg) == CellSeqUpTo(fg, fg.R - 1)
\* offsets of the rings in that order
RECURSIVE RaOffUpTo(_, _)
RaOffUpTo(fg, ra) == IF ra <= 0 THEN 0 ELSE RaOffUpTo(fg, ra - 1) + fg.N * NumRb(fg, ra - 1) * FanW(fg)
RaOff(fg) == [ ra \in 0..(fg.R - 1) |-> RaOffUpTo(fg, ra) ]
CellIndex(fg, raOff, c) ==
  raOff[c[1]] + (c[2] * NumRb(fg, c[1]) + (c[3] - MinRb(fg, c[1]))) * FanW(fg) + KOf(fg, c[2], c[4]) + fg.h + 1

(* ----------------------- bins <-> fan entries -------------------------- *)
NTang(g) == g.maxTang - g.minTang + 1
NAx(g, s) == g.R - Abs(s)
NumBinsOfSeg(g, s) == NAx(g, s) * (g.N \div 2) * NTang(g)
RECURSIVE SegOffUpTo(_, _)
SegOffUpTo(g, s) == IF s <= -g.maxSeg THEN 0 ELSE SegOffUpTo(g, s - 1) + NumBinsOfSeg(g, s - 1)
SegOff(g) == [ s \in (-g.maxSeg)..g.maxSeg |-> SegOffUpTo(g, s) ]
NumBins(g) == SegOffUpTo(g, g.maxSeg + 1)
\* canonical order of the bins (the order in which the driver logs projection data):
\* segment, axial position, view, tangential position
BinIndex(g, segOff, b) == segOff[b.seg] + (b.ax * (g.N \div 2) + b.view) * NTang(g) + (b.tang - g.minTang) + 1
BinsOfSeg(g, s) ==
  [ i \in 1..NumBinsOfSeg(g, s) |->
      LET j == i - 1  nt == NTang(g)  nv == g.N \div 2 IN
      Bin(s, j \div (nv * nt), (j \div nt) % nv, g.minTang + (j % nt), 0) ]
RECURSIVE BinSeqUpTo(_, _)
BinSeqUpTo(g, s) == IF s < -g.maxSeg THEN << >> ELSE BinSeqUpTo(g, s - 1) \o BinsOfSeg(g, s)
BinSeq(g) == BinSeqUpTo(g, g.maxSeg)
UsedBin(g, b) == Abs(b.tang) <= Hfs(g)

\* "FanOf(bin) = <<ra,a,rb,b>> via the detector pair of the bin": Geometry's pair of the bin -
\* the documented interleaving VT2D in the plane, the single ring pair of the (segment, axial
\* position) of uncompressed data
PairOfBin(g, b) ==
  LET c == GeomOf(g)
      d == VT2D(c.N, b.view, b.tang)
      rp == CHOOSE x \in RingPairsFast(c, b.seg, b.ax) : TRUE
  IN << rp[1], d[1], rp[2], d[2] >>
\* the fan entry of a bin (only for bins whose pair has no virtual crystal)
CellOfBin(g, b) == RemGaps(g, PairOfBin(g, b))

\* closed form of the in-plane coordinates of an ORDERED detector pair (theorem M1: it satisfies
\* Geometry's IsInPlaneOf, and by Geometry's T1 the coordinates are unique)
InPlaneFast(N, a, b) ==
  LET t1 == N \div 2 - ((b - a) % N)
      v1 == (a - (t1 \div 2)) % N
  IN IF v1 < N \div 2 THEN [v |-> v1, tp |-> t1, same |-> TRUE]
     ELSE [v |-> (b - ((-t1) \div 2)) % N, tp |-> -t1, same |-> FALSE]
\* the bin that holds the value of fan entry c: "each entry is the value of the bin that the
\* geometry assigns to that detector pair" (NoBin: no used bin of the data)
BinOfCell(g, c) ==
  LET p == InsGaps(g, c)
      x == InPlaneFast(g.N, p[2], p[4])
      b == BinGiven(GeomOf(g), << p[2], p[1], p[4], p[3], 0 >>, x.v, x.tp, x.same)
  IN IF b = NoBin THEN NoBin ELSE IF UsedBin(g, b) THEN b ELSE NoBin

\* the same without removal of the gaps (fan sums straight from projection data): every crystal,
\* virtual ones included
NoGaps(g) == [g EXCEPT !.vT = 0, !.vA = 0]
FullFanGeomOf(g) == [R |-> g.R, N |-> g.N, md |-> g.maxSeg, h |-> Hfs(g)]

(* ------- the 2D interface: the detector pairs of one sinogram pair ------ *)
\* DetPairData of (segment s >= 0, axial position ax) is fan data of a single "ring": entry <<a, b>>,
\* b in the fan of a of half size H2 (all tangential positions of the data), holds the value of the
\* bin of the ORDERED crystal pair "a in the first, b in the second ring of the ring pair of (s, ax)":
\* a bin of segment s when the interleaving lists the pair as <<a, b>>, of segment -s otherwise.
H2(g) == Max2(g.maxTang, -g.minTang)
DetPairGeomOf(g) == [R |-> 1, N |-> g.N, md |-> 0, h |-> H2(g)]
DetPairBin(g, s, ax, a, b) ==
  LET c == GeomOf(g)
      rp == CHOOSE x \in RingPairsFast(c, s, ax) : TRUE
      y == InPlaneFast(g.N, a, b)
      bin == BinGiven(c, << a, rp[1], b, rp[2], 0 >>, y.v, y.tp, y.same)
  IN IF ~IsInPlaneOf(c, a, b, y.v, y.tp, y.same) THEN [seg |-> 9998]     \* (cannot happen: theorem M1)
     ELSE IF bin # NoBin /\ InTangRange(c, bin) THEN bin ELSE NoBin
DetPairEntryIndex(g, a, b) == a * (2 * H2(g) + 1) + KOf(DetPairGeomOf(g), a, b) + H2(g) + 1

(* --------------------------- exact numbers ----------------------------- *)
Zero == << 0, 0 >>
ValAt(V, i) == << V.m[i], V.e[i] >>
MkV(f, n) == [m |-> [i \in 1..n |-> f[i][1]], e |-> [i \in 1..n |-> f[i][2]]]
\* multiply by 2^x / by another value (odd * odd is odd: no normalisation needed)
Shift(v, x) == IF v[1] = 0 THEN Zero ELSE << v[1], v[2] + x >>
Times(v, w) == IF v[1] = 0 \/ w[1] = 0 THEN Zero ELSE << v[1] * w[1], v[2] + w[2] >>
\* v = w * q  (q is the exact quotient v / w)
IsQuotient(q, v, w) == w[1] # 0 /\ Times(w, q) = v
\* exact sum of the values F(lo), ..., F(hi) as a pair <<integer, exponent of the unit>> (a value
\* is such a pair; divide and conquer keeps the recursion shallow)
AddS(s, t) == IF s[1] = 0 THEN t ELSE IF t[1] = 0 THEN s
              ELSE IF s[2] <= t[2] THEN << s[1] + t[1] * 2^(t[2] - s[2]), s[2] >>
              ELSE << s[1] * 2^(s[2] - t[2]) + t[1], t[2] >>
RECURSIVE SumF(_, _, _)
SumF(F(_), lo, hi) ==
  IF lo > hi THEN << 0, 0 >>
  ELSE IF lo = hi THEN F(lo)
  ELSE LET mid == (lo + hi) \div 2 IN AddS(SumF(F, lo, mid), SumF(F, mid + 1, hi))
SumVals(V, lo, hi) == SumF(LAMBDA i : << V.m[i], V.e[i] >>, lo, hi)
\* the value v equals the scaled sum s = <<integer, unit exponent>>
EqualsSum(v, s) == IF s[1] = 0 THEN v[1] = 0
                   ELSE v[1] # 0 /\ (IF v[2] >= s[2] THEN v[1] * 2^(v[2] - s[2]) = s[1] ELSE s[1] * 2^(s[2] - v[2]) = v[1])

(* ------------------- part 2: applying the components ------------------- *)
\* efficiencies: x[ring * N + detector + 1] is the exponent of the efficiency of a crystal.
\* "Applying efficiencies multiplies each detector-pair entry by the product of the factors of its
\* two detectors"; sgn = -1: un-applying.  Zero entries stay zero.
EffIdx(fg, r, d) == r * fg.N + d + 1
ApplyEffAt(fg, cells, F, x, sgn, i) ==
  Shift(ValAt(F, i), sgn * (x[EffIdx(fg, cells[i][1], cells[i][2])] + x[EffIdx(fg, cells[i][3], cells[i][4])]))
ApplyEffS(fg, cells, F, x, sgn) == MkV([ i \in 1..Len(cells) |-> ApplyEffAt(fg, cells, F, x, sgn, i) ], Len(cells))

\* geometric classes.  Geometric factors are stored once per class representative ("slot"):
\* first crystal in the first axial block (ring < PA) and in the first half of the first transaxial
\* block (detector < PT/2), second crystal any ring >= the first one and any detector.
\* gp = [PA, PT]: axial and transaxial period (crystals per block after gap removal).
LegalGeo(fg, gp) == gp.PA >= 1 /\ gp.PT >= 2 /\ gp.PT % 2 = 0 /\ fg.R % gp.PA = 0 /\ fg.N % gp.PT = 0
IsSlot(fg, gp, s) == /\ s[1] \in 0..(gp.PA - 1) /\ s[2] \in 0..(gp.PT \div 2 - 1)
                     /\ s[3] \in s[1]..(fg.R - 1) /\ s[4] \in 0..(fg.N - 1)
\* canonical order of the slots: ra, a, rb = ra..R-1, b = a, a+1, ... (mod N)
NumSlotsOfRa(fg, gp, ra) == (gp.PT \div 2) * (fg.R - ra) * fg.N
RECURSIVE SlotOffUpTo(_, _, _)
SlotOffUpTo(fg, gp, ra) == IF ra <= 0 THEN 0 ELSE SlotOffUpTo(fg, gp, ra - 1) + NumSlotsOfRa(fg, gp, ra - 1)
SlotOff(fg, gp) == [ ra \in 0..(gp.PA - 1) |-> SlotOffUpTo(fg, gp, ra) ]
NumSlots(fg, gp) == SlotOffUpTo(fg, gp, gp.PA)
SlotIndex(fg, gp, slotOff, s) == slotOff[s[1]] + (s[2] * (fg.R - s[1]) + (s[3] - s[1])) * fg.N + ((s[4] - s[2]) % fg.N) + 1
SlotsOfRa(fg, gp, ra) ==
  [ i \in 1..NumSlotsOfRa(fg, gp, ra) |->
      LET j == i - 1  nrb == fg.R - ra  a == j \div (nrb * fg.N) IN
      << ra, a, ra + ((j \div fg.N) % nrb), (a + (j % fg.N)) % fg.N >> ]
RECURSIVE SlotSeqUpTo(_, _, _)
SlotSeqUpTo(fg, gp, ra) == IF ra < 0 THEN << >> ELSE SlotSeqUpTo(fg, gp, ra - 1) \o SlotsOfRa(fg, gp, ra)
SlotSeq(fg, gp) == SlotSeqUpTo(fg, gp, gp.PA - 1)
\* the symmetries of a scanner made of identical blocks: rotation by whole transaxial blocks,
\* translation by whole axial blocks, the transaxial and the axial mirror, exchange of the two
\* crystals of the pair.  Two detector pairs have the same geometric factor when one is the image
\* of the other.
Img(fg, gp, c, jA, jT, mt, ma, sw) ==
  LET c1 == << c[1] + jA * gp.PA, (c[2] + jT * gp.PT) % fg.N, c[3] + jA * gp.PA, (c[4] + jT * gp.PT) % fg.N >>
      c2 == IF mt THEN << c1[1], fg.N - 1 - c1[2], c1[3], fg.N - 1 - c1[4] >> ELSE c1
      c3 == IF ma THEN << fg.R - 1 - c2[1], c2[2], fg.R - 1 - c2[3], c2[4] >> ELSE c2
  IN IF sw THEN SwapCell(c3) ELSE c3
ClassOf(fg, gp, c) ==
  { Img(fg, gp, c, jA, jT, mt, ma, sw) :
      jA \in (-(fg.R \div gp.PA) + 1)..(fg.R \div gp.PA - 1), jT \in 0..(fg.N \div gp.PT - 1), mt \in BOOLEAN, ma \in BOOLEAN, sw \in BOOLEAN }
\* the slots that represent the class of c (their indices)
SlotsOfCell(fg, gp, slotOff, c) ==
  { SlotIndex(fg, gp, slotOff, s) : s \in { x \in ClassOf(fg, gp, c) : IsSlot(fg, gp, x) } }
\* the cells (indices) of the class of slot s
CellsOfSlot(fg, gp, raOff, s) ==
  { CellIndex(fg, raOff, c) : c \in { x \in ClassOf(fg, gp, s) : IsCell(fg, x) } }
\* "Applying ... geometric factors multiplies each detector-pair entry by the factor of its geometric
\* class": the factor of SOME slot of the class (when all slots of a class carry the same factor the
\* result is determined).  G: valued array over the slots; slotsOf[i]: slots of cell i.
ApplyGeoOk(F, G, slotsOf, out, apply) ==
  \A i \in 1..Len(F.m) :
     IF F.m[i] = 0 THEN ValAt(out, i) = Zero
     ELSE \E s \in slotsOf[i] :
            IF apply THEN ValAt(out, i) = Times(ValAt(F, i), ValAt(G, s))
            ELSE IsQuotient(ValAt(out, i), ValAt(F, i), ValAt(G, s))
\* G is constant on classes (as far as they contain fan entries)
ClassConsistent(G, slotsOf) == \A i \in 1..Len(slotsOf) : \A s, t \in slotsOf[i] : ValAt(G, s) = ValAt(G, t)
ApplyGeoAt(F, G, slotsOf, i) == IF slotsOf[i] = {} THEN Zero ELSE Times(ValAt(F, i), ValAt(G, CHOOSE s \in slotsOf[i] : TRUE))
ApplyGeoS(F, G, slotsOf) == MkV([ i \in 1..Len(F.m) |-> ApplyGeoAt(F, G, slotsOf, i) ], Len(F.m))

\* block factors: block data is fan data over the blocks; the block pair of an entry
BlockOfCell(g, c) == << c[1] \div PhA(g), c[2] \div PhT(g), c[3] \div PhA(g), c[4] \div PhT(g) >>
\* every entry of the fan data has its block pair in the block data (the fan contains no pair of
\* crystals of the same block, ...): precondition of apply_block_norm
BlockLegal(g) == LET fg == FanGeomOf(g)  bg == BlockGeomOf(g) IN
                 /\ LegalFanGeom(bg)
                 /\ \A a, b \in 0..(fg.N - 1) : KOf(fg, a, b) <= fg.h => KOf(bg, a \div PhT(g), b \div PhT(g)) <= bg.h
\* "multiplies each detector-pair entry by the factor of its block pair": block data stores the block
\* pair <<A,a,B,b>> and <<B,b,A,a>> in the same place unless A = B: either entry is the factor of the pair
ApplyBlockOk(g, cells, blkOff, F, B, out, apply) ==
  LET bg == BlockGeomOf(g) IN
  \A i \in 1..Len(cells) :
     IF F.m[i] = 0 THEN ValAt(out, i) = Zero
     ELSE IF ~IsCell(bg, BlockOfCell(g, cells[i])) THEN ValAt(out, i) = ValAt(F, i)    \* no factor stored for this block pair: nothing to apply
     ELSE \E l \in { BlockOfCell(g, cells[i]), SwapCell(BlockOfCell(g, cells[i])) } :
            LET w == ValAt(B, CellIndex(bg, blkOff, l)) IN
            IF apply THEN ValAt(out, i) = Times(ValAt(F, i), w) ELSE IsQuotient(ValAt(out, i), ValAt(F, i), w)
BlockSymmetric(bcells, blkOff, bg, B) == \A i \in 1..Len(bcells) : ValAt(B, i) = ValAt(B, CellIndex(bg, blkOff, SwapCell(bcells[i])))
ApplyBlockAt(g, cells, blkOff, F, B, i) == Times(ValAt(F, i), ValAt(B, CellIndex(BlockGeomOf(g), blkOff, BlockOfCell(g, cells[i]))))
ApplyBlockS(g, cells, blkOff, F, B) == MkV([ i \in 1..Len(cells) |-> ApplyBlockAt(g, cells, blkOff, F, B, i) ], Len(cells))

(* ----------------------- part 3: ML iterations ------------------------- *)
\* fan sums: for every crystal the sum over its fan (all entries <<ra,a,*,*>>, contiguous in the
\* canonical order)
FanLo(fg, raOff, ra, a) == raOff[ra] + a * NumRb(fg, ra) * FanW(fg) + 1
FanHi(fg, raOff, ra, a) == raOff[ra] + (a + 1) * NumRb(fg, ra) * FanW(fg)
\* Fat(i): the value of entry i
FanSumsOkF(fg, raOff, Fat(_), S) ==
  \A ra \in 0..(fg.R - 1) : \A a \in 0..(fg.N - 1) :
     EqualsSum(ValAt(S, EffIdx(fg, ra, a)), SumF(Fat, FanLo(fg, raOff, ra, a), FanHi(fg, raOff, ra, a)))
FanSumsOk(fg, raOff, F, S) == FanSumsOkF(fg, raOff, LAMBDA i : << F.m[i], F.e[i] >>, S)
\* the efficiency update (Hogg et al. 2001): crystal by crystal, in the order ring, detector,
\*    eff(ra,a) := fansum(ra,a) / sum_{(rb,b) in fan} eff(rb,b) * model(ra,a,rb,b)
\* with the efficiencies already updated for earlier crystals; 0 when the fan sum is 0.
\* As a relation on exact values (E: efficiencies are values, X their array):
\* n: position of the crystal being updated; crystals before n already carry their new value
Denominator(fg, cells, raOff, M, Xin, Xout, ra, a) ==
  LET n == EffIdx(fg, ra, a) IN
  SumF(LAMBDA i : LET k == EffIdx(fg, cells[i][3], cells[i][4]) IN
                  Times(<< M.m[i], M.e[i] >>, IF k < n THEN << Xout.m[k], Xout.e[k] >> ELSE << Xin.m[k], Xin.e[k] >>),
       FanLo(fg, raOff, ra, a), FanHi(fg, raOff, ra, a))
IsEffUpdate(fg, cells, raOff, M, S, Xin, Xout) ==
  \A ra \in 0..(fg.R - 1) : \A a \in 0..(fg.N - 1) :
     LET n == EffIdx(fg, ra, a) IN
     IF S.m[n] = 0 THEN ValAt(Xout, n) = Zero
     ELSE LET den == Denominator(fg, cells, raOff, M, Xin, Xout, ra, a) IN
          \* Xout[n] * den = S[n]
          den[1] # 0 /\ Xout.m[n] # 0 /\ EqualsSum(ValAt(S, n), << den[1] * Xout.m[n], den[2] + Xout.e[n] >>)
\* efficiencies given by exponents
EffOfExp(x) == [m |-> [k \in 1..Len(x) |-> 1], e |-> x]

\* Kullback-Leibler distance of symmetric fan data: every detector pair counts once.  In the
\* canonical order a pair with ra # rb appears twice (<<ra,a,rb,b>> and <<rb,b,ra,a>>: the same
\* stored value) and a pair with ra = rb twice as well (<<r,a,r,b>> and <<r,b,r,a>>: two stored
\* values, equal for symmetric data): one representative each
PairOnce(c) == c[1] < c[3] \/ (c[1] = c[3] /\ c[2] < c[4])
\* what KL(FanProjData, FanProjData) of the library sums: all stored values (rb >= ra)
Stored(c) == c[1] <= c[3]
RECURSIVE SumMasked(_, _, _, _)
SumMasked(k, w, lo, hi) ==
  IF lo > hi THEN 0
  ELSE IF lo = hi THEN (IF w[lo] THEN k[lo] ELSE 0)
  ELSE LET mid == (lo + hi) \div 2 IN SumMasked(k, w, lo, mid) + SumMasked(k, w, mid + 1, hi)
\* tolerances (units of 2^-fx): n terms rounded to the unit (n/2 each side) + single-precision
\* evaluation of the model (relative 2^-22 of terms below 2^4: n * 2^(fx-18))
KLTol(n, fx) == n + (n * 2^fx) \div 2^18 + 1
=============================================================================
