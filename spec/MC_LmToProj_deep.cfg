SPECIFICATION Spec
CONSTANTS
  MaxLen = 6
  Symbols = {1, 3, 4, 9, 11}
  SegIMs = {1}
  TofIMs = {2}
  FrameIds = {1}
  StoreIds = {1}
  NStores = {0}
  Freshes = {TRUE}
  MaxSegs = {1}
  FixEmpty = TRUE
INVARIANTS InvBatches InvOut InvPartition InvPos InvCount
CHECK_DEADLOCK FALSE
