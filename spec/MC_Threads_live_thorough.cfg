SPECIFICATION FairSpec
CONSTANTS NT = 3 NI = 2 NK = 2 NC = 1 Bug = "none"
PROPERTY Termination
CHECK_DEADLOCK TRUE
