---------------------------- MODULE MC_Projectors ----------------------------
(* Model check of Projectors.tla itself.                                                      *)
(*  (1) theorems on small integer systems: every task is an initial state, one Eval step       *)
(*      computes the verdict (TLC's workers share the tasks):                                  *)
(*        SysA  5 bins x 4 voxels, P in 0..3: linearity and <A x, y> = <x, A^T y> for ALL        *)
(*              x in {-1,0,1}^4 and y in {-1,0,1}^5;                                            *)
(*        SysB  4 views x 3 segments x 2 axial x 2 tangential positions, 3 voxels, under every  *)
(*              symmetry class: linearity, adjointness, scatter = transpose on every piece      *)
(*              (whole, every (subset_num, num_subsets), every group, windows); the subsets of  *)
(*              every N, the groups, and window tilings add up to the whole.                    *)
(*  (2) the operations of a projector pair as a state machine (histories up to MaxDepth calls   *)
(*      on SysB): the code-shaped operations Do... must satisfy the declarative frame           *)
(*      conditions after every call (InvStep), the accumulated target is the sum of all         *)
(*      contributions since the last start (InvAccumulated), the output is the target at the    *)
(*      last get_output (InvOutput).                                                            *)
(*  Fault # "none" replaces one operation by a faulty one: TLC must then report a violation     *)
(*  (vacuity guards run by checks/c04.py).                                                      *)
EXTENDS Projectors
CONSTANTS MaxDepth, MaxN, MaxHistView, HistClassIdx, Fault
VARIABLES task, res, hsys, st, prev, last, contrib, lastOut, depth

vars == << task, res, hsys, st, prev, last, contrib, lastOut, depth >>

RECURSIVE SetToSeq(_)
SetToSeq(S) == IF S = {} THEN << >> ELSE LET e == CHOOSE e \in S : TRUE IN << e >> \o SetToSeq(S \ {e})
CfgOf(cl) == [views |-> 4, maxSeg |-> 1, s90 |-> cl[1], s180 |-> cl[2], sseg |-> cl[3], minTof |-> 0, maxTof |-> 0]
ClassSeq == << << FALSE, FALSE, FALSE >>, << FALSE, FALSE, TRUE >>, << FALSE, TRUE, FALSE >>, << FALSE, TRUE, TRUE >>, << TRUE, TRUE, TRUE >> >>
Classes == Range(ClassSeq)
HistClasses == { ClassSeq[i] : i \in HistClassIdx }

SysA == LET c == [views |-> 5, maxSeg |-> 0, s90 |-> FALSE, s180 |-> FALSE, sseg |-> FALSE, minTof |-> 0, maxTof |-> 0]
            B == { << vs, 0, 0, 0 >> : vs \in AllVS(c) } IN
        [c |-> c, axs |-> {0}, tangs |-> {0}, nvox |-> 4, seq |-> SetToSeq(B),
         P |-> [b \in B |-> [v \in 1 .. 4 |-> (3 * b[1][1] + 5 * v + b[1][1] * v) % 4]]]
SysB(cl) == LET c == CfgOf(cl)
                B == { << vs, 0, a, t >> : vs \in AllVS(c), a \in {0, 1}, t \in {0, 1} } IN
            [c |-> c, axs |-> {0, 1}, tangs |-> {0, 1}, nvox |-> 3, seq |-> SetToSeq(B),
             P |-> [b \in B |-> [v \in 1 .. 3 |-> (b[1][1] + 2 * (b[1][2] + 1) + 3 * b[3] + 5 * b[4] + 7 * v + b[1][1] * v) % 4]]]

Tri(n) == [1 .. n -> {-1, 0, 1}]
ImagesA == Tri(4)
DataA == { [b \in Bins(SysA) |-> f[b[1][1] + 1]] : f \in Tri(5) }
ImagesB == Tri(3)
ImagesBL == { x \in Tri(3) : x[3] = 1 }       \* pairs of these for the linearity clause
\* a few signed data vectors on SysB (3^48 cannot be enumerated)
DataB(sys) == { [b \in Bins(sys) |-> ((b[1][1] + 2 * b[1][2] + 3 * b[3] + 5 * b[4] + j * (1 + b[1][1] + b[4])) % 3) - 1] : j \in 0 .. 2 }
               \cup { [b \in Bins(sys) |-> IF b = b0 THEN 1 ELSE 0] : b0 \in { bb \in Bins(sys) : bb[3] = 0 /\ bb[4] = 1 /\ bb[1][1] = 1 } }

BasicPairs(c) == { vs \in AllVS(c) : IsBasic(c, vs) }
FullWin(g) == [g |-> g, k |-> 0, axlo |-> 0, axhi |-> 1, tlo |-> 0, thi |-> 1]
Tiles(g) == << [g |-> g, k |-> 0, axlo |-> 0, axhi |-> 0, tlo |-> 0, thi |-> 0], [g |-> g, k |-> 0, axlo |-> 0, axhi |-> 0, tlo |-> 1, thi |-> 1],
               [g |-> g, k |-> 0, axlo |-> 1, axhi |-> 1, tlo |-> 0, thi |-> 1] >>
Windows(c) == { FullWin(g) : g \in BasicPairs(c) } \cup UNION { Range(Tiles(g)) : g \in BasicPairs(c) }

\* the windows the histories use: the groups of up to four basic pairs, whole and two tiles
HistWindows(c) == UNION { { FullWin(g), Tiles(g)[1], Tiles(g)[3] } : g \in { b \in BasicPairs(c) : b[1] <= MaxHistView /\ b[2] >= 0 } }

(* ---------------------------------------------------------------------------------------- *)
(* theorem tasks *)
Tasks ==
  { [kind |-> "A-linear", cl |-> << >>, arg |-> 0], [kind |-> "A-adjoint", cl |-> << >>, arg |-> 0] }
  \cup { [kind |-> k, cl |-> cl, arg |-> 0] : k \in { "B-whole", "B-groups", "B-windows", "B-tilings" }, cl \in Classes }
  \cup { [kind |-> "B-subsets", cl |-> cl, arg |-> N] : cl \in Classes, N \in 1 .. 5 }

PieceOk(sys, T, X, Y) == ThLinear(sys, T, ImagesBL, Y) /\ ThAdjoint(sys, T, X, Y) /\ ThScatterIsTranspose(sys, T, Y)
EvalTask(t) ==
  CASE t.kind = "A-linear" -> ThLinear(SysA, Bins(SysA), ImagesA, { y \in DataA : \A b \in Bins(SysA) : b[1][1] >= 3 => y[b] = 0 })
    [] t.kind = "A-adjoint" -> ThAdjoint(SysA, Bins(SysA), ImagesA, DataA) /\ ThScatterIsTranspose(SysA, Bins(SysA), DataA)
    [] t.kind = "B-whole" -> LET sys == SysB(t.cl) IN SeqOk(sys) /\ SeqOk(SysA) /\ PieceOk(sys, Bins(sys), ImagesB, DataB(sys))
    [] t.kind = "B-subsets" ->
         LET sys == SysB(t.cl)
             N == t.arg
             pieces == [i \in 1 .. N |-> SubsetBins(sys, i - 1, N)] IN
         /\ \A s \in 0 .. N - 1 : PieceOk(sys, SubsetBins(sys, s, N), ImagesB, DataB(sys))
         \* "projecting piecewise and adding the pieces equals projecting at once"; the code's visited viewgrams are the subset
         /\ ThAdditive(sys, pieces, N, Bins(sys), ImagesB, DataB(sys))
         /\ \A s \in 0 .. N - 1 : VisitedVS(sys.c, s, N) = Processed(sys.c, s, N)
    [] t.kind = "B-groups" ->
         LET sys == SysB(t.cl)
             G == BasicPairs(sys.c)
             q == SetToSeq(G) IN
         /\ \A g \in G : PieceOk(sys, WindowBins(sys, FullWin(g)), ImagesB, DataB(sys))
         /\ ThAdditive(sys, [i \in 1 .. Cardinality(G) |-> WindowBins(sys, FullWin(q[i]))], Cardinality(G), Bins(sys), ImagesB, DataB(sys))
    [] t.kind = "B-windows" -> LET sys == SysB(t.cl) IN \A w \in Windows(sys.c) : PieceOk(sys, WindowBins(sys, w), ImagesB, DataB(sys))
    [] t.kind = "B-tilings" ->
         LET sys == SysB(t.cl) IN
         \A g \in BasicPairs(sys.c) :
           ThAdditive(sys, [i \in 1 .. 3 |-> WindowBins(sys, Tiles(g)[i])], 3, WindowBins(sys, FullWin(g)), ImagesB, DataB(sys))

(* ---------------------------------------------------------------------------------------- *)
(* histories on SysB *)
HistX == { [v \in 1 .. 3 |-> IF v = 2 THEN -1 ELSE v], [v \in 1 .. 3 |-> 1 - v] }
HistY(sys) == { [b \in Bins(sys) |-> ((b[1][1] + 2 * b[1][2] + 3 * b[3] + 5 * b[4]) % 3) - 1] }
InitData(sys) == [b \in Bins(sys) |-> 7 + b[1][1] + b[3]]
NoAction == [kind |-> "none"]

\* faulty variants of the code-shaped operations (vacuity guards)
FForwardSubset(sys, s0, s, N, zero) ==
  IF Fault = "zero-inverted"
  THEN LET filled == IF ~zero /\ N > 1 THEN ZeroData(sys) ELSE s0.data
           W == VisitedVS(sys.c, s, N) IN
       [s0 EXCEPT !.data = [b \in Bins(sys) |-> IF b[1] \in W THEN RowDot(sys, b, s0.input) ELSE filled[b]]]
  ELSE IF Fault = "stride-forward-only"
  THEN LET filled == IF zero /\ N > 1 THEN ZeroData(sys) ELSE s0.data
           W == VisitedVS(sys.c, s, N + 1) IN
       [s0 EXCEPT !.data = [b \in Bins(sys) |-> IF b[1] \in W THEN RowDot(sys, b, s0.input) ELSE filled[b]]]
  ELSE DoForwardSubset(sys, s0, s, N, zero)
FGetOutput(sys, s0) == IF Fault = "output-resets" THEN [s0 EXCEPT !.out = s0.acc, !.acc = ZeroImage(sys)] ELSE DoGetOutput(sys, s0)
FForwardGroup(sys, s0, w) == IF Fault = "window-off-by-one" THEN DoForwardGroup(sys, s0, [w EXCEPT !.thi = w.thi - 1]) ELSE DoForwardGroup(sys, s0, w)

Sys == hsys     \* the system of a history: computed once in Init (an operator would be re-evaluated at every use)
Hist == res = "hist" /\ depth < MaxDepth
Step(a, s2) == /\ st' = s2 /\ prev' = st /\ last' = a /\ depth' = depth + 1 /\ UNCHANGED << task, res, hsys >>
Init ==
  \/ /\ task \in Tasks /\ res = "todo" /\ hsys = << >> /\ st = << >> /\ prev = << >> /\ last = NoAction /\ contrib = << >> /\ lastOut = << >> /\ depth = 0
  \/ /\ task \in { [kind |-> "hist", cl |-> cl, arg |-> 0] : cl \in HistClasses } /\ res = "hist"
     /\ hsys = SysB(task.cl)
     /\ st = InitState(hsys, InitData(hsys)) /\ prev = st /\ last = NoAction
     /\ contrib = << >> /\ lastOut = ZeroImage(hsys) /\ depth = 0
Eval == /\ res = "todo" /\ res' = IF EvalTask(task) THEN "proved" ELSE "refuted"
        /\ UNCHANGED << task, hsys, st, prev, last, contrib, lastOut, depth >>
SetInput == Hist /\ \E x \in HistX : Step([kind |-> "SetInput", x |-> x], DoSetInput(Sys, st, x)) /\ UNCHANGED << contrib, lastOut >>
ForwardSubset == Hist /\ \E N \in 1 .. MaxN, zero \in BOOLEAN : \E s \in 0 .. N - 1 :
                   Step([kind |-> "ForwardSubset", s |-> s, N |-> N, zero |-> zero], FForwardSubset(Sys, st, s, N, zero)) /\ UNCHANGED << contrib, lastOut >>
ForwardGroup == Hist /\ \E w \in HistWindows(Sys.c) : Step([kind |-> "ForwardGroup", w |-> w], FForwardGroup(Sys, st, w)) /\ UNCHANGED << contrib, lastOut >>
StartNewTarget == Hist /\ Step([kind |-> "StartNewTarget"], DoStartNewTarget(Sys, st)) /\ contrib' = << >> /\ UNCHANGED lastOut
BackSubset == Hist /\ \E N \in 1 .. MaxN, y \in HistY(Sys) : \E s \in 0 .. N - 1 :
                /\ Step([kind |-> "BackSubset", s |-> s, N |-> N, y |-> y], DoBackSubset(Sys, st, y, s, N))
                /\ contrib' = Append(contrib, [T |-> SubsetBins(Sys, s, N), y |-> y]) /\ UNCHANGED lastOut
BackGroup == Hist /\ \E w \in HistWindows(Sys.c), y \in HistY(Sys) :
               /\ Step([kind |-> "BackGroup", w |-> w, y |-> y], DoBackGroup(Sys, st, y, w))
               /\ contrib' = Append(contrib, [T |-> WindowBins(Sys, w), y |-> y]) /\ UNCHANGED lastOut
GetOutput == Hist /\ Step([kind |-> "GetOutput"], FGetOutput(Sys, st)) /\ lastOut' = st.acc /\ UNCHANGED contrib
Next == Eval \/ SetInput \/ ForwardSubset \/ ForwardGroup \/ StartNewTarget \/ BackSubset \/ BackGroup \/ GetOutput
Spec == Init /\ [][Next]_vars

(* ---------------------------------------------------------------------------------------- *)
InvTheorems == res # "refuted"

Same(f) == st[f] = prev[f]
\* frame conditions of the last call
InvStep ==
  res = "hist" =>
  CASE last.kind = "none" -> TRUE
    [] last.kind = "SetInput" -> st.input = last.x /\ Same("data") /\ Same("acc") /\ Same("out")
    \* "Forward projecting a subset of a data set leaves all other bins unchanged, or sets them to zero when zeroing is requested"
    [] last.kind = "ForwardSubset" ->
         /\ ForwardFrame(Sys, prev.data, st.data, SubsetBins(Sys, last.s, last.N), ZeroRest(last.zero, last.N), prev.input)
         /\ Same("input") /\ Same("acc") /\ Same("out")
    [] last.kind = "ForwardGroup" ->
         /\ ForwardFrame(Sys, prev.data, st.data, WindowBins(Sys, last.w), FALSE, prev.input)
         /\ Same("input") /\ Same("acc") /\ Same("out")
    [] last.kind = "StartNewTarget" -> st.acc = ZeroImage(Sys) /\ Same("input") /\ Same("data") /\ Same("out")
    \* "back projection accumulates without disturbing earlier contributions"
    [] last.kind = "BackSubset" -> BackFrame(Sys, prev.acc, st.acc, SubsetBins(Sys, last.s, last.N), last.y) /\ Same("input") /\ Same("data") /\ Same("out")
    [] last.kind = "BackGroup" -> BackFrame(Sys, prev.acc, st.acc, WindowBins(Sys, last.w), last.y) /\ Same("input") /\ Same("data") /\ Same("out")
    \* get_output hands over the target and leaves it as it is
    [] last.kind = "GetOutput" -> st.out = prev.acc /\ Same("acc") /\ Same("input") /\ Same("data")
\* over a whole history: the target is the sum of everything back projected since the last start (or since set_up)
InvAccumulated ==
  res = "hist" => st.acc = SumI(Sys, [i \in 1 .. Len(contrib) |-> Bck(Sys, contrib[i].T, contrib[i].y)], Len(contrib))
InvOutput == res = "hist" => st.out = lastOut
=============================================================================
