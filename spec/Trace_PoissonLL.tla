-------------------------- MODULE Trace_PoissonLL --------------------------
(* Trace validation for C05: every line recorded from the real objective     *)
(* function (driver harness/c05_poissonll.cxx) must be explained by          *)
(* PoissonLL.tla (what the numbers must be) and LLSetup.tla (what the set-up *)
(* bookkeeping must guarantee for every order of requests).                  *)
(*   System    the explicit matrix P (rows and columns)                      *)
(*   Instance  options + lambda, x, y, a, efficiencies (+ the prior's own    *)
(*             answers: its share of the penalised quantities)               *)
(*   SetUp     result of set_up                                              *)
(*   Value | Grad | GradPlusSens | Sens | AddSens | HessTimes | ApproxHess   *)
(*             one request: subset (-1 = full data), penalised or not,       *)
(*             result in fixed point (scale 2^k, `ex' = the result is an     *)
(*             exact multiple of 2^-k), error flag, how the normalisation    *)
(*             object had been set up when it was used                       *)
(* Lines are independent observations given the current instance, so all     *)
(* unexplained lines are collected (variable bad).                           *)
EXTENDS PoissonLL, TraceLib
VARIABLES l, sys, I, m, f, vs, ready, bad

L == INSTANCE LLSetup

NoSys == [id |-> 0]
NoInst == [sysid |-> -1]
SysOf(r) == [id |-> r.id, tof |-> r.tof, nv |-> r.nv, numViews |-> r.numViews, minView |-> r.minView, minAx0 |-> r.minAx0,
             maxAx0 |-> r.maxAx0, maxSegData |-> r.maxSegData, bins |-> r.bins, rows |-> r.rows, cols |-> r.cols]
(* "convention: if -1, use get_max_segment_num()" *)
InstOf(r, s) == [sysid |-> r.sys, tof |-> r.tof, zero |-> r.zero, maxSeg |-> IF r.maxSegAsked = -1 THEN s.maxSegData ELSE r.maxSegAsked,
                 N |-> r.N, uss |-> r.uss, lam |-> r.lam, x |-> r.x, y |-> r.y, a |-> r.a, ef |-> r.ef,
                 prior |-> r.prior, supplied |-> r.supplied, wrapNorm |-> r.wrapNorm, fill |-> r.fill,
                 pVal |-> IF r.prior THEN r.pVal ELSE 0,
                 pGrad |-> IF r.prior THEN r.pGrad ELSE <<>>,
                 pHess |-> IF r.prior THEN r.pHess ELSE <<>>,
                 pApprox |-> IF r.prior THEN r.pApprox ELSE <<>>,
                 pEx |-> IF r.prior THEN r.pEx ELSE TRUE,
                 lm |-> Has(r, "lm") /\ r.lm,      \* the list-mode objective function (second instance of the same definitions)
                 same |-> TRUE]

Requests == {"Value", "Grad", "GradPlusSens", "Sens", "AddSens", "HessTimes", "ApproxHess", "ValueDiff"}
SubOk(r) == r.sub \in -1..(I.N - 1)

(* The normalisation object, whenever a request used it, had been set up, with the same kind   *)
(* of data (TOF or not) as it was used with, and that kind is the one the request needs: the   *)
(* original data for value, gradient and Hessian products, the sensitivity data (non-TOF       *)
(* unless TOF sensitivities are used) for sensitivities.                                       *)
NormUseOk(r, kind) ==
  \A i \in 1..Len(r.normUse) :
     LET u == r.normUse[i] IN
     /\ u[1] = 1 /\ u[2] = u[3]
     /\ (u[3] = 1) = (I.tof /\ L!NormNeed(kind, I.same))

(* "with a prior the penalised quantities are the unpenalised ones minus the prior's share":   *)
(* the share of a subset is 1/num_subsets of the prior's gradient / Hessian product / value.   *)
Penalised(r) == r.pen /\ I.prior
ShareOk(r, v, unpen, share, o0) ==
  IF ~Penalised(r) THEN r.out[v] = unpen + o0
  ELSE IF r.sub = -1 THEN r.out[v] = unpen + o0 - share
  ELSE I.N * (unpen + o0 - r.out[v]) = share

O0(r, v, k) == IF Has(r, "o0") THEN r.o0[v] * k ELSE 0

ImageOk(r, kind) ==
  /\ Has(r, "out") /\ Len(r.out) = sys.nv /\ r.ex /\ SubOk(r)
  /\ CASE kind = "Grad" ->
            r.k = 4 /\ \A v \in 1..sys.nv : ShareOk(r, v, Grad(sys, I, m, r.sub, v), IF I.prior THEN I.pGrad[v] ELSE 0, 0)
       [] kind = "GradPlusSens" ->
            r.k = 4 /\ r.sub >= 0 /\ \A v \in 1..sys.nv : r.out[v] = GradPlusSens(sys, I, m, r.sub, v)
       [] kind = "Sens" ->
            r.k = 4 /\ \A v \in 1..sys.nv : ReportedSensDefined(sys, I, m, r.sub, v) /\ r.out[v] = ReportedSens(sys, I, m, r.sub, v)
       [] kind = "AddSens" ->
            r.k = 4 /\ r.sub >= 0 /\ \A v \in 1..sys.nv : r.out[v] = O0(r, v, SC) + Sens(sys, I, m, r.sub, v)
       [] kind = "HessTimes" ->
            r.k = 4 /\ \A v \in 1..sys.nv :
               ShareOk(r, v, HessTimes(sys, I, m, r.sub, v), IF I.prior THEN I.pHess[v] ELSE 0, O0(r, v, SC))
       [] kind = "ApproxHess" ->
            \* pApprox is recorded in units of 1/16, the approximate Hessian in units of 2^-AHK
            r.k = AHK /\ ApproxDomain(sys, I, m, r.sub) /\ \A v \in 1..sys.nv :
               ShareOk(r, v, ApproxHess(sys, I, m, r.sub, v), IF I.prior THEN I.pApprox[v] * (2^AHK \div SC) ELSE 0, O0(r, v, 2^AHK))

(* Values.  vs remembers the values seen for this instance: vs[<<pen, sub>>].                  *)
VKey(r) == << Penalised(r), r.sub >>
Seen(w, k) == k \in DOMAIN w
ValueOk(r, w) ==       \* w = vs with this line's value added
  /\ SubOk(r) /\ r.k = VK
  \* the definition, where TLC can evaluate it: means that are powers of two
  /\ (Pow2Means(sys, I, m, r.sub) /\ ValueRange(ValueA(sys, I, m, r.sub))) =>
        LET e == ValueVK(sys, I, m, r.sub) IN
        IF ~Penalised(r) THEN Abs(r.val - e) <= ValueTol
        ELSE IF r.sub = -1 THEN Abs(r.val - (e - I.pVal)) <= ValueTol
        ELSE Abs(I.N * (e - r.val) - I.pVal) <= I.N * ValueTol
  \* "summed over all subsets equals its full-data counterpart" (recorded values: rounding of each record)
  /\ (\A s \in -1..(I.N - 1) : Seen(w, << Penalised(r), s >>)) =>
        Abs(Sum([k \in 1..I.N |-> w[<< Penalised(r), k - 1 >>]]) - w[<< Penalised(r), -1 >>]) <= I.N + 1
  \* "penalised = unpenalised - prior share" between recorded values
  /\ (I.prior /\ Seen(w, << TRUE, r.sub >>) /\ Seen(w, << FALSE, r.sub >>)) =>
        IF r.sub = -1 THEN Abs(w[<< FALSE, -1 >>] - w[<< TRUE, -1 >>] - I.pVal) <= 2
        ELSE Abs(I.N * (w[<< FALSE, r.sub >>] - w[<< TRUE, r.sub >>]) - I.pVal) <= 2 * I.N

(* List-mode objective: the log-likelihood is documented "up to terms independent of ybar", so the   *)
(* DIFFERENCE of the values at 2 lambda and at lambda is decided (no additive term: the means double):  *)
(*     L(2 lambda) - L(lambda) = ln2 * SUM_b y_b  -  SUM_v lambda_v Sens(S)_v                           *)
(* with the sensitivity the objective function reports for the subset.                                  *)
NoAdditive == \A b \in 1..NB(sys) : I.a[b] = 0
Counts(s) == Sum([b \in 1..NB(sys) |-> IF Sel(sys, I, m, b, s) /\ m.d[b] > 0 THEN I.y[b] ELSE 0])
LamDotSens(s) == Sum([v \in 1..sys.nv |-> I.lam[v] * ReportedSens(sys, I, m, s, v)])      \* units 1/SC
ValueDiffOk(r) ==
  /\ I.lm /\ SubOk(r) /\ r.k = VK /\ Has(r, "val") /\ Has(r, "val2")
  /\ (NoAdditive /\ ValueRange(Counts(r.sub)) /\ \A v \in 1..sys.nv : ReportedSensDefined(sys, I, m, r.sub, v)) =>
        Abs((r.val2 - r.val) - (MulLn2(Counts(r.sub)) - LamDotSens(r.sub) * (2^VK \div SC))) <= ValueTol + 2

NewVs(r) == IF r.e = "Value" /\ Has(r, "val") THEN (VKey(r) :> r.val) @@ vs ELSE vs

(* the set-up bookkeeping after this line: a new object per Instance line; set_up (with the     *)
(* sensitivity computation of every subset unless sensitivities are supplied); one step per    *)
(* request.  U = how an indeterminate flag reads in storage filled with the byte `fill'.       *)
U == IF I = NoInst THEN FALSE ELSE I.fill # 0
SameOf(r) == ~I.tof \/ r.tofSens
FAfter(r) ==
  IF r.e = "Instance" THEN (IF Has(r, "reuse") /\ r.reuse THEN f ELSE L!Fresh("U"))    \* reuse: the same object is set up again
  ELSE IF r.e = "SetUp" /\ I # NoInst /\ ~I.lm THEN L!SetUpAll(f, SameOf(r), U, ~I.supplied, I.N)
  ELSE IF r.e \in Requests /\ I # NoInst /\ ready /\ ~I.lm THEN L!Step(f, r.e, I.same, U, "doc")
  ELSE f          \* (a request refused because the object is not set up changes nothing)
(* the set-up protocol: a new object is not set up; set_up makes it ready; a setter that changes the *)
(* configuration (all recorded Setter lines do) makes it not ready again                             *)
ReadyAfter(r) ==
  IF r.e = "Instance" THEN FALSE       \* a (re-)configured object is served only after the set_up that follows
  ELSE IF r.e = "SetUp" THEN ~r.err /\ r.ok
  ELSE IF r.e = "Setter" THEN L!ReadyAfterSetter(ready, r.name, TRUE)
  ELSE IF r.e = "System" THEN FALSE
  ELSE ready

ShapeOk(r, s) ==
  /\ s # NoSys /\ r.sys = s.id /\ r.tof = s.tof
  /\ Len(r.lam) = s.nv /\ Len(r.x) = s.nv
  /\ Len(r.y) = Len(s.bins) /\ Len(r.a) = Len(s.bins) /\ Len(r.ef) = Len(s.bins)
  /\ (r.prior => Len(r.pGrad) = s.nv /\ Len(r.pHess) = s.nv /\ Len(r.pApprox) = s.nv)

Explains(r) ==
  CASE r.e = "System" -> SystemOk(SysOf(r))
    [] r.e = "Instance" -> ShapeOk(r, sys)
    [] r.e = "SetUp" ->
         /\ I # NoInst /\ InstanceOk(sys, I, m) /\ I.pEx
         /\ ~r.err /\ r.ok /\ r.maxSeg = I.maxSeg       \* set_up succeeds on every legal option set
         /\ LET J == [I EXCEPT !.same = SameOf(r)] IN
            \A i \in 1..Len(r.normUse) :
               LET u == r.normUse[i] IN u[1] = 1 /\ u[2] = u[3] /\ (u[3] = 1) = (I.tof /\ L!NormNeed("AddSens", J.same))
         /\ L!Healthy(FAfter(r))
    [] r.e = "Setter" -> I # NoInst /\ r.name \in L!Setters
    [] r.e \in Requests /\ ~ready ->                  \* not set up: the request must be refused
         I # NoInst /\ r.e \in L!MustRefuse /\ r.err
    [] r.e \in Requests /\ ready ->
         /\ I # NoInst
         /\ ~r.err                                   \* no order of requests may end in an error
         /\ L!Healthy(FAfter(r))
         /\ NormUseOk(r, r.e)
         /\ (r.e = "AddSens" => ~I.supplied)
         /\ (I.lm => r.e \notin {"Value", "ApproxHess"} /\ ~r.pen)
         /\ IF r.e = "Value" THEN Has(r, "val") /\ ValueOk(r, NewVs(r))
            ELSE IF r.e = "ValueDiff" THEN ValueDiffOk(r)
            ELSE ImageOk(r, r.e)
    [] r.e = "End" -> r.lines >= l - 1          \* (traces are validated in chunks: l counts from the chunk start)
    [] OTHER -> FALSE

(* Known findings of the list-mode objective function (known_findings.jsonl): an unexplained line is  *)
(* attributed to one only if it shows exactly that defect's signature; anything else is "new".         *)
(*  C05-lm-value      the value is  - SUM y log d  (sign inverted, sensitivity term dropped):         *)
(*                    L(2 lambda) - L(lambda) = - ln2 SUM y                                            *)
(*  C05-lm-addsens    add_subset_sensitivity OVERWRITES its argument with the subset's sensitivity;   *)
(*                    hence without use_subset_sensitivities the "total" is the last subset's only     *)
Classify(r) ==
  IF I = NoInst \/ ~I.lm \/ ~ready \/ ~(r.e \in Requests) \/ r.err \/ ~SubOk(r) THEN "new"
  ELSE IF r.e = "ValueDiff" /\ Has(r, "val") /\ Has(r, "val2") /\ NoAdditive /\ ValueRange(Counts(r.sub))
          /\ Abs((r.val2 - r.val) + MulLn2(Counts(r.sub))) <= ValueTol + 2 THEN "C05-lm-value"
  ELSE IF r.e = "AddSens" /\ Has(r, "out") /\ Len(r.out) = sys.nv /\ r.sub >= 0 /\ r.ex /\ r.k = 4
          /\ \A v \in 1..sys.nv : r.out[v] = Sens(sys, I, m, r.sub, v) THEN "C05-lm-addsens"
  ELSE IF r.e = "Sens" /\ ~I.uss /\ I.N > 1 /\ Has(r, "out") /\ Len(r.out) = sys.nv /\ r.ex /\ r.k = 4
          /\ \A v \in 1..sys.nv : r.out[v] * (IF r.sub = -1 THEN 1 ELSE I.N) = Sens(sys, I, m, I.N - 1, v) THEN "C05-lm-addsens"
  ELSE "new"

Init == l = 1 /\ sys = NoSys /\ I = NoInst /\ m = <<>> /\ f = L!Fresh("U") /\ vs = <<>> /\ ready = FALSE /\ bad = <<>>

Next ==
  /\ l <= Len(TraceLog)
  /\ LET r == TraceLog[l] IN
     /\ sys' = IF r.e = "System" THEN SysOf(r) ELSE sys
     /\ I' = IF r.e = "Instance" THEN (IF ShapeOk(r, sys) THEN InstOf(r, sys) ELSE NoInst)
             ELSE IF r.e = "SetUp" /\ I # NoInst THEN [I EXCEPT !.same = SameOf(r)]
             ELSE IF r.e = "System" THEN NoInst
             ELSE I
     /\ m' = IF r.e = "Instance" /\ ShapeOk(r, sys) THEN Memo(sys, InstOf(r, sys)) ELSE m
     /\ vs' = IF r.e = "Instance" THEN <<>> ELSE IF I # NoInst /\ ready THEN NewVs(r) ELSE vs
     /\ f' = FAfter(r)
     /\ ready' = ReadyAfter(r)
     /\ bad' = IF Explains(r) THEN bad
               ELSE LET cls == Classify(r) IN
                    IF Len(SelectSeq(bad, LAMBDA x : x[2] = cls)) < (IF cls = "new" THEN 300 ELSE 20) THEN Append(bad, << l, cls >>) ELSE bad
  /\ l' = l + 1
Spec == Init /\ [][Next]_<<l, sys, I, m, f, vs, ready, bad>>

\* evaluated in the final state only (no successor): prints the unexplained lines
Done == l > Len(TraceLog) => (bad = <<>> \/ PrintT(<<"UNEXPLAINED", bad>>))
Consumed == IF TLCGet("stats").diameter - 1 = Len(TraceLog) THEN TRUE
            ELSE PrintT(<<"REJECTED_AT", TLCGet("stats").diameter>>) /\ FALSE
=============================================================================
