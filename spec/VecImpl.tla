------------------------------- MODULE VecImpl -------------------------------
(***************************************************************************)
(* C11 -- pointer-level model of stir::VectorWithOffset<T>, transcribed     *)
(* from src/include/stir/VectorWithOffset.inl (and the overrides of         *)
(* NumericVectorWithOffset.inl / Array<1>::resize in Array.inl).            *)
(*                                                                          *)
(* A vector is  start, length, num (the shifted base pointer, kept as an    *)
(* integer address), begin / end (begin_allocated_memory,                   *)
(* end_allocated_memory), own ("none": nothing allocated, "priv": memory of *)
(* its own, "ext": allocated_memory_sptr shares the external block), and    *)
(* for "priv" the contents `mem' of its allocation.  Addresses: the         *)
(* external block occupies ExtBase..ExtBase+K-1; a private allocation of    *)
(* slot t starts at PrivBase(t, gen), gen alternating at every              *)
(* re-allocation so that a stale pointer never hits the new block.          *)
(*                                                                          *)
(* Every element access goes through RdA / WrA, which set `oob' when the    *)
(* address is outside the allocation the vector holds:  "no operation reads *)
(* or writes outside the storage it owns"  ==  oob stays FALSE.             *)
(* Refinement: Abs maps a pointer-level state to a VecAbstract state; every *)
(* operation must commute with VecAbstract!Apply (up to unspecified values).*)
(***************************************************************************)
EXTENDS VecAbstract

CONSTANT PreFixAssign   \* TRUE: transcribe operator= as it was before fix bb45fea1c (demonstration)

ExtBase == 100
PrivBase(t, g) == 1000 * t + 400 * g
Null == 0

IVec0 == [start |-> 0, length |-> 0, num |-> Null, begin |-> Null, end |-> Null, own |-> "none", mem |-> << >>, gen |-> 0]

\* M = [v: <<vec, vec>>, blk: Seq, oob: BOOLEAN]
Cap(V) == V.end - V.begin
MinIdx(V) == V.start
MaxIdx(V) == V.start + V.length - 1

\* is address p inside the allocation held by V (and inside the external block if V shares it)
Valid(M, V, p) ==
  /\ V.own # "none"
  /\ p >= V.begin /\ p < V.end
  /\ V.own = "ext" => (p >= ExtBase /\ p < ExtBase + Len(M.blk))
RdA(M, t, p) == LET V == M.v[t] IN
  IF ~Valid(M, V, p) THEN U
  ELSE IF V.own = "ext" THEN M.blk[p - ExtBase + 1] ELSE V.mem[p - V.begin + 1]
WrA(M, t, p, x) == LET V == M.v[t] IN
  IF ~Valid(M, V, p) THEN [M EXCEPT !.oob = TRUE]
  ELSE IF V.own = "ext" THEN [M EXCEPT !.blk[p - ExtBase + 1] = x]
  ELSE [M EXCEPT !.v[t].mem[p - V.begin + 1] = x]
RdOob(M, t, p) == ~Valid(M, M.v[t], p)

\* for i = lo..hi ascending:  M := F(M, i)
ILoop(M, lo, hi, F(_, _)) ==
  LET f[i \in (lo - 1)..hi] == IF i = lo - 1 THEN M ELSE F(f[i - 1], i) IN
  IF hi < lo THEN M ELSE f[hi]

(*************************** VectorWithOffset.inl ***************************)
\* init():  length = 0; start = 0; num = nullptr; begin/end_allocated_memory = nullptr; allocated_memory_sptr = nullptr
InitV(V) == [IVec0 EXCEPT !.gen = V.gen]

\* VectorWithOffset(min_index, max_index)
Ctor(ty, t, V, lo, hi) ==
  IF hi >= lo
  THEN LET n == hi - lo + 1  b == PrivBase(t, 1 - V.gen) IN
       [start |-> lo, length |-> n, num |-> b - lo, begin |-> b, end |-> b + n, own |-> "priv",
        mem |-> [j \in 1..n |-> Fresh(ty)], gen |-> 1 - V.gen]
  ELSE InitV(V)

\* VectorWithOffset(min_index, max_index, shared_ptr<T[]> data_sptr) -> init(min, max, data_sptr.get(), false)
ViewCtor(V, lo, hi) ==
  LET n == hi - lo + 1 IN
  [start |-> lo, length |-> n, num |-> ExtBase - lo, begin |-> ExtBase, end |-> ExtBase + n, own |-> "ext", mem |-> << >>, gen |-> V.gen]

\* set_offset(min_index)
SetOffsetV(V, m) == IF V.length = 0 THEN V ELSE [V EXCEPT !.num = V.num + V.start - m, !.start = m]

CapMinIdx(V) == V.begin - V.num
CapMaxIdx(V) == V.end - V.num - 1

\* reserve(new_capacity_min_index, new_capacity_max_index)
ReserveM(ty, M, t, nmin, nmax) ==
  LET V == M.v[t]
      amin == IF V.length = 0 THEN nmin ELSE VMin(CapMinIdx(V), nmin)
      amax == IF V.length = 0 THEN nmax ELSE VMax(CapMaxIdx(V), nmax)
      newcap == amax - amin + 1
  IN
  IF amin > amax THEN M
  ELSE IF newcap <= Cap(V) THEN M
  ELSE
    LET extra == IF V.length = 0 THEN 0 ELSE VMax(0, MinIdx(V) - amin)
        b == PrivBase(t, 1 - V.gen)
        \* std::copy(this->begin(), this->end(), new_allocated_memory_sptr.get() + extra_at_the_left)
        src(j) == V.num + V.start + j
        bad == \E j \in 0..(V.length - 1) : RdOob(M, t, src(j))
        newmem == [c \in 1..newcap |-> IF c - 1 >= extra /\ c - 1 < extra + V.length THEN RdA(M, t, src(c - 1 - extra)) ELSE Fresh(ty)]
        V2 == [V EXCEPT !.own = "priv", !.mem = newmem, !.gen = 1 - V.gen, !.begin = b, !.end = b + newcap,
                        !.num = b + extra - (IF V.length > 0 THEN V.start ELSE 0)]
    IN [M EXCEPT !.v[t] = V2, !.oob = M.oob \/ bad]

\* resize(min_index, max_index)
ResizeM(ty, M, t, lo, hi) ==
  LET V == M.v[t] IN
  IF lo > hi THEN [M EXCEPT !.v[t] = [V EXCEPT !.length = 0, !.start = 0, !.num = V.begin]]
  ELSE IF V.length > 0 /\ lo = MinIdx(V) /\ hi = MaxIdx(V) THEN M
  ELSE
    LET omin == VMax(MinIdx(V), lo)
        omax == VMin(MaxIdx(V), hi)
        olen == IF V.length = 0 THEN 0 ELSE IF omax - omin < 0 THEN 0 ELSE omax - omin + 1
        V1 == IF V.length = 0 THEN V
              ELSE IF olen = 0 THEN [V EXCEPT !.length = 0, !.start = 0, !.num = V.begin]
              ELSE [V EXCEPT !.length = olen, !.start = omin]       \* "do not change num as num[0] should remain the same"
        M2 == ReserveM(ty, [M EXCEPT !.v[t] = V1], t, lo, hi)
        V2 == M2.v[t]
        V3 == [V2 EXCEPT !.length = hi - lo + 1, !.start = lo, !.num = IF olen > 0 THEN V2.num ELSE V2.begin - lo]
    IN [M2 EXCEPT !.v[t] = V3]

\* Array<1,elemT>::resize(min_index, max_index): base resize, then the elements outside the old range are set to 0
ResizeArrM(M, t, lo, hi) ==
  LET V == M.v[t]
      oldstart == MinIdx(V)
      oldlength == V.length
      M2 == ResizeM("A1", M, t, lo, hi)
      W == M2.v[t]
      zero(Mx, i) == WrA(Mx, t, W.num + i, 0)
  IN IF oldlength = 0 THEN ILoop(M2, MinIdx(W), MaxIdx(W), zero)
     ELSE LET M3 == ILoop(M2, MinIdx(W), VMin(oldstart - 1, MaxIdx(W)), zero)
          IN ILoop(M3, VMax(oldstart + oldlength, MinIdx(W)), MaxIdx(W), zero)
\* the virtual resize()/grow() of the three classes
VResize(ty, M, t, lo, hi) == IF ty = "A1" THEN ResizeArrM(M, t, lo, hi) ELSE ResizeM(ty, M, t, lo, hi)

\* operator=(const VectorWithOffset& il)   (source: slot s, possibly viewing the same memory)
AssignM(ty, M, t, s) ==
  LET V == M.v[t]
      S == M.v[s]
      M1 == IF Cap(V) < S.length
            THEN ReserveM(ty, [M EXCEPT !.v[t] = [V EXCEPT !.length = 0, !.start = 0, !.num = V.begin]], t, MinIdx(S), MaxIdx(S))
            ELSE IF PreFixAssign THEN M
            ELSE [M EXCEPT !.v[t] = [V EXCEPT !.start = 0, !.num = V.begin]]   \* fix bb45fea1c: re-use the allocation from its start
      V1 == SetOffsetV([M1.v[t] EXCEPT !.length = S.length], MinIdx(S))
      M2 == [M1 EXCEPT !.v[t] = V1]
      \* std::copy(il.begin(), il.end(), this->begin())  (memmove for arithmetic types: all reads first)
      vals == [j \in 1..S.length |-> RdA(M, s, S.num + S.start + j - 1)]
      badrd == \E j \in 1..S.length : RdOob(M, s, S.num + S.start + j - 1)
      M3 == ILoop(M2, 1, S.length, LAMBDA Mx, j : WrA(Mx, t, V1.num + V1.start + j - 1, vals[j]))
  IN [M3 EXCEPT !.oob = M3.oob \/ badrd]

\* element loops  num[i] op= v.num[i]  /  num[i] op= c
VecLoopM(M, t, s, o) ==
  LET S == M.v[s] IN
  ILoop(M, MinIdx(S), MaxIdx(S), LAMBDA Mx, i :
        LET a == Mx.v[t].num + i
            b == Mx.v[s].num + i
            Mr == [Mx EXCEPT !.oob = Mx.oob \/ RdOob(Mx, t, a) \/ RdOob(Mx, s, b)]
        IN WrA(Mr, t, a, Arith(o, RdA(Mx, t, a), RdA(Mx, s, b))))
ScalarLoopM(M, t, o, c) ==
  LET V == M.v[t] IN
  ILoop(M, MinIdx(V), MaxIdx(V), LAMBDA Mx, i : WrA(Mx, t, V.num + i, Arith(o, RdA(Mx, t, V.num + i), c)))

IR(M) == [m |-> M, err |-> FALSE]
IE(M) == [m |-> M, err |-> TRUE]

\* VectorWithOffset::operator+= etc. (range check, then the loop) and the growing versions of NumericVectorWithOffset
VecOpM(ty, M, t, k) ==
  LET s == Other(t)
      V == M.v[t]
      S == M.v[s]
      o == OpSym(k)
  IN
  IF ty = "VI"
  THEN IF MinIdx(V) # MinIdx(S) \/ MaxIdx(V) # MaxIdx(S) THEN IE(M) ELSE IR(VecLoopM(M, t, s, o))
  ELSE IF S.length = 0 THEN IR(M)
  ELSE IF V.length = 0 THEN
    LET M1 == AssignM(ty, M, t, s) IN
    IR(CASE o = "+" -> M1 [] o = "-" -> ScalarLoopM(M1, t, "*", -1) [] OTHER -> ScalarLoopM(M1, t, "*", 0))
  ELSE IR(VecLoopM(VResize(ty, M, t, VMin(MinIdx(V), MinIdx(S)), VMax(MaxIdx(V), MaxIdx(S))), t, s, o))

Do(ty, M, op) ==
  LET t == op.t
      s == Other(op.t)
      V == M.v[t]
      k == op.k
  IN
  CASE k = "Default" -> IR([M EXCEPT !.v[t] = InitV(V)])
    [] k = "Construct" ->
         IF ty = "A1" THEN IR(ResizeArrM([M EXCEPT !.v[t] = InitV(V)], t, op.a, op.b))    \* Array<1>(min,max): base_type(), grow(min,max)
         ELSE IR([M EXCEPT !.v[t] = Ctor(ty, t, V, op.a, op.b)])
    [] k = "View" -> IR([M EXCEPT !.v[t] = ViewCtor(V, op.a, op.b)])
    [] k = "Copy" -> IR(AssignM(ty, [M EXCEPT !.v[t] = InitV(V)], t, s))                   \* init(); *this = il;
    [] k = "Move" -> IR([M EXCEPT !.v[t] = [M.v[s] EXCEPT !.gen = V.gen], !.v[s] = InitV(M.v[s])])     \* swap with a default-constructed object
    [] k = "Assign" -> IR(AssignM(ty, M, t, s))
    [] k = "SelfAssign" -> IR(M)
    [] k = "Resize" -> IR(VResize(ty, M, t, op.a, op.b))
    [] k = "GrowBy" -> IR(VResize(ty, M, t, MinIdx(V) - op.a, MaxIdx(V) + op.b))
    [] k = "Reserve" -> IR(ReserveM(ty, M, t, op.a, op.b))
    [] k = "SetOffset" -> IR([M EXCEPT !.v[t] = SetOffsetV(V, op.a)])
    [] k = "Recycle" -> IR([M EXCEPT !.v[t] = InitV(V)])
    [] k = "Fill" -> IR(ILoop(M, 0, V.length - 1, LAMBDA Mx, j : WrA(Mx, t, V.num + V.start + j, op.a)))
    [] k = "Iota" -> IR(ILoop(M, 0, V.length - 1, LAMBDA Mx, j : WrA(Mx, t, V.num + V.start + j, op.a + j)))
    [] k = "SetAt" -> IF V.length = 0 \/ op.a < MinIdx(V) \/ op.a > MaxIdx(V) THEN IE(M) ELSE IR(WrA(M, t, V.num + op.a, op.b))
    [] k \in VecOps -> VecOpM(ty, M, t, k)
    [] k \in ScalOps -> IR(ScalarLoopM(M, t, OpSym(k), op.a))
    [] k = "MemSet" -> IR([M EXCEPT !.blk[op.a] = op.b])
ImplKinds == {"Default", "Construct", "View", "Copy", "Move", "Assign", "SelfAssign", "Resize", "GrowBy", "Reserve", "SetOffset",
              "Recycle", "Fill", "Iota", "SetAt", "MemSet"} \cup VecOps \cup ScalOps

(***************************************************************************)
(* Memory safety: check_state() of the implementation, plus the access flag *)
(***************************************************************************)
VecSafe(M, t) ==
  LET V == M.v[t] IN
  /\ V.begin <= V.num + V.start                 \* assert(begin_allocated_memory <= num + start)
  /\ V.num + V.start + V.length <= V.end         \* the whole range lies inside the allocation
  /\ V.end >= V.begin
  /\ V.own = "priv" => Len(V.mem) = Cap(V)
  /\ V.own = "ext" => (V.begin = ExtBase /\ V.end <= ExtBase + Len(M.blk))
  /\ V.own = "none" => (V.length = 0 /\ Cap(V) = 0)
MemorySafe(M) == ~M.oob /\ VecSafe(M, 1) /\ VecSafe(M, 2)
\* an empty vector reports the index range 0..-1
EmptyNormalised(M) == \A t \in {1, 2} : M.v[t].length = 0 => M.v[t].start = 0

(***************************************************************************)
(* Refinement of VecAbstract                                                *)
(***************************************************************************)
AbsVec(M, t) ==
  LET V == M.v[t] IN
  [lo |-> IF V.length = 0 THEN 0 ELSE V.start,
   hi |-> IF V.length = 0 THEN -1 ELSE V.start + V.length - 1,
   v |-> IF V.own = "ext" THEN << >> ELSE [j \in 1..V.length |-> RdA(M, t, V.num + V.start + j - 1)],
   base |-> IF V.own = "ext" THEN V.num + V.start - ExtBase + 1 ELSE 0,
   cap |-> IF V.own = "ext" THEN Cap(V) ELSE 0]
Abs(M) == [s |-> << AbsVec(M, 1), AbsVec(M, 2) >>, blk |-> M.blk]

\* abstract state `a' (may contain U) is matched by abstract state `b'
AbsMatch(a, b) ==
  /\ \A t \in {1, 2} : /\ a.s[t].lo = b.s[t].lo /\ a.s[t].hi = b.s[t].hi
                       /\ a.s[t].base = b.s[t].base /\ a.s[t].cap = b.s[t].cap
                       /\ SeqMatch(C(a, t), C(b, t))
  /\ SeqMatch(a.blk, b.blk)

Refines(ty, M, op) ==
  LET r == Do(ty, M, op)
      ar == Apply(ty, Abs(M), op)
  IN /\ r.err = ar.err
     /\ AbsMatch(ar.st, Abs(r.m))
=============================================================================
