INIT GenInit
NEXT GenNext
CONSTANTS MaxCells = 10000 MaxKLCells = 1500 Thin = 19
CHECK_DEADLOCK FALSE
