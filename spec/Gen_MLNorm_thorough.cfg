INIT GenInit
NEXT GenNext
CONSTANTS MaxCells = 12000 MaxKLCells = 1500 Thin = 7
CHECK_DEADLOCK FALSE
