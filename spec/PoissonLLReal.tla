---------------------------- MODULE PoissonLLReal ----------------------------
(* C05, real projectors (encoding F).  The same definitions as PoissonLL.tla, *)
(* evaluated on the matrix P EXTRACTED from a real ray-tracing matrix and     *)
(* logged in fixed point:  sys.rows / sys.cols carry round(P * 2^PS).         *)
(* Instances are built so that the mean of every bin is a declared power of   *)
(* two K_b up to float rounding (a_b = K_b - (P lambda)_b, recorded as        *)
(* round(a * 2^PS)); data y_b = r_b K_b^2.  Then                              *)
(*     y/d = r K,   y (Px)/d^2 = r (Px),   log(n d) = ln2 (log2 K + ef)       *)
(* up to the relative error RelTol of the mean, and the definitions become    *)
(* integer-weighted sums over the columns of P.                               *)
(*                                                                            *)
(* Tolerances (all spec-declared, never tuned in the harness):                *)
(*   QErr   each logged matrix element is off by at most 1/2 unit of 2^-PS    *)
(*   RelTol = 2^-10: float accumulation over < 10^3 terms, rows obtained by a *)
(*          symmetry operation instead of direct ray tracing (C03: ~1e-6),    *)
(*          mean K(1 +- 1e-5).  Changes of interest (a viewgram of an orbit   *)
(*          dropped or doubled, a wrong subset, a wrong symmetry operation)   *)
(*          move results by percents.                                         *)
EXTENDS PoissonLL

PS == 15
RelShift == 10                      \* RelTol = 2^-RelShift

(* the instance's means are what it declares: |(P lambda)_b + a_b - K_b| <= quantisation *)
MeanOk(sys, I, b) ==
  Abs(RowDot(sys.rows[b], I.lam) + I.a[b] - I.K[b] * 2^PS) <= Len(sys.rows[b]) * 2 + 10
RealInstanceOk(sys, I) ==
  /\ Len(I.lam) = sys.nv /\ Len(I.x) = sys.nv
  /\ Len(I.K) = NB(sys) /\ Len(I.a) = NB(sys) /\ Len(I.r) = NB(sys) /\ Len(I.ef) = NB(sys)
  /\ I.N >= 1 /\ I.maxSeg \in 0..sys.maxSegData
  /\ \A v \in 1..sys.nv : I.lam[v] \in 0..2 /\ I.x[v] \in 0..3
  /\ \A b \in 1..NB(sys) : /\ IsPow2(I.K[b]) /\ I.K[b] <= 32 /\ I.r[b] \in 0..2 /\ I.ef[b] \in -2..0 /\ I.a[b] >= 0
                           /\ MeanOk(sys, I, b)

(* per-bin integer weights, times 4 so that n = 1/4 stays integral *)
WQuot(I, b) == 4 * I.r[b] * I.K[b]                    \* 4 y/d
WEff(I, b) == 2^(I.ef[b] + 2)                         \* 4 n
WGrad(I, b) == WQuot(I, b) - WEff(I, b)

(* back projection with the fixed-point matrix: value in units of 2^-(PS+2), and the bound on  *)
(* what quantisation of P can contribute (1/2 unit per element, weight |w|)                    *)
BackW(sys, I, m, w(_), s, v) == Back(sys, I, m, w, s, v)
BackAbs(sys, I, m, w(_), s, v) == LET aw(b) == Abs(w(b)) IN Back(sys, I, m, aw, s, v)
CountSel(sys, I, m, w(_), s, v) ==
  Sum([i \in 1..Len(sys.cols[v]) |-> IF Sel(sys, I, m, sys.cols[v][i][1], s) THEN Abs(w(sys.cols[v][i][1])) ELSE 0])

(* a recorded image value `out' (units 2^-k, k <= PS+2) agrees with the definition *)
ImgTol(sys, I, m, w(_), s, v) == 2^(PS + 2 - 12) + CountSel(sys, I, m, w, s, v) + BackAbs(sys, I, m, w, s, v) \div 2^RelShift
ImgOk(sys, I, m, w(_), s, v, out12, o0) ==
  Abs((out12 - o0 * 2^12) * 2^(PS + 2 - 12) - BackW(sys, I, m, w, s, v)) <= ImgTol(sys, I, m, w, s, v)

RealGradOk(sys, I, m, s, v, out12) == LET w(b) == WGrad(I, b) IN ImgOk(sys, I, m, w, s, v, out12, 0)
RealGradPlusSensOk(sys, I, m, s, v, out12) == LET w(b) == WQuot(I, b) IN ImgOk(sys, I, m, w, s, v, out12, 0)
RealSensOk(sys, I, m, s, v, out12, o0) == LET w(b) == WEff(I, b) IN ImgOk(sys, I, m, w, s, v, out12, o0)
(* reported subset sensitivity without use_subset_sensitivities: total / N *)
RealReportedSensOk(sys, I, m, s, v, out12) ==
  IF I.uss \/ s = -1 THEN RealSensOk(sys, I, m, s, v, out12, 0)
  ELSE LET w(b) == WEff(I, b) IN
       Abs(I.N * out12 * 2^(PS + 2 - 12) - BackW(sys, I, m, w, -1, v)) <= I.N * 2^(PS + 2 - 12) + ImgTol(sys, I, m, w, -1, v)

(* Hessian times x:  - P_S^T ( r (Px) ), in units of 2^-10.  (Px)_b = m.px[b] in units of 2^-PS (< 2^21);       *)
(* the product P * r Px (< 2^37) is formed by 11-bit limbs of the second factor and reduced to 2^-10 at once. *)
MulShift(A, Bv) == LET b1 == Bv \div 2048
                       b0 == Bv % 2048
                   IN (A * b1) \div 2^(2 * PS - 10 - 11) + (A * b0) \div 2^(2 * PS - 10)
RealHess10(sys, I, m, s, v) ==
  -Sum([i \in 1..Len(sys.cols[v]) |->
          LET b == sys.cols[v][i][1] IN
          IF Sel(sys, I, m, b, s) THEN MulShift(sys.cols[v][i][2], I.r[b] * m.px[b]) ELSE 0])
RealHessTol(sys, I, m, s, v) ==
  \* per selected column entry: two floor divisions, quantisation of P in both factors (< 4 units of 2^-10)
  LET w(b) == 1 IN 1 + 6 * CountSel(sys, I, m, w, s, v) + (-RealHess10(sys, I, m, s, v)) \div 2^(RelShift - 1)
RealHessOk(sys, I, m, s, v, out10, o0) ==
  Abs(out10 - o0 * 2^10 - RealHess10(sys, I, m, s, v)) <= RealHessTol(sys, I, m, s, v)

(* Value: ln2 * SUM y (log2 K + ef) - SUM n K over the used bins; the mean's relative error     *)
(* 2^-13 enters y log d and n d linearly.                                                       *)
RealValueBin(sys, I, m, b, s) == Sel(sys, I, m, b, s)
RealValueA(sys, I, m, s) ==
  Sum([b \in 1..NB(sys) |-> IF RealValueBin(sys, I, m, b, s) THEN I.r[b] * I.K[b] * I.K[b] * (Lg(I.K[b]) + I.ef[b]) ELSE 0])
RealValueB(sys, I, m, s) ==        \* 4 SUM n K
  Sum([b \in 1..NB(sys) |-> IF RealValueBin(sys, I, m, b, s) THEN WEff(I, b) * I.K[b] ELSE 0])
RealCounts(sys, I, m, s) ==
  Sum([b \in 1..NB(sys) |-> IF RealValueBin(sys, I, m, b, s) THEN I.r[b] * I.K[b] * I.K[b] ELSE 0])
RealValueVK(sys, I, m, s) == MulLn2(RealValueA(sys, I, m, s)) - RealValueB(sys, I, m, s) * (2^VK \div 4)
RealValueTol(sys, I, m, s) == ValueTol + (RealCounts(sys, I, m, s) + RealValueB(sys, I, m, s)) \div 8
=============================================================================
