SPECIFICATION Spec
CONSTANTS
  MaxLen = 3
  Symbols = {1, 2, 3, 4, 9, 11}
  SegIMs = {1, 2}
  TofIMs = {3}
  FrameIds = {0, 1}
  StoreIds = {1, 2}
  NStores = {0, 1}
  Freshes = {TRUE, FALSE}
  MaxSegs = {0}
  FixEmpty = TRUE
INVARIANTS InvBatches InvOut InvPartition InvPos InvCount
CHECK_DEADLOCK FALSE
