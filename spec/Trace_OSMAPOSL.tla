-------------------------- MODULE Trace_OSMAPOSL --------------------------
(* Trace validation for C07: every line recorded from the real               *)
(* OSMAPOSLReconstruction (driver harness/c07_osmaposl.cxx) must be          *)
(* explained by OSMAPOSL.tla.                                                *)
(*   System    the explicit matrix P (rows and columns)                      *)
(*   Instance  one reconstruction object: mode (exact | free), number of     *)
(*             subsets, start subset, additive term, efficiencies, subset    *)
(*             sensitivities on/off, prior and MAP model, filter intervals,  *)
(*             number of sub-iterations K (free mode: the data y)            *)
(*   SetUp     result of OSMAPOSLReconstruction::set_up                      *)
(*   Start     free mode: the image the iterations start from                *)
(*   Step      one sub-iteration k.  exact mode: integer image lam and exact *)
(*             data y it was started from; free mode: the image saved after  *)
(*             k (read back from the file), previous image = previous line.  *)
(*             out = new image (scale 2^ik), pg = prior gradient at the old  *)
(*             image (scale 2^gk), L0/L1 = log-likelihood before/after       *)
(*             (scale 2^lk), bh/bl = raw float bits of the new image         *)
(*   Scale     exact mode: the sub-iteration of the Step line above repeated *)
(*             with image and additive term times 2^ki or data times 2^kd:   *)
(*             raw bits of the new image, and the new image with the data     *)
(*             scale taken out again in the form of Step.out                  *)
(*   Final     free mode: bits of the image in memory after the run          *)
(*   Resume    restart from the file saved after k: bits of the image read   *)
(*             (from) and of the image after set_up (after); variant 0 =     *)
(*             fresh objects, initial positivity enforcement as configured,  *)
(*             1 = fresh objects, enforcement off, 2 = same object continues *)
(*             3 = (k = 0) the same objects set up and run again from the    *)
(*             start image after a set_up and run with other subsets         *)
(*             4 = (k = 0) FRESH objects with the settings of this Instance, *)
(*             which describes RE-USED objects (reuse = TRUE: the objects of  *)
(*             the previous Instance after one setting was changed through   *)
(*             the setters and a new set_up): the re-used objects' run must  *)
(*             be the fresh objects' run                                     *)
(*             5 = (k = 0) fresh objects started from 2^ks times the start   *)
(*             image (no additive term, prior, filters)                      *)
(*   Cont      an image saved by the resumed run after sub-iteration j       *)
(* Unexplained lines are collected with a class: "new" (violation),          *)
(* "domain" (the step is outside the range in which TLC can evaluate the     *)
(* update law: counted by the runner, not a verdict) or the id of a known    *)
(* finding.                                                                  *)
EXTENDS OSMAPOSL, TraceLib
VARIABLES l, sys, I, st, ready, cur, curL, saved, res, base, bad, cnt

NoSys == [id |-> 0]
NoInst == [sysid |-> -1]
SysOf(r) == [id |-> r.id, tof |-> r.tof, nv |-> r.nv, numViews |-> r.numViews, minView |-> r.minView, minAx0 |-> r.minAx0,
             maxAx0 |-> r.maxAx0, maxSegData |-> r.maxSegData, bins |-> r.bins, rows |-> r.rows, cols |-> r.cols]
InstOf(r, s) == [sysid |-> r.sys, mode |-> r.mode, N |-> r.N, startSubset |-> r.startSubset, additive |-> r.additive, uss |-> r.uss,
                 prior |-> r.prior, mult |-> r.mult, iuf |-> r.iuf, iif |-> r.iif, eip |-> r.eip, K |-> r.K,
                 a |-> r.a, ef |-> r.ef, y |-> IF Has(r, "y") THEN r.y ELSE <<>>,
                 \* "convention: if -1, use get_max_segment_num()"
                 zero |-> IF Has(r, "zero") THEN r.zero ELSE FALSE,
                 maxSeg |-> IF Has(r, "maxSeg") /\ r.maxSeg >= 0 THEN r.maxSeg ELSE s.maxSegData]
ShapeOk(r, s) ==
  /\ s # NoSys /\ r.sys = s.id /\ ~s.tof
  /\ (Has(r, "maxSeg") => r.maxSeg \in -1..s.maxSegData)
  /\ r.mode \in {"exact", "free"} /\ r.ik = IK /\ r.gk = GK /\ r.lk = LK /\ r.K >= 1
  /\ InstanceOk7(s, [N |-> r.N, startSubset |-> r.startSubset, a |-> r.a, ef |-> r.ef, prior |-> r.prior, iuf |-> r.iuf, iif |-> r.iif])
  /\ (r.additive \/ \A b \in 1..Len(r.a) : r.a[b] = 0)
  /\ (r.mode = "free" => Has(r, "y") /\ Len(r.y) = Len(s.bins) /\ \A b \in 1..Len(r.y) : r.y[b] >= 0 /\ r.y[b] < 65536)

Bits(h, lo) == << h, lo >>
BitsOk(r, hk, lk) == Has(r, hk) /\ Has(r, lk) /\ Len(r[hk]) = sys.nv /\ Len(r[lk]) = sys.nv
(* a float is positive: sign bit clear and not zero *)
Positive(h, lo) == h < 32768 /\ (h > 0 \/ lo > 0)

NoAdditive == \A b \in 1..Len(I.a) : I.a[b] = 0

(* ---- one sub-iteration ---------------------------------------------------------------------- *)
StepShape(r) ==
  /\ I # NoInst /\ ready /\ Has(r, "err") /\ ~r.err
  /\ Has(r, "out") /\ Len(r.out) = sys.nv /\ Has(r, "L1") /\ Has(r, "verr") /\ ~r.verr
  /\ r.k \in 1..I.K
  /\ (I.prior # 0 => Has(r, "pg") /\ Len(r.pg) = sys.nv /\ ~Has(r, "pgerr"))
  /\ IF I.mode = "exact" THEN Has(r, "lam") /\ Has(r, "y") /\ Has(r, "L0") /\ ExactStep(sys, I, r.lam, r.y) /\ BitsOk(r, "bh", "bl")
     ELSE BitsOk(r, "bh", "bl") /\ cur # <<>> /\ (r.k - 1) \in DOMAIN saved /\ r.k \notin DOMAIN saved

(* <<class, law evaluated, log-likelihood clause evaluated, count clause evaluated>> (the last three 0/1, for the runner's counts) *)
StepClass(r) ==
  IF ~StepShape(r) THEN << "new", 0, 0, 0 >>
  ELSE
  LET k == r.k
      s == SubsetAt(I, k)
      exact == I.mode = "exact"
      prev == IF exact THEN [v \in 1..sys.nv |-> r.lam[v] * P2IK] ELSE cur
      el == IF exact THEN 0 ELSE 1
      y == IF exact THEN r.y ELSE I.y
      g == IF I.prior # 0 THEN r.pg ELSE <<>>
      eg == IF I.prior # 0 /\ ~r.pgx THEN 1 ELSE 0
      L0 == IF exact THEN r.L0 ELSE curL
      zp == IF exact THEN [v \in 1..sys.nv |-> r.lam[v] = 0]
            ELSE [v \in 1..sys.nv |-> saved[k - 1][1][v] % 32768 = 0 /\ saved[k - 1][2][v] = 0]     \* raw bits of the old image: +0 or -0
      plain == ~Filtered(I, k)                       \* no filter fires in this sub-iteration
      ll == IF I.N = 1 /\ I.prior = 0 /\ plain THEN 1 ELSE 0
  IN
  \* "non-negative images stay non-negative" (every configuration, filters included)
  IF ~NonNegative(r.out) THEN << "new", 0, 0, 0 >>
  \* "zero where the subset sensitivity s_S is zero"
  ELSE IF ~IifFires(I, k) /\ ~ZeroWhereInsensitive(sys, I, st, s, r.out) THEN << "new", 0, 0, 0 >>
  \* "with a single subset the Poisson log-likelihood never decreases"
  ELSE IF ll = 1 /\ ~LLNotDecreased(L0, r.L1) THEN << "new", 0, 1, 0 >>
  ELSE IF ~plain THEN << "ok", 0, 0, 0 >>                            \* filters on: only positivity is claimed
  ELSE IF ~StepInDomain(sys, I, prev, y, g, s) THEN << "domain", 0, ll, 0 >>
  ELSE
  \* the update law (EM, or one step late with the documented bounds on the denominator)
  LET verdicts == { VoxelVerdict(sys, I, st, prev, y, el, g, eg, s, v, r.out[v], zp[v]) : v \in 1..sys.nv } IN
  IF 1 \in verdicts THEN << "new", 1, ll, 0 >>
  ELSE IF 2 \in verdicts THEN << "domain", 0, ll, 0 >>
  \* "without additive term the sensitivity-weighted image sum equals the total of the measured counts after every full-data update"
  ELSE IF I.N = 1 /\ I.prior = 0 /\ NoAdditive /\ CountsSeen(sys, I, prev, y)
       THEN (IF PreservesCounts(sys, I, st, y, r.out, 1) THEN << "ok", 1, ll, 1 >> ELSE << "new", 1, ll, 1 >>)
  ELSE << "ok", 1, ll, 0 >>

(* ---- the same sub-iteration at another scale --------------------------------------------------- *)
NoBase == [k |-> -1]
BaseOf(r) == [k |-> r.k, lam |-> r.lam, y |-> r.y, bits |-> Bits(r.bh, r.bl)]
(* <<class, count clause evaluated>> *)
ScaleClass(r) ==
  IF ~(I # NoInst /\ ready /\ I.mode = "exact" /\ base # NoBase /\ r.k = base.k /\ Has(r, "err") /\ ~r.err
       /\ BitsOk(r, "bh", "bl") /\ Has(r, "out") /\ Len(r.out) = sys.nv /\ (r.ki # 0 \/ r.kd # 0)
       /\ ScaleApplies(I, r.ki, r.kd, NoAdditive)) THEN << "new", 0 >>
  ELSE IF ~(ScaleDomain(sys, I, base.lam, base.y, r.ki, r.kd) /\ ShiftAllOk(base.bits, r.kd)) THEN << "domain", 0 >>
  \* (S1), (S2): the new image is the one of the unscaled sub-iteration times 2^kd, bit for bit
  ELSE IF Bits(r.bh, r.bl) # ShiftBits(base.bits, r.kd) THEN << "new", 0 >>
  \* "... equals the total of the measured counts after every full-data update" at every scale
  ELSE IF I.N = 1 /\ I.prior = 0 /\ NoAdditive /\ CountsSeen(sys, I, [v \in 1..sys.nv |-> base.lam[v]], base.y)
       THEN (IF PreservesCounts(sys, I, st, base.y, r.out, 1) THEN << "ok", 1 >> ELSE << "new", 1 >>)
  ELSE << "ok", 0 >>

(* ---- restart --------------------------------------------------------------------------------- *)
NoRes == [k |-> -1, variant |-> -1, changed |-> FALSE]
ResumeShape(r) ==
  /\ I # NoInst /\ ready /\ I.mode = "free" /\ Has(r, "err") /\ ~r.err
  /\ r.variant \in 0..5 /\ r.k \in DOMAIN saved /\ (IF r.variant >= 3 THEN r.k = 0 ELSE r.k >= 1) /\ r.k < I.K
  \* variant 5: the start image times 2^ks; the run does not depend on it without additive term, prior and filters (S1)
  /\ (r.variant = 5 => Has(r, "ks") /\ r.ks \in 1..24 /\ ScaleApplies(I, r.ks, 0, NoAdditive) /\ NoAdditive /\ ShiftAllOk(saved[0], r.ks))
  /\ BitsOk(r, "fromh", "froml") /\ BitsOk(r, "afterh", "afterl")
ResumeClass(r) ==
  IF ~ResumeShape(r) THEN "new"
  \* the file read back is the image that was saved
  ELSE IF Bits(r.fromh, r.froml) # (IF r.variant = 5 THEN ShiftBits(saved[0], r.ks) ELSE saved[r.k]) THEN "new"
  \* set_up leaves the image alone, except that "the program will set all non-positive voxel values in the initial
  \* estimate to small positive ones" when the positivity condition is enforced (variant 0: as configured); leaving
  \* them alone on a resume is accepted as well (that is what the restart clause needs, see notes/C07-fix-1.diff)
  ELSE IF \A v \in 1..sys.nv :
            IF Positive(r.fromh[v], r.froml[v]) \/ ~(r.variant \in {0, 3, 4, 5} /\ I.eip)
            THEN r.afterh[v] = r.fromh[v] /\ r.afterl[v] = r.froml[v]
            ELSE Positive(r.afterh[v], r.afterl[v]) \/ (r.afterh[v] = r.fromh[v] /\ r.afterl[v] = r.froml[v])
       THEN "ok" ELSE "new"
ResOf(r) == IF ResumeShape(r) THEN [k |-> r.k, variant |-> r.variant, changed |-> Bits(r.afterh, r.afterl) # Bits(r.fromh, r.froml)]
            ELSE NoRes

(* "A reconstruction resumed at sub-iteration k+1 from the image saved after sub-iteration k produces the same images   *)
(*  as the uninterrupted run" - bit for bit.                                                                          *)
ContClass(r) ==
  IF ~(I # NoInst /\ ready /\ res # NoRes /\ r.k = res.k /\ r.variant = res.variant /\ r.j \in DOMAIN saved /\ r.j > r.k
       /\ Has(r, "err") /\ ~r.err /\ BitsOk(r, "bh", "bl")) THEN "new"
  ELSE IF Bits(r.bh, r.bl) = saved[r.j] THEN "ok"
  \* known finding: with the (default) initial positivity enforcement the resumed run starts from an image in which the
  \* zeros of the saved image were replaced by small positive values, so it is not the uninterrupted run any more
  ELSE IF res.variant = 0 /\ res.changed THEN "C07-restart-positivity"
  ELSE "new"

Class(r) ==
  CASE r.e = "System" -> IF SystemOk(SysOf(r)) /\ ~r.tof THEN "ok" ELSE "new"
    [] r.e = "Instance" -> IF ShapeOk(r, sys) THEN "ok" ELSE "new"
    [] r.e = "SetUp" ->
         \* OSMAPOSL sets up exactly the balanced numbers of subsets ("OSMAPOSL cannot handle this" otherwise)
         IF I # NoInst /\ (r.ok /\ ~r.err) = Balanced(sys, I.N) /\ (r.ok => r.usedN = I.N) THEN "ok" ELSE "new"
    [] r.e = "Start" ->
         IF I # NoInst /\ ready /\ I.mode = "free" /\ Has(r, "out") /\ Len(r.out) = sys.nv /\ NonNegative(r.out) /\ ~r.verr
            /\ BitsOk(r, "bh", "bl") /\ saved = <<>> THEN "ok" ELSE "new"
    [] r.e = "Step" -> StepClass(r)[1]
    [] r.e = "Scale" -> ScaleClass(r)[1]
    [] r.e = "Final" ->
         IF I # NoInst /\ ready /\ I.mode = "free" /\ BitsOk(r, "bh", "bl") /\ I.K \in DOMAIN saved /\ Bits(r.bh, r.bl) = saved[I.K]
         THEN "ok" ELSE "new"
    [] r.e = "Resume" -> ResumeClass(r)
    [] r.e = "Cont" -> ContClass(r)
    [] r.e = "End" -> IF r.lines >= l - 1 THEN "ok" ELSE "new"      \* (traces are validated in chunks: l counts from the chunk start)
    [] OTHER -> "new"                                                \* RunError, Abort, anything unknown

Init == l = 1 /\ sys = NoSys /\ I = NoInst /\ st = <<>> /\ ready = FALSE /\ cur = <<>> /\ curL = 0 /\ saved = <<>> /\ res = NoRes /\ base = NoBase /\ bad = <<>> /\ cnt = << 0, 0, 0, 0, 0, 0, 0 >>

Next ==
  /\ l <= Len(TraceLog)
  /\ LET r == TraceLog[l]
         newI == r.e = "Instance" /\ ShapeOk(r, sys)
         stepOk == r.e = "Step" /\ StepShape(r)
     IN
     \* unexplained lines are collected (all "new" ones up to 300; of every other class the first 40), and counted
     /\ LET sc == IF r.e = "Step" THEN StepClass(r)
               ELSE IF r.e = "Scale" THEN (LET q == ScaleClass(r) IN << q[1], 0, 0, q[2] >>)
               ELSE << Class(r), 0, 0, 0 >>
            c == sc[1]
            other == IF c \in {"ok", "new", "domain"} THEN 0 ELSE 1
        IN /\ bad' = IF c = "ok" THEN bad
                     ELSE IF c = "new" THEN (IF cnt[7] < 300 THEN Append(bad, << l, c >>) ELSE bad)
                     ELSE IF (c = "domain" /\ cnt[5] < 40) \/ (other = 1 /\ cnt[6] < 40) THEN Append(bad, << l, c >>) ELSE bad
           \* steps with the law evaluated, log-likelihood clauses, count clauses, restart comparisons, domain, known findings, new
           /\ cnt' = << cnt[1] + sc[2], cnt[2] + sc[3], cnt[3] + sc[4], cnt[4] + (IF r.e \in {"Cont", "Scale"} /\ c = "ok" THEN 1 ELSE 0),
                        cnt[5] + (IF c = "domain" THEN 1 ELSE 0), cnt[6] + other, cnt[7] + (IF c = "new" THEN 1 ELSE 0) >>
     /\ sys' = IF r.e = "System" THEN SysOf(r) ELSE sys
     /\ I' = IF r.e = "Instance" THEN (IF newI THEN InstOf(r, sys) ELSE NoInst)
             ELSE IF r.e = "System" THEN NoInst ELSE I
     /\ st' = IF newI THEN SensTab(sys, InstOf(r, sys)) ELSE IF r.e \in {"System", "Instance"} THEN <<>> ELSE st
     /\ ready' = IF r.e = "SetUp" THEN (I # NoInst /\ r.ok /\ ~r.err /\ Balanced(sys, I.N))
                 ELSE IF r.e \in {"System", "Instance"} THEN FALSE ELSE ready
     /\ cur' = IF r.e \in {"System", "Instance"} THEN <<>>
               ELSE IF r.e = "Start" /\ Has(r, "out") THEN r.out
               ELSE IF stepOk /\ I.mode = "free" THEN r.out ELSE cur
     /\ curL' = IF r.e = "Start" /\ Has(r, "L") THEN r.L ELSE IF stepOk /\ I.mode = "free" THEN r.L1 ELSE curL
     /\ saved' = IF r.e \in {"System", "Instance"} THEN <<>>
                 ELSE IF r.e = "Start" /\ Has(r, "bh") /\ Has(r, "bl") THEN (0 :> Bits(r.bh, r.bl))
                 ELSE IF stepOk /\ I.mode = "free" THEN (r.k :> Bits(r.bh, r.bl)) @@ saved ELSE saved
     /\ base' = IF stepOk /\ I.mode = "exact" THEN BaseOf(r) ELSE IF r.e = "Scale" THEN base ELSE NoBase
     /\ res' = IF r.e = "Resume" THEN ResOf(r) ELSE IF r.e \in {"System", "Instance"} THEN NoRes ELSE res
  /\ l' = l + 1
Spec == Init /\ [][Next]_<<l, sys, I, st, ready, cur, curL, saved, res, base, bad, cnt>>

\* evaluated in the final state only (no successor): prints the unexplained lines
Done == l > Len(TraceLog) => (PrintT(<<"COUNTS", cnt>>) /\ (bad = <<>> \/ PrintT(<<"UNEXPLAINED", bad>>)))
Consumed == IF TLCGet("stats").diameter - 1 = Len(TraceLog) THEN TRUE
            ELSE PrintT(<<"REJECTED_AT", TLCGet("stats").diameter>>) /\ FALSE
=============================================================================
