SPECIFICATION Spec
CONSTANTS MaxRows = 2 Dim3 = TRUE
INVARIANTS T_Iteration T_Resize T_Add T_Sub T_View T_Shape
CHECK_DEADLOCK FALSE
