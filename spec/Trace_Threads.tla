--------------------------- MODULE Trace_Threads ---------------------------
(* C18 - validation of recorded OpenMP executions of the real code against  *)
(* the synchronisation rules of ThreadRules.tla (the rules that Threads.tla *)
(* is model-checked with).  One trace line = one step.                      *)
(*                                                                          *)
(* A trace is a sequence of instances; an instance is a reference run (the  *)
(* same calls with 1 thread) followed by runs with T threads.  A run is     *)
(*   Run  - hook events merged by their global sequence number -  Out* - EndRun. *)
(* Every hook event carries the OS thread t that emitted it.  WHAT THE      *)
(* ORDER OF TWO EVENTS MEANS depends on where the call-out sits in the code *)
(* (checked site by site in /repo, see notes/C18.md):                       *)
(*  * lazy.enter/leave/fill.begin/fill.end/flag sit INSIDE the named        *)
(*    critical section, cache.lookup/insert inside the per-(view,segment)   *)
(*    lock: their order is the order of the protected operations and is     *)
(*    checked exactly (mutual exclusion, cache content);                    *)
(*  * lazy.read, lazy.use, sc.get, bp.item, dist.item sit OUTSIDE any lock: *)
(*    the sequence number is taken after the read they report.  Only        *)
(*    conclusions that survive an arbitrary delay between the read and the  *)
(*    call-out are drawn: per-thread program order, and "a set flag / a     *)
(*    cache hit was seen => the fill.end / a miss of that key was logged    *)
(*    EARLIER" (the writer's event precedes its write, the write precedes   *)
(*    the read, the read precedes the reader's event).  A read of an unset  *)
(*    flag may be logged arbitrarily late and is always accepted.           *)
(*  * the events do not identify the object.  Critical sections are global  *)
(*    (named), so mutual exclusion is checked across objects; the flag of   *)
(*    an object is tracked across critical sections only in runs that can   *)
(*    reach exactly one object per table (Run.objs = 1, "strict"),          *)
(*    otherwise every critical section is checked on its own.               *)
(* THREAD-COUNT HISTORIES: a run builds and sets up its objects with Run.T  *)
(* threads and then repeats the compute calls on the SAME objects once per  *)
(* entry of Run.hist (a "phase" mark carries the new thread count; targets  *)
(* are fresh, nothing is set up again).  Every phase must reproduce the     *)
(* calls, work items and outputs of the 1-thread reference: nothing of an   *)
(* earlier call or phase may leak into a later result.                      *)
(* Unexplained lines are collected (line, reason); the rest of that run is  *)
(* skipped (and the rest of the instance if the reference run is bad).      *)
EXTENDS ThreadRules, TraceLib
VARIABLES l, m, ref, bad, skip, nchk

\* ---------------------------------------------------------------- helpers
CritOf(id) == IF id \in {1, 4} THEN 1 ELSE IF id \in {2, 5} THEN 2 ELSE 3      \* the named critical sections (ids 4,5 share the names of 1,2)
FreeCS == [owner |-> -1, id |-> 0, z |-> ZNew]
N(r) == IF Has(r, "n") THEN r.n ELSE 1
BagAdd(b, x) == IF x \in DOMAIN b THEN [b EXCEPT ![x] = @ + 1]
                ELSE [y \in (DOMAIN b) \cup {x} |-> IF y = x THEN 1 ELSE b[y]]
EmptyBag == [x \in {} |-> 0]

NewRun(r) ==
  [strict |-> r.objs = 1, mats |-> r.mats, isref |-> r.ref, T |-> r.T, nph |-> Len(r.hist), ph |-> 0,
   cs |-> << FreeCS, FreeCS, FreeCS >>,
   obj |-> [i \in 1..5 |-> [flag |-> FALSE, fills |-> 0]],
   nEnd |-> [i \in 1..5 |-> 0],
   r0 |-> {}, rdy |-> {}, seen1 |-> {}, ctor |-> {},
   cache |-> EmptyBag, miss |-> {},
   scMiss |-> {}, scSeen |-> {},
   call |-> 0, inCall |-> FALSE, items |-> EmptyBag, slot |-> {}, bpdirty |-> {}, distdirty |-> {},
   redbp |-> RedIdle, reddist |-> RedIdle, outs |-> {}]
NoRun == [strict |-> FALSE, mats |-> 0, isref |-> FALSE, T |-> 0, nph |-> 0, ph |-> 0, cs |-> << FreeCS, FreeCS, FreeCS >>,
          obj |-> [i \in 1..5 |-> [flag |-> FALSE, fills |-> 0]], nEnd |-> [i \in 1..5 |-> 0],
          r0 |-> {}, rdy |-> {}, seen1 |-> {}, ctor |-> {}, cache |-> EmptyBag, miss |-> {}, scMiss |-> {}, scSeen |-> {},
          call |-> 0, inCall |-> FALSE, items |-> EmptyBag, slot |-> {}, bpdirty |-> {}, distdirty |-> {},
          redbp |-> RedIdle, reddist |-> RedIdle, outs |-> {}]
NoRef == [ok |-> FALSE, names |-> <<>>, items |-> <<>>, outs |-> {}, inst |-> 0, wl |-> "", phaseCall |-> 0]

InCS(t, id) == m.cs[CritOf(id)].owner = t /\ m.cs[CritOf(id)].id = id
ZIn(id) == m.cs[CritOf(id)].z
CtorStage(t, id) == IF << t, id, 1 >> \in m.ctor THEN 1 ELSE IF << t, id, 2 >> \in m.ctor THEN 2 ELSE 0
Key(r) == << r.k[1], r.k[2], r.k[3], r.k[4] >>
ScKey(r) == << r.k[1], r.k[2] >>
\* an accumulator slot (kind, thread number) belongs to one thread only
SlotOK(kind, tn, t) == \A s \in m.slot : (s[1] = kind /\ s[2] = tn) => s[3] = t
RefLineOf(name) == (CHOOSE p \in ref.outs : p[1] = name)[2]

(***************************************************************************)
(* Verdict of one hook event in the current run: "ok" or the clause of the *)
(* property it breaks.                                                     *)
(***************************************************************************)
VLazy(r) ==
  LET t == r.t  id == r.id IN
  IF id \notin 1..5 THEN "unknown-table"
  ELSE CASE r.e = "lazy.read" ->
         \* ReadFlag.  DCL shape: an unset flag is followed by EnterCritical of the same thread.
         IF << t, id >> \in m.r0 \/ InCS(t, id) \/ CtorStage(t, id) # 0 THEN "read-out-of-order"
         ELSE IF r.v = 1 /\ m.nEnd[id] = 0 THEN "flag-seen-before-fill-complete"       \* "flag set after the fill"
         ELSE IF r.v = 0 /\ N(r) > 1 THEN "read-out-of-order"
         ELSE IF r.v = 0 /\ m.strict /\ << t, id >> \in m.seen1 THEN "flag-went-back"
         ELSE "ok"
    [] r.e = "lazy.enter" ->
         IF << t, id >> \notin m.r0 THEN "enter-without-read"
         ELSE IF m.cs[CritOf(id)].owner # -1 THEN "mutual-exclusion"                     \* "at most one process inside"
         ELSE IF r.v = 1 /\ m.nEnd[id] = 0 THEN "flag-seen-before-fill-complete"
         ELSE IF m.strict /\ (r.v = 1) # m.obj[id].flag THEN "flag-value-in-critical"
         ELSE "ok"
    [] r.e = "lazy.fill.begin" ->
         IF InCS(t, id) THEN
            IF ZIn(id).flag THEN "fill-although-flag-set"                                  \* RecheckFlag
            ELSE IF ZIn(id).tab # 0 \/ ZIn(id).fills # 0 THEN "filled-twice"               \* "filled once"
            ELSE "ok"
         ELSE IF << t, id >> \in m.r0 THEN "fill-outside-critical"
         ELSE IF CtorStage(t, id) # 0 THEN "fill-out-of-order"
         ELSE "ok"                                                                         \* filled by a constructor (object not yet shared)
    [] r.e = "lazy.fill.end" ->
         IF InCS(t, id) THEN (IF ZFillEndOK(ZIn(id)) THEN "ok" ELSE "fill-out-of-order")
         ELSE IF CtorStage(t, id) = 1 THEN "ok" ELSE "fill-out-of-order"
    [] r.e = "lazy.flag" ->
         IF InCS(t, id) THEN (IF ZSetFlagOK(ZIn(id)) THEN "ok" ELSE "flag-set-before-fill-complete")   \* "SetFlag (last)"
         ELSE IF CtorStage(t, id) = 2 THEN "ok" ELSE "flag-set-before-fill-complete"
    [] r.e = "lazy.leave" ->
         IF ~InCS(t, id) THEN "leave-without-enter"
         ELSE IF ~ZLeaveOK(ZIn(id)) \/ r.v # 1 THEN "left-critical-with-table-incomplete"
         ELSE "ok"
    [] r.e = "lazy.use" ->
         IF << t, id >> \notin m.rdy THEN "use-without-check"
         ELSE IF r.size < 1 \/ m.nEnd[id] = 0 THEN "use-of-incomplete-table"              \* "UseTable only when complete"
         ELSE "ok"
    [] OTHER -> "unknown-event"

ULazy(r) ==
  LET t == r.t  id == r.id  c == CritOf(id)  p == << t, id >> IN
  CASE r.e = "lazy.read" ->
         IF r.v = 1 THEN [m EXCEPT !.rdy = @ \cup {p}, !.seen1 = @ \cup {p}]
         ELSE [m EXCEPT !.rdy = @ \ {p}, !.r0 = @ \cup {p}]
    [] r.e = "lazy.enter" ->
         [m EXCEPT !.r0 = @ \ {p},
                   !.cs[c] = [owner |-> t, id |-> id, z |-> ZSeen(r.v = 1, IF m.strict THEN m.obj[id].fills ELSE 0)]]
    [] r.e = "lazy.fill.begin" ->
         IF InCS(t, id) THEN [m EXCEPT !.cs[c].z = ZFillBegin(@)]
         ELSE [m EXCEPT !.ctor = @ \cup {<< t, id, 1 >>}, !.rdy = @ \ {p}]
    [] r.e = "lazy.fill.end" ->
         IF InCS(t, id) THEN [m EXCEPT !.cs[c].z = ZFillEnd(@), !.nEnd[id] = @ + 1]
         ELSE [m EXCEPT !.ctor = (@ \ {<< t, id, 1 >>}) \cup {<< t, id, 2 >>}, !.nEnd[id] = @ + 1]
    [] r.e = "lazy.flag" ->
         IF InCS(t, id) THEN [m EXCEPT !.cs[c].z = ZSetFlag(@)]
         ELSE [m EXCEPT !.ctor = @ \ {<< t, id, 2 >>}]
    [] r.e = "lazy.leave" ->
         [m EXCEPT !.cs[c] = FreeCS, !.obj[id] = [flag |-> TRUE, fills |-> m.cs[c].z.fills],
                   !.rdy = @ \cup {p}, !.seen1 = @ \cup {p}]
    [] r.e = "lazy.use" -> [m EXCEPT !.rdy = @ \ {p}]

CacheCnt(k) == IF k \in DOMAIN m.cache THEN m.cache[k] ELSE 0       \* effective inserts of key k so far
VCache(r) ==
  IF m.mats < 1 THEN "cache-event-without-matrix"
  ELSE CASE r.e = "cache.lookup" ->
         IF CacheLookupOK(CacheCnt(Key(r)), r.f, m.mats) THEN "ok"
         ELSE IF r.f = 0 THEN "cache-entry-lost" ELSE "cache-entry-from-nowhere"                 \* "nothing lost"
    [] r.e = "cache.insert" ->
         IF << r.t, Key(r) >> \notin m.miss THEN "insert-without-lookup"                          \* Lookup / Compute / Insert
         ELSE IF CacheInsertOK(CacheCnt(Key(r)), r.c, m.mats) THEN "ok"
         ELSE IF r.c = 0 THEN "second-effective-insert-of-key" ELSE "cache-entry-from-nowhere"   \* "one effective insert per key"
    [] r.e = "cache.clear" -> "ok"
    [] OTHER -> "unknown-event"
UCache(r) ==
  CASE r.e = "cache.lookup" -> IF r.f = 0 THEN [m EXCEPT !.miss = @ \cup {<< r.t, Key(r) >>}] ELSE m
    [] r.e = "cache.insert" -> [m EXCEPT !.cache = IF r.c = 0 THEN BagAdd(@, Key(r)) ELSE @, !.miss = { x \in @ : x[1] # r.t }]
    \* clear_cache() is called by set_up, i.e. before the object's maps are used; with one object the content restarts
    [] r.e = "cache.clear" -> IF m.mats = 1 THEN [m EXCEPT !.cache = EmptyBag, !.miss = {}] ELSE m

VWork(r) ==
  CASE r.e = "bp.item" ->
         IF ~m.inCall THEN "work-item-outside-call"
         ELSE IF ~SlotOK(1, r.tn, r.t) THEN "accumulator-shared-by-threads"
         ELSE IF m.redbp # RedIdle THEN "work-item-during-reduction"
         ELSE "ok"
    [] r.e = "dist.item" ->
         IF ~m.inCall THEN "work-item-outside-call"
         ELSE IF ~SlotOK(2, r.tn, r.t) THEN "accumulator-shared-by-threads"
         ELSE IF m.reddist # RedIdle THEN "work-item-during-reduction"
         ELSE "ok"
    [] r.e = "bp.reduce" ->
         IF ~RedStepOK(m.redbp, r.i, r.sz) THEN "reduction-out-of-order"
         ELSE IF r.i \in m.bpdirty /\ r.nn # 1 THEN "reduction-skips-accumulator"
         ELSE IF r.i + 1 = r.sz /\ ~RedCovers(m.bpdirty, r.sz) THEN "reduction-misses-accumulator"   \* "reduce covers every per-thread accumulator"
         ELSE "ok"
    [] r.e = "dist.reduce" ->
         IF ~RedStepOK(m.reddist, r.i, r.sz) THEN "reduction-out-of-order"
         ELSE IF r.i + 1 = r.sz /\ ~RedCovers(m.distdirty, r.sz) THEN "reduction-misses-accumulator"
         ELSE "ok"
    [] OTHER -> "unknown-event"
UWork(r) ==
  CASE r.e = "bp.item" -> [m EXCEPT !.items = BagAdd(@, << 1, r.it[1], r.it[2], 0 >>), !.slot = @ \cup {<< 1, r.tn, r.t >>},
                                    !.bpdirty = @ \cup {r.tn}]
    [] r.e = "dist.item" -> [m EXCEPT !.items = BagAdd(@, << 2, r.it[1], r.it[2], r.it[3] >>), !.slot = @ \cup {<< 2, r.tn, r.t >>},
                                      !.distdirty = @ \cup {r.tn}]
    [] r.e = "bp.reduce" -> [m EXCEPT !.redbp = RedStep(@, r.i, r.sz), !.bpdirty = IF r.i + 1 = r.sz THEN {} ELSE @]
    [] r.e = "dist.reduce" -> [m EXCEPT !.reddist = RedStep(@, r.i, r.sz), !.distdirty = IF r.i + 1 = r.sz THEN {} ELSE @]

\* scatter cache (lock-free: atomic read / atomic write of one float per (scatter point, detector))
VScat(r) ==
  IF r.kind # 1 \/ r.st = 2 THEN "ok"
  ELSE IF r.st = 1 THEN (IF ScKey(r) \in m.scMiss THEN "ok" ELSE "scatter-cache-hit-before-any-miss")
  ELSE IF N(r) > 1 \/ << r.t, ScKey(r) >> \in m.scSeen THEN "scatter-cache-lost-own-write"
  ELSE "ok"
UScat(r) ==
  IF r.kind # 1 \/ r.st = 2 THEN m
  ELSE IF r.st = 1 THEN [m EXCEPT !.scSeen = @ \cup {<< r.t, ScKey(r) >>}]
  ELSE [m EXCEPT !.scMiss = @ \cup {ScKey(r)}, !.scSeen = @ \cup {<< r.t, ScKey(r) >>}]

\* call markers written by the driver between public API calls (all threads are outside parallel regions there)
CloseOK == IF ~m.inCall THEN "ok"
           ELSE IF m.bpdirty # {} THEN "accumulator-never-reduced"
           ELSE IF m.redbp # RedIdle \/ m.reddist # RedIdle THEN "reduction-incomplete"
           ELSE IF m.isref THEN "ok"
           ELSE IF m.call > Len(ref.items) THEN "calls-differ-from-reference"
           ELSE IF m.items # ref.items[m.call] THEN "work-items-differ-from-single-thread-run"    \* "each work item processed exactly once"
           ELSE "ok"
VMark(r) ==
  IF CloseOK # "ok" THEN CloseOK
  ELSE IF r.name = "end" THEN "ok"
  ELSE IF r.name = "phase" THEN
       \* the next thread count of the history: the previous phase must have made all calls of the reference
       IF m.ph + 1 > m.nph THEN "trace-malformed"
       ELSE IF m.isref THEN "ok"
       ELSE IF m.ph = 0 /\ m.call # ref.phaseCall THEN "calls-differ-from-reference"
       ELSE IF m.ph > 0 /\ m.call # Len(ref.names) THEN "calls-differ-from-reference"
       ELSE "ok"
  ELSE IF m.isref THEN "ok"
  ELSE IF m.call + 1 > Len(ref.names) \/ ref.names[m.call + 1] # r.name THEN "calls-differ-from-reference"
  ELSE "ok"
UMark(r) ==
  LET closed == [m EXCEPT !.inCall = FALSE, !.items = EmptyBag, !.slot = {}, !.distdirty = {}] IN
  IF r.name = "end" THEN closed
  ELSE IF r.name = "phase" THEN [closed EXCEPT !.ph = @ + 1, !.call = IF m.isref THEN @ ELSE ref.phaseCall]
  ELSE [closed EXCEPT !.inCall = TRUE, !.call = @ + 1]
RefAfterMark(r) ==
  LET r1 == IF m.isref /\ m.inCall THEN [ref EXCEPT !.items = Append(@, m.items)] ELSE ref IN
  IF ~m.isref \/ r.name = "end" THEN r1
  ELSE IF r.name = "phase" THEN [r1 EXCEPT !.phaseCall = m.call]      \* calls before it belong to the set-up part
  ELSE [r1 EXCEPT !.names = Append(@, r.name)]

\* numeric outputs
MaxOK(r) == /\ \A i \in 1..Len(r.v) : Abs(r.v[i]) <= r.mx
            /\ (Len(r.v) > 0 /\ r.kind = "fx") => \E i \in 1..Len(r.v) : Abs(r.v[i]) = r.mx
VOut(r) ==
  IF r.nonfinite # 0 THEN "output-not-finite"
  ELSE IF r.kind = "fx" /\ ~MaxOK(r) THEN "output-malformed"
  ELSE IF << r.ph, r.name >> \in m.outs \/ r.ph < 0 \/ r.ph > m.nph THEN "output-malformed"
  ELSE IF m.isref THEN "ok"
  ELSE IF ~(\E p \in ref.outs : p[1] = r.name) THEN "output-not-in-reference"
  ELSE LET q == TraceLog[RefLineOf(r.name)] IN
       IF q.kind # r.kind \/ q.k # r.k \/ Len(q.v) # Len(r.v) THEN "output-shape-differs"
       ELSE IF r.kind = "int" THEN (IF q.v = r.v THEN "ok" ELSE "result-differs-from-single-thread-run")
       \* "the result of the single-threaded computation up to floating-point reassociation of the per-thread partial sums"
       ELSE IF \A i \in 1..Len(r.v) : Close(r.v[i], q.v[i], q.mx) THEN "ok"
       ELSE "result-differs-from-single-thread-run"

VEnd(r) ==
  IF r.err THEN "error-thrown"
  ELSE IF \E c \in 1..3 : m.cs[c].owner # -1 THEN "critical-section-never-left"
  ELSE IF m.r0 # {} \/ m.ctor # {} THEN "initialisation-never-finished"
  ELSE IF m.inCall THEN "trace-malformed"
  ELSE IF m.isref THEN (IF m.nph = 1 /\ m.ph = 1 THEN "ok" ELSE "trace-malformed")
  ELSE IF m.ph # m.nph \/ m.call # Len(ref.names) THEN "calls-differ-from-reference"
  \* every phase delivered every output of the reference (outputs of the set-up part carry phase 0)
  ELSE IF \E p \in 1..m.nph : { x[2] : x \in { y \in m.outs : y[1] \in {0, p} } } # { q[1] : q \in ref.outs } THEN "outputs-missing"
  ELSE "ok"

IsLazy(e) == e \in {"lazy.read", "lazy.enter", "lazy.leave", "lazy.fill.begin", "lazy.fill.end", "lazy.flag", "lazy.use"}
IsCache(e) == e \in {"cache.lookup", "cache.insert", "cache.clear"}
IsWork(e) == e \in {"bp.item", "bp.reduce", "dist.item", "dist.reduce"}

Verdict(r) ==
  CASE IsLazy(r.e) -> VLazy(r)
    [] IsCache(r.e) -> VCache(r)
    [] IsWork(r.e) -> VWork(r)
    [] r.e = "sc.get" -> VScat(r)
    [] r.e = "mark" -> VMark(r)
    [] r.e = "Out" -> VOut(r)
    \* a caller inside a parallel region: two guarded calls per thread of the team (beyond-property rule GuardOK)
    [] r.e = "Guard" -> IF r.team >= 1 /\ GuardOK(r.team, 2 * r.team, r.refused, r.accepted) THEN "ok" ELSE "guard-inside-parallel-region"
    [] r.e = "EndRun" -> VEnd(r)
    [] r.e = "Abort" -> "abort"          \* "without ... crashes"
    [] r.e = "Hang" -> "hang"            \* "... or deadlock"
    [] OTHER -> "unknown-event"
Update(r) ==
  CASE IsLazy(r.e) -> ULazy(r)
    [] IsCache(r.e) -> UCache(r)
    [] IsWork(r.e) -> UWork(r)
    [] r.e = "sc.get" -> UScat(r)
    [] r.e = "mark" -> UMark(r)
    [] r.e = "Out" -> [m EXCEPT !.outs = @ \cup {<< r.ph, r.name >>}]
    [] OTHER -> m

Init == l = 1 /\ m = NoRun /\ ref = NoRef /\ bad = <<>> /\ skip = TRUE /\ nchk = [ev |-> 0, out |-> 0, runs |-> 0]
Next ==
  /\ l <= Len(TraceLog)
  /\ l' = l + 1
  /\ LET r == TraceLog[l] IN
     CASE r.e = "Inst" -> /\ ref' = [NoRef EXCEPT !.inst = r.inst, !.wl = r.wl] /\ m' = NoRun /\ skip' = TRUE /\ UNCHANGED << bad, nchk >>
       [] r.e = "EndInst" -> UNCHANGED << m, ref, bad, skip, nchk >>
       [] r.e = "Run" ->
            \* the first run of an instance is its reference run (1 thread); later runs need a good reference
            IF r.ref THEN /\ m' = NewRun(r) /\ ref' = [NoRef EXCEPT !.inst = r.inst, !.wl = r.wl, !.ok = (r.T = 1 /\ r.inst = ref.inst)]
                          /\ skip' = ~(r.T = 1 /\ r.inst = ref.inst)
                          /\ bad' = IF r.T = 1 /\ r.inst = ref.inst THEN bad ELSE Append(bad, << l, "trace-malformed" >>)
                          /\ UNCHANGED nchk
            ELSE /\ m' = NewRun(r) /\ skip' = ~(ref.ok /\ r.inst = ref.inst) /\ UNCHANGED << ref, bad, nchk >>
       [] r.e \in {"Abort", "Hang"} ->
            \* a crashed / hung child process: always reported (also when the run was being skipped)
            /\ bad' = Append(bad, << l, Verdict(r) >>) /\ skip' = TRUE /\ ref' = [ref EXCEPT !.ok = FALSE] /\ UNCHANGED << m, nchk >>
       [] OTHER ->
            IF skip THEN UNCHANGED << m, ref, bad, skip, nchk >>
            ELSE LET v == Verdict(r) IN
                 IF v = "ok"
                 THEN /\ m' = Update(r)
                      /\ ref' = IF r.e = "mark" THEN RefAfterMark(r)
                                ELSE IF r.e = "Out" /\ m.isref THEN [ref EXCEPT !.outs = @ \cup {<< r.name, l >>}]
                                ELSE ref
                      /\ nchk' = IF r.e = "Out" THEN [nchk EXCEPT !.out = @ + 1]
                                 ELSE IF r.e = "EndRun" THEN [nchk EXCEPT !.runs = @ + 1]
                                 ELSE [nchk EXCEPT !.ev = @ + N(r)]
                      /\ UNCHANGED << bad, skip >>
                 ELSE /\ bad' = (IF Len(bad) < 200 THEN Append(bad, << l, v >>) ELSE bad)
                      /\ skip' = TRUE
                      /\ ref' = IF m.isref THEN [ref EXCEPT !.ok = FALSE] ELSE ref
                      /\ UNCHANGED << m, nchk >>
Spec == Init /\ [][Next]_<< l, m, ref, bad, skip, nchk >>

\* evaluated in the final state only: prints the unexplained lines and what was checked
Done == l > Len(TraceLog) => (/\ PrintT(<< "COUNTS", nchk >>)
                              /\ (bad = <<>> \/ PrintT(<< "UNEXPLAINED", bad >>)))
Consumed == IF TLCGet("stats").diameter - 1 = Len(TraceLog) THEN TRUE
            ELSE PrintT(<< "REJECTED_AT", TLCGet("stats").diameter >>) /\ FALSE
=============================================================================
