---------------------------- MODULE MC_PoissonLL ----------------------------
(* Exhaustive check of the theorems of PoissonLL.tla (the clauses of C05     *)
(* that relate the quantities to each other) over a family of small exact    *)
(* instances: 3 voxels, 10 bins (2 views; segment 0 with 3 axial positions,  *)
(* segments -1 and 1 with one), two explicit matrices, all option sets.      *)
(* One initial state per instance, one step per theorem (tables memoised in  *)
(* the state variable m).                                                    *)
EXTENDS PoissonLL, TLC
CONSTANTS MaxLam, NumPatterns, MaxSubsets, FullX
VARIABLES c, k, m

NV == 3
Bins == << <<-1, 0, 0, 0, 0>>, <<-1, 1, 0, 0, 0>>,
           <<0, 0, 0, 0, 0>>, <<0, 0, 1, 0, 0>>, <<0, 0, 2, 0, 0>>,
           <<0, 1, 0, 0, 0>>, <<0, 1, 1, 0, 0>>, <<0, 1, 2, 0, 0>>,
           <<1, 0, 0, 0, 0>>, <<1, 1, 0, 0, 0>> >>
Rows1 == << << <<1, 1>> >>, << <<2, 2>>, <<3, 1>> >>, << <<1, 2>> >>, << <<2, 1>>, <<1, 1>> >>, << <<3, 3>> >>,
            << <<1, 1>>, <<2, 1>>, <<3, 1>> >>, << <<2, 2>> >>, << <<3, 1>>, <<1, 2>> >>, << <<2, 1>> >>, << <<3, 2>>, <<2, 1>> >> >>
Rows2 == << << <<2, 1>> >>, <<>>, << <<3, 1>>, <<1, 1>> >>, << <<1, 2>> >>, <<>>,
            << <<2, 3>> >>, << <<1, 1>>, <<3, 2>> >>, << <<3, 1>> >>, << <<1, 1>>, <<2, 2>> >>, << <<1, 3>> >> >>

RECURSIVE ColSeq(_, _, _)
ColSeq(rows, v, b) ==
  IF b > Len(rows) THEN <<>>
  ELSE LET hit == SelectSeq(rows[b], LAMBDA e : e[1] = v) IN
       (IF hit = <<>> THEN <<>> ELSE << << b, hit[1][2] >> >>) \o ColSeq(rows, v, b + 1)
SysOf(rows) == [nv |-> NV, numViews |-> 2, minView |-> 0, minAx0 |-> 0, maxAx0 |-> 2, maxSegData |-> 1, bins |-> Bins,
                rows |-> rows, cols |-> [v \in 1..NV |-> ColSeq(rows, v, 1)]]

\* per-bin patterns (additive term, data multiplier r, efficiency exponent): pattern p, bin b
Pat(p, b, lo, hi) == lo + ((b * (p + 1) + p * p) % (hi - lo + 1))
AOf(p) == [b \in 1..10 |-> IF p = 0 THEN 0 ELSE Pat(p, b, 0, 2)]
ROf(p) == [b \in 1..10 |-> Pat(p, b, 0, 2)]
EOf(p) == [b \in 1..10 |-> IF p = 0 THEN 0 ELSE Pat(p, b, -2, 0)]

Raw == [rows : {Rows1, Rows2}, lam : [1..NV -> 1..MaxLam], x : (IF FullX THEN [1..NV -> 0..1] ELSE { <<1, 0, 1>>, <<0, 1, 1>> }), z : { <<1, 0, 2>>, <<0, 1, 1>> },
        ap : 0..(NumPatterns - 1), rp : 0..(NumPatterns - 1), ep : 0..(NumPatterns - 1),
        zero : BOOLEAN, maxSeg : 0..1, N : 1..MaxSubsets, uss : BOOLEAN]
Inst(q) ==
  LET a == AOf(q.ap)
      d == [b \in 1..10 |-> RowDot(q.rows[b], q.lam) + a[b]]
  IN [lam |-> q.lam, x |-> q.x, a |-> a, ef |-> EOf(q.ep), y |-> [b \in 1..10 |-> ROf(q.rp)[b] * d[b] * d[b]],
      zero |-> q.zero, maxSeg |-> q.maxSeg, N |-> q.N, uss |-> q.uss]
\* a second instance that differs from the first in the unused bins only
Other(I, mm) == [I EXCEPT !.y = [b \in 1..10 |-> IF mm.used[b] THEN I.y[b] ELSE 5 * I.y[b] + mm.d[b] * mm.d[b]],
                          !.ef = [b \in 1..10 |-> IF mm.used[b] THEN I.ef[b] ELSE -1]]

Init == /\ k = 0 /\ m = <<>>
        /\ c \in { [sys |-> SysOf(q.rows), I |-> Inst(q), z |-> q.z] : q \in { r \in Raw : r.uss \/ 2 % r.N = 0 } }
Next == /\ k < 6 /\ k' = k + 1 /\ c' = c
        /\ m' = IF k = 0 THEN Memo(c.sys, c.I) ELSE m
Spec == Init /\ [][Next]_<<c, k, m>>

Inv1 == k = 1 => SystemOk(c.sys) /\ InstanceOk(c.sys, c.I, m)
Inv2 == k = 2 => ThGradPlusSens(c.sys, c.I, m)
Inv3 == k = 3 => ThSubsetsSum(c.sys, c.I, m)
Inv4 == k = 4 => ThHessian(c.sys, c.I, m, c.z)
Inv5 == k = 5 => LET J == Other(c.I, m) IN ThUnusedIrrelevant(c.sys, c.I, m, J, Memo(c.sys, J))
\* the value in units of 2^-VK is additive over subsets up to the tolerance of the limb arithmetic
Inv6 == k = 6 => (Pow2Means(c.sys, c.I, m, -1) =>
                    LET q(s) == ValueVK(c.sys, c.I, m, s) IN Abs(SumOverSubsets(c.I, q) - ValueVK(c.sys, c.I, m, -1)) <= 3 * c.I.N)

\* anchors of the fixed-point logarithm: ln2 * 2^10 * A
ASSUME MulLn2(1000) \in 709781..709784
ASSUME MulLn2(100000) \in 70978269..70978273
ASSUME MulLn2(-1000) = -MulLn2(1000)
ASSUME MulLn2(1999999) \in 1419564713..1419564717
=============================================================================
