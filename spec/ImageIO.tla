------------------------------- MODULE ImageIO -------------------------------
(* C10 - image files round-trip voxel positions, values and exam information. *)
(*                                                                            *)
(* The module has two layers.                                                 *)
(*  1. The abstract objects and the documented write / read maps of the      *)
(*     Interfile image format as used by OutputFileFormat / read_from_file:   *)
(*     geometry (positions in 1/8 mm), number types, quantisation with a      *)
(*     scale factor, exam information that the format stores, file length.    *)
(*     MC_ImageIO model-checks that these maps satisfy the property.          *)
(*  2. The predicates used by Trace_ImageIO to decide recorded executions of  *)
(*     the real code (encodings E/Q/F of DESIGN.md section 4), with every     *)
(*     tolerance a named operator.                                            *)
(* Named deviations (documented behaviour of the code that the property does  *)
(* not forbid) are separate operators: UnsignedTruncation, NoFramesStored,    *)
(* EnergyStored (has_energy_information), DefaultRadionuclide,                *)
(* ContainerNativeOrder, UserScaleHonoured.                                   *)
EXTENDS Integers, Sequences, FiniteSets, SequencesExt, TLC

Abs(x) == IF x < 0 THEN -x ELSE x
P2(n) == 2 ^ n                                   \* only used for 0 <= n <= 30
SeqMax(s) == FoldLeft(LAMBDA a, b : IF b > a THEN b ELSE a, s[1], s)
SeqMin(s) == FoldLeft(LAMBDA a, b : IF b < a THEN b ELSE a, s[1], s)
Rev3(t) == << t[3], t[2], t[1] >>                \* STIR order z,y,x  <->  Interfile order x,y,z

(* ------------------------------------------------------------------------ *)
(* Number types (NumericType)                                                *)
(* ------------------------------------------------------------------------ *)
IntTypes == { "SCHAR", "UCHAR", "SHORT", "USHORT", "INT", "UINT", "LONG", "ULONG" }
FloatTypes == { "FLOAT", "DOUBLE" }
Types == IntTypes \cup FloatTypes
IsInt(t) == t \in IntTypes
IsSigned(t) == t \in { "SCHAR", "SHORT", "INT", "LONG", "FLOAT", "DOUBLE" }
Bytes(t) == CASE t \in { "SCHAR", "UCHAR" } -> 1
              [] t \in { "SHORT", "USHORT" } -> 2
              [] t \in { "INT", "UINT", "FLOAT" } -> 4
              [] t \in { "LONG", "ULONG", "DOUBLE" } -> 8
\* TypeMax = 2^MagBits - 1 ; TypeMin = -2^MagBits (signed) or 0 (unsigned)
MagBits(t) == 8 * Bytes(t) - (IF IsSigned(t) THEN 1 ELSE 0)
NumberFormat(t) == IF ~IsInt(t) THEN "float" ELSE IF IsSigned(t) THEN "signed integer" ELSE "unsigned integer"

(* ------------------------------------------------------------------------ *)
(* Geometry.  g = [min, size, org, vox], index order z,y,x, lengths in 1/8 mm *)
(* ------------------------------------------------------------------------ *)
Pos(g, idx) == [d \in 1..3 |-> g.org[d] + idx[d] * g.vox[d]]
Indices(g) == { << z, y, x >> : z \in g.min[1]..(g.min[1] + g.size[1] - 1), y \in g.min[2]..(g.min[2] + g.size[2] - 1),
                                x \in g.min[3]..(g.min[3] + g.size[3] - 1) }
NumVox(g) == g.size[1] * g.size[2] * g.size[3]
\* write_basic_interfile_image_header: "first pixel offset" = position of the voxel with the minimum indices
FirstPixelOffset(g) == Pos(g, g.min)
\* create_image_and_header_from: the index range is re-normalised to (0, -(y/2), -(x/2)) ...
ReadMin(size) == << 0, -(size[2] \div 2), -(size[3] \div 2) >>
\* ... and the origin recomputed such that first_pixel_offsets = min_indices*voxel_size + origin
GeomFromHeader(msize, vox, fpo) ==
  LET size == Rev3(msize) v == Rev3(vox) f == Rev3(fpo) mn == ReadMin(size) IN
  [min |-> mn, size |-> size, vox |-> v, org |-> [d \in 1..3 |-> f[d] - mn[d] * v[d]]]
ReadGeom(g) == GeomFromHeader(Rev3(g.size), Rev3(g.vox), Rev3(FirstPixelOffset(g)))
\* index correspondence between the image written and the image read: same offset from the minimum
Corr(g, g2, idx) == [d \in 1..3 |-> idx[d] - g.min[d] + g2.min[d]]

\* "reading it back preserves, for every voxel, its physical position"
PositionsPreserved(g, g2) ==
  /\ g2.size = g.size
  /\ \A idx \in Indices(g) : Pos(g2, Corr(g, g2, idx)) = Pos(g, idx)

(* ------------------------------------------------------------------------ *)
(* Quantisation with exact rationals (used by the model check).              *)
(* A scale factor is a positive rational << p, q >> = p/q.                    *)
(* ------------------------------------------------------------------------ *)
\* stir::round: half away from zero
RoundDiv(a, b) == IF a >= 0 THEN (2 * a + b) \div (2 * b) ELSE -((2 * (-a) + b) \div (2 * b))      \* b > 0
TypeMax(bits) == P2(bits) - 1
TypeMin(bits, signed) == IF signed THEN -P2(bits) ELSE 0
\* named deviation UnsignedTruncation: convert_range stores 0 for a negative value when the type is unsigned
UnsignedTruncation(v, signed) == IF ~signed /\ v < 0 THEN 0 ELSE v
Quantise(v, sc, signed) == IF v = 0 THEN 0 ELSE RoundDiv(UnsignedTruncation(v, signed) * sc[2], sc[1])
\* smallest scale that avoids overflow, times the documented safety factor 1.01 (find_scale_factor)
RatLe(a, b) == a[1] * b[2] <= b[1] * a[2]
RatMax(a, b) == IF RatLe(a, b) THEN b ELSE a
NeededScale(vals, bits, signed) ==
  LET mx == SeqMax(vals) mn == SeqMin(vals)
      up == << (IF mx > 0 THEN mx ELSE 0) * 101, TypeMax(bits) * 100 >>
      dn == << (IF signed /\ mn < 0 THEN -mn ELSE 0) * 101, P2(bits) * 100 >> IN
  RatMax(up, dn)
\* OutputFileFormat::set_scale_to_write_data: 0 = use the maximum range; otherwise the given scale,
\* enlarged when the data would not fit (write_data)
EffScale(user, vals, bits, signed) ==
  LET need == NeededScale(vals, bits, signed) IN
  IF user[1] = 0 \/ ~RatLe(need, user) THEN need ELSE user

(* ------------------------------------------------------------------------ *)
(* Exam information that the format stores.                                   *)
(* ex = [mod, orient, rot, frames, rn, hlms, brppm, lo8, hi8, cal4]           *)
(* ------------------------------------------------------------------------ *)
\* named deviation NoFramesStored: the header always announces one time frame ("need to write this anyway")
FramesStored(fr) == IF fr = << >> THEN << << 0, 0 >> >> ELSE fr
\* named deviation EnergyStored: ExamInfo::has_energy_information() is low > 0 and high > 0; otherwise "not set" (-1)
HasEnergy(ex) == ex.lo8 > 0 /\ ex.hi8 > 0
\* study start time << days since 1970, second of the day, ms >>: "study date" / "study time" are written when
\* the time is > 0 (0 = not set); the format keeps hundredths of a second
HasStart(ex) == ex.startD > 0 \/ ex.startS > 0 \/ ex.startMs > 0
StartStored(ex) == IF HasStart(ex) THEN << ex.startD, ex.startS, (ex.startMs \div 10) * 10 >> ELSE << 0, 0, 0 >>
\* calibration factor: "not set" is any value <= 0, read back as -1
CalStored(c) == IF c > 0 THEN c ELSE -4
\* named deviation DefaultRadionuclide: RadionuclideDB::get_radionuclide("") is F-18 for PT, Tc-99m for NM, unknown otherwise
RnOf(ex) == [rn |-> ex.rn, hlms |-> ex.hlms, brppm |-> ex.brppm]
\* named deviation DatabaseTakesPrecedence: for a name the radionuclide database knows (for that modality) the reader
\* takes half life and branching ratio from the database; the header's own numbers are used only for unknown names
\* ("if (radionuclide.get_half_life(false) < 0) radionuclide = Radionuclide(name, ..., header values)")
DbLookup(env, mod, name) == SelectSeq(env.db, LAMBDA x : x.mod = mod /\ x.rn = name)
RadionuclideRead(env, mod, name, hlms, brppm) ==
  IF name \in { "", "Unknown", "-" }
  THEN (IF mod = "PT" THEN env.defPT ELSE IF mod = "NM" THEN env.defNM ELSE env.defOther)
  ELSE LET hit == DbLookup(env, mod, name) IN
       IF hit # << >> THEN [rn |-> name, hlms |-> hit[1].hlms, brppm |-> hit[1].brppm]
       ELSE [rn |-> name, hlms |-> hlms, brppm |-> brppm]
RadionuclideStored(ex, env) == RadionuclideRead(env, ex.mod, ex.rn, ex.hlms, ex.brppm)
ExamStored(ex, env) ==
  LET r == RadionuclideStored(ex, env) IN
  [mod |-> ex.mod, orient |-> ex.orient, rot |-> ex.rot, frames |-> FramesStored(ex.frames),
   rn |-> r.rn, hlms |-> r.hlms, brppm |-> r.brppm,
   lo8 |-> IF HasEnergy(ex) THEN ex.lo8 ELSE -8, hi8 |-> IF HasEnergy(ex) THEN ex.hi8 ELSE -8,
   cal4 |-> CalStored(ex.cal4),
   startD |-> StartStored(ex)[1], startS |-> StartStored(ex)[2], startMs |-> StartStored(ex)[3]]
\* --- implementation-shaped: which keys write_basic_interfile_image_header emits, and how
\* InterfileHeader::post_processing rebuilds the exam information from them ("-" / negative = key absent)
OrientName(o) == << "head_in", "feet_in", "other", "-" >>[o + 1]          \* unknown orientation: key not written
RotName(r) == << "supine", "prone", "right", "left", "other", "-" >>[r + 1]
OrientOf(n) == CASE n = "head_in" -> 0 [] n = "feet_in" -> 1 [] n = "other" -> 2 [] OTHER -> 3
RotOf(n) == CASE n = "supine" -> 0 [] n = "prone" -> 1 [] n = "right" -> 2 [] n = "left" -> 3 [] n = "other" -> 4 [] OTHER -> 5
ExamToHeader(ex) ==
  LET win == ex.hi8 > 0 /\ ex.lo8 >= 0 IN                                  \* write_interfile_energy_windows
  [mod |-> IF ex.mod = "Unknown" THEN "-" ELSE ex.mod,
   typeOfData |-> IF ex.mod = "NM" THEN "Tomographic" ELSE "PET",
   orient |-> OrientName(ex.orient), rot |-> RotName(ex.rot),
   nframes |-> IF ex.frames = << >> THEN 1 ELSE Len(ex.frames),          \* "need to write this anyway"
   \* durations and start times only for frames with a positive duration
   frames |-> SelectSeq([f \in 1..Len(ex.frames) |-> << f, ex.frames[f][1], ex.frames[f][2] >>], LAMBDA x : x[3] > 0),
   rn |-> IF ex.rn \in { "", "Unknown" } THEN "-" ELSE ex.rn,
   hlms |-> IF ex.hlms > 0 THEN ex.hlms ELSE -1000, brppm |-> IF ex.brppm > 0 THEN ex.brppm ELSE -1000000,
   lo8 |-> IF win THEN ex.lo8 ELSE -8, hi8 |-> IF win THEN ex.hi8 ELSE -8,
   cal4 |-> IF ex.cal4 > 0 THEN ex.cal4 ELSE -4,
   hasDate |-> HasStart(ex), date |-> IF HasStart(ex) THEN ex.startD ELSE 0,
   time |-> IF HasStart(ex) THEN << ex.startS, (ex.startMs \div 10) * 10 >> ELSE << 0, 0 >>]
ExamFromHeader(h, env) ==
  LET mod == IF h.mod = "-" THEN "Unknown" ELSE h.mod
      \* a named radionuclide is taken from the database or, failing that, from the header's own numbers: the same numbers
      r == RadionuclideRead(env, mod, h.rn, h.hlms, h.brppm)
      fr == [f \in 1..h.nframes |->
               LET hit == SelectSeq(h.frames, LAMBDA x : x[1] = f) IN IF hit = << >> THEN << 0, 0 >> ELSE << hit[1][2], hit[1][3] >>]
      win == h.lo8 > 0 /\ h.hi8 > 0 IN                                      \* "upper > 0 && lower > 0"
  [mod |-> mod, orient |-> OrientOf(h.orient), rot |-> RotOf(h.rot), frames |-> fr,
   rn |-> r.rn, hlms |-> r.hlms, brppm |-> r.brppm,
   lo8 |-> IF win THEN h.lo8 ELSE -8, hi8 |-> IF win THEN h.hi8 ELSE -8, cal4 |-> IF h.cal4 > 0 THEN h.cal4 ELSE -4,
   \* "if (!study_date_time.date.empty() && !study_date_time.time.empty())"
   startD |-> IF h.hasDate THEN h.date ELSE 0, startS |-> IF h.hasDate THEN h.time[1] ELSE 0, startMs |-> IF h.hasDate THEN h.time[2] ELSE 0]

ExamProj(ex) == [mod |-> ex.mod, orient |-> ex.orient, rot |-> ex.rot, frames |-> ex.frames, rn |-> ex.rn, hlms |-> ex.hlms,
                 brppm |-> ex.brppm, lo8 |-> ex.lo8, hi8 |-> ex.hi8, cal4 |-> ex.cal4,
                 startD |-> ex.startD, startS |-> ex.startS, startMs |-> ex.startMs]

(* ------------------------------------------------------------------------ *)
(* Abstract files and the write / read maps (model check)                     *)
(* img = [geo, nd, vals (one sequence per data set, z-major), exam]           *)
(* ty  = [int, signed, bits, bytes]                                            *)
(* ------------------------------------------------------------------------ *)
NoFile == [present |-> FALSE]
WriteFile(img, ty, user, env) ==
  LET nv == NumVox(img.geo)
      sc == [d \in 1..img.nd |-> IF ty.int THEN EffScale(user, img.vals[d], ty.bits, ty.signed) ELSE << 1, 1 >>] IN
  [present |-> TRUE, msize |-> Rev3(img.geo.size), vox |-> Rev3(img.geo.vox), fpo |-> Rev3(FirstPixelOffset(img.geo)),
   ty |-> ty, nd |-> img.nd, scale |-> sc,
   stored |-> [d \in 1..img.nd |-> [i \in 1..nv |->
                 IF ty.int THEN (IF sc[d][1] = 0 THEN 0 ELSE Quantise(img.vals[d][i], sc[d], ty.signed)) ELSE img.vals[d][i]]],
   off |-> [d \in 1..img.nd |-> (d - 1) * nv * ty.bytes],
   announced |-> img.nd * nv * ty.bytes, dlen |-> img.nd * nv * ty.bytes,
   hexam |-> ExamToHeader(img.exam)]
Truncate(f, len) == [f EXCEPT !.dlen = len]
ReadError == [ok |-> FALSE]
\* "A data file shorter than its header announces is reported as an error rather than returned as an image."
ReadFile(f, env) ==
  IF ~f.present \/ f.dlen < f.announced THEN ReadError
  ELSE [ok |-> TRUE, geo |-> GeomFromHeader(f.msize, f.vox, f.fpo), nd |-> f.nd,
        \* value read = stored * scale, kept as the pair << stored * p, q >>
        num |-> [d \in 1..f.nd |-> [i \in 1..Len(f.stored[d]) |-> f.stored[d][i] * f.scale[d][1]]],
        den |-> [d \in 1..f.nd |-> f.scale[d][2]],
        exam |-> ExamFromHeader(f.hexam, env)]

\* the property, on the abstract level
ModelRoundTripOK(img, ty, f, r, env) ==
  /\ r.ok
  /\ PositionsPreserved(img.geo, r.geo)
  /\ r.nd = img.nd
  /\ \A d \in 1..img.nd : \A i \in 1..NumVox(img.geo) :
       LET v == img.vals[d][i] p == f.scale[d][1] q == f.scale[d][2] n == f.stored[d][i] IN
       IF ~ty.int THEN r.num[d][i] = v * r.den[d]                      \* "exactly for floating-point output"
       ELSE /\ n >= TypeMin(ty.bits, ty.signed) /\ n <= TypeMax(ty.bits)   \* "never overflows the chosen type"
            /\ LET w == UnsignedTruncation(v, ty.signed) IN             \* "within half a quantisation step"
               (IF p = 0 THEN w = 0 ELSE 2 * Abs(r.num[d][i] - w * q) <= p)
  /\ r.exam = ExamStored(img.exam, env)

(* ------------------------------------------------------------------------ *)
(* Predicates for recorded executions (Trace_ImageIO)                         *)
(* ------------------------------------------------------------------------ *)
SAT == 1073741824                                 \* the driver saturates fixed-point numbers at +-2^30
\* Q encoding: residual (1e-6 of 1/8 mm) allowed for single-precision rounding of a length of |q| units:
\* 2^-22 relative (a few ulp) + 1
ResTol(q) == 1 + Abs(q) \div 4
QExact(q, r, expected) == q = expected /\ Abs(r) <= ResTol(expected)

\* a < c * 2^t for naturals a, c < 2^30 and any integer t (exact)
LtScaled(a, c, t) ==
  IF t >= 0 THEN (IF t >= 31 THEN c > 0 ELSE (a \div P2(t)) < c)
  ELSE IF a = 0 THEN c > 0
  ELSE IF -t >= 31 \/ c = 0 THEN FALSE
  ELSE a <= (c - 1) \div P2(-t)

\* "never overflows the chosen type": with values m*2^e (mmax, mmin the extreme mantissas) and the scale
\* factor of the file sm*2^se (sm > 0):  vmax/s < 2^bits   and (signed)  vmin/s >= -2^bits
NoOverflow(mmax, mmin, e, sm, se, bits, signed) ==
  /\ (mmax > 0 => LtScaled(mmax, sm, se + bits - e))
  /\ (signed /\ mmin < 0 => ~LtScaled(sm, -mmin, e - se - bits))

\* F encoding: numbers are round(x * 2^(k-e)).  Allowance for single-precision arithmetic in the conversion,
\* in the multiplication by the scale factor and for the rounding of the logged numbers: 2^-20 relative + 1
FloatSlack(x) == 1 + Abs(x) \div 1048576
\* half a quantisation step, S = round(step * 2^(k-e)) (+1 for the rounding of S itself)
HalfStep(S) == 1 + S \div 2
\* the scale factor in the file is an exact power of two 2^j and the step is resolved by the encoding
ExactStep(sm, se, e, k) == sm = 1 /\ se - e + k >= 0 /\ se - e + k <= 29
WithinHalfStep(x, w, S, exact) ==
  IF exact THEN Abs(x - w) <= S \div 2                    \* E instance: no slack at all
  ELSE Abs(x - w) <= HalfStep(S) + FloatSlack(w)

\* the user's scale 2^j is clearly sufficient / clearly insufficient for values up to mabs*2^e in a type with
\* the given magnitude bits (factor-two margins keep the 1.01 safety factor and rounding out of the decision)
UserScaleSufficient(mabs, e, j, bits) == mabs = 0 \/ LtScaled(mabs, 1, j + bits - 2 - e)
=============================================================================
