------------------------------ MODULE Trace_Zoom ------------------------------
(* Trace validation for C15 (zooming).  Two kinds of recorded instances:           *)
(*  exact (ZIn, then ZOut lines): integer images, rational zooms p/q, offsets and origins in  *)
(*    quarter voxels.  At ZIn TLC computes the grid and the image that Zoom.tla     *)
(*    demands (exact rationals, state variables GO, exp, den); every ZOut (one per  *)
(*    call variant of the real API) must be that grid and that image within the     *)
(*    fixed-point tolerance ZoomTol, and the in-place / two-step variants must be    *)
(*    identical to the one-call result;                                             *)
(*  random (RIn, then ROut lines): dyadic images, arbitrary float zooms in [0.3, 3]: the      *)
(*    relations of the property between observations (sum, centre of mass,          *)
(*    uniform regions, agreement of the variants).                                  *)
(* Lines are functions of the preceding ZIn / RIn, so unexplained lines are         *)
(* collected in `bad' (as in Trace_Geometry).                                       *)
EXTENDS Zoom, SequencesExt, TraceLib
VARIABLES l, zin, GI, GOz, exp, den, refs, bad

vars == <<l, zin, GI, GOz, exp, den, refs, bad>>
None == [e |-> "none"]
SumSeq(s) == FoldLeft(LAMBDA a, b : a + b, 0, s)
MaxSeq(s) == FoldLeft(LAMBDA a, b : IF b > a THEN b ELSE a, 0, s)

(* ------------------------------ tolerances ------------------------------ *)
\* fixed point: voxel values * 2^8.  Single-precision interpolation of a few terms: relative 2^-12 is generous.
FxK == 256
\* |observed - exact| <= 2 + |exact| / 2^12  (fixed-point units), multiplied by the denominator d:
\* |obs * d - num * 2^8| <= 2 * d + (|num| * 2^8) / 2^12
ValTolTimesDen(num, d) == 2 * d + ZAbs(num) \div 16
\* Q encoding of origins / voxel sizes: residual in 1e-6 units
ResTol == 100
\* centre of gravity in units * 2^8: rounding of the recording + float arithmetic
CogTol == 4

(* --------------------------- exact instances ----------------------------- *)
Ax == 1..3
GridsIn(r) == [ a \in Ax |-> [lo |-> r.lo[a], hi |-> r.hi[a], org |-> r.oi[a] * r.P[a], vox |-> 4 * r.P[a]] ]
GridsOutZ(r) == ZoomGrid3(GridsIn(r), << 4 * r.Q[1], 4 * r.Q[2], 4 * r.Q[3] >>, << r.o[1] * r.P[1], r.o[2] * r.P[2], r.o[3] * r.P[3] >>, r.n)
GridsOf(Z) == << GridOf(Z[1]), GridOf(Z[2]), GridOf(Z[3]) >>
NVox(G) == Size(G[1]) * Size(G[2]) * Size(G[3])
Flat(G, j) == ((j[1] - G[1].lo) * Size(G[2]) + (j[2] - G[2].lo)) * Size(G[3]) + (j[3] - G[3].lo) + 1
ImageOf(G, vals) == [ j \in Idx3(G) |-> vals[Flat(G, j)] ]
\* support along axis a / coverage of the support by the output grid
Support(G, vals, a) == { j[a] : j \in { x \in Idx3(G) : vals[Flat(G, x)] # 0 } }
CoversAll(G, H, vals) == \A a \in Ax : Covers1(G[a], H[a], Support(G, vals, a))
\* first moment of an integer image along axis a (twice the coordinate, in units)
Mom(G, vals, a) == FoldSet(LAMBDA j, acc : acc + vals[Flat(G, j)] * Centre2(G[a], j[a]), 0, Idx3(G))

ZInOk(r) ==
  /\ \A a \in Ax : <<r.P[a], r.Q[a]>> \in Zooms /\ r.lo[a] <= r.hi[a] /\ r.n[a] >= 1
  /\ r.opt \in 0..2
  /\ Len(r.vals) = NVox(GridsIn(r))
  /\ \A i \in 1..Len(r.vals) : r.vals[i] \in 0..15
  /\ \A a \in Ax : WholeOrigin(GridsOutZ(r)[a])
  /\ r.pos = (SumSeq(r.vals) > 0)
  \* find_centre_of_gravity_in_mm of the input is the centre of mass of the integer image
  /\ r.pos => \A a \in Ax : ZAbs(2 * r.cog[a] * SumSeq(r.vals) - FxK * Mom(GridsIn(r), r.vals, a)) <= 2 * CogTol * SumSeq(r.vals)

ExactCalls == {"zoom3_inplace", "into"}
ZOutOk(r) ==
  LET GO == GridsOf(GOz) IN
  /\ zin # None /\ ~r.err
  \* the grid: "standard STIR conventions" for the index range, "offsets_in_mm == new_middle - old_middle", voxel size / zoom
  /\ \A a \in Ax : /\ r.lo[a] = GO[a].lo /\ r.hi[a] = GO[a].hi
                   /\ r.org[a] = GO[a].org /\ r.vox[a] = GO[a].vox
  /\ r.res <= ResTol
  \* the image: separable overlap interpolation and the ZoomOptions scaling
  /\ Len(r.vals) = NVox(GO)
  /\ \A j \in Idx3(GO) : ZAbs(r.vals[Flat(GO, j)] * den - exp[j] * FxK) <= ValTolTimesDen(exp[j], den)
  \* "the result does not depend on whether it is produced in one call or composed through the in-place and
  \* two-step variants": identical arithmetic, so identical numbers
  /\ r.call \in ExactCalls => r.vals = refs["zoom3"]
  /\ r.call = "zoom2_inplace" => r.vals = refs["zoom2"]
  \* the relations of the property, directly on the observation
  /\ (zin.opt = PreserveSum /\ CoversAll(GI, GO, zin.vals)) =>
        /\ ZAbs(SumSeq(r.vals) - FxK * SumSeq(zin.vals)) <= NVox(GO) \div 2 + 2 + (FxK * SumSeq(zin.vals)) \div 4096
        /\ zin.pos => (r.pos /\ \A a \in Ax : 2 * ZAbs(r.cog[a] - zin.cog[a]) <= FxK * (GI[a].vox + GO[a].vox) + 2 * CogTol)
        \* shifts (zoom 1 along every axis, fractional offsets): within half a voxel (ComKeptTight1)
        /\ (zin.pos /\ \A a \in Ax : zin.P[a] = zin.Q[a]) => \A a \in Ax : 2 * ZAbs(r.cog[a] - zin.cog[a]) <= FxK * GO[a].vox + 2 * CogTol

(* --------------------------- random instances ---------------------------- *)
\* lengths in mm * 2^10, values * 2^8
RG(r) == [ a \in Ax |-> [lo |-> r.lo[a], hi |-> r.hi[a], org |-> r.org[a], vox |-> r.vox[a]] ]
\* slack for the rounding of the recorded origin / voxel size of the result (half fixed-point units at index i)
Slack(g) == 2 * (ZAbs(g.lo) + ZAbs(g.hi) + 2)
CoversWithMargin(gi, go, S) ==
  S = {} \/ LET a == CHOOSE x \in S : \A y \in S : x <= y
                b == CHOOSE x \in S : \A y \in S : y <= x IN
            /\ LeftEdge(go, go.lo) + Slack(go) <= LeftEdge(gi, a)
            /\ RightEdge(gi, b) + Slack(go) <= RightEdge(go, go.hi)
InBox(r, j) == \A a \in Ax : j[a] >= r.ulo[a] /\ j[a] <= r.uhi[a]
RInOk(r) ==
  /\ \A a \in Ax : r.lo[a] <= r.hi[a] /\ r.n[a] >= 1 /\ r.vox[a] > 0 /\ r.zf[a] >= 19660 /\ r.zf[a] <= 196608      \* zooms in [0.3, 3]
  /\ r.opt \in 0..2
  /\ Len(r.vals) = NVox(RG(r))
  /\ \A i \in 1..Len(r.vals) : r.vals[i] >= 0 /\ r.vals[i] < 4096
  /\ r.pos = (SumSeq(r.vals) > 0)
  \* the region announced as uniform is uniform
  /\ r.hasBox => \A j \in Idx3(RG(r)) : InBox(r, j) => r.vals[Flat(RG(r), j)] = r.uval
RValTol(v) == 2 + ZAbs(v) \div 1024
ROutOk(r) ==
  LET gi == RG(zin)  go == RG(r) IN
  /\ zin # None /\ ~r.err
  \* the grid the documentation promises
  /\ \A a \in Ax :
       /\ Size(go[a]) = zin.n[a]
       /\ go[a].lo = (IF a = 1 THEN 0 ELSE -(zin.n[a] \div 2))
       \* voxel size = input voxel size / zoom
       /\ ZAbs(go[a].vox * zin.zf[a] - gi[a].vox * 65536) <= 2 * zin.zf[a]
       \* "offsets_in_mm == new_middle - old_middle" (twice the middles)
       /\ ZAbs(((go[a].lo + go[a].hi) * go[a].vox + 2 * go[a].org) - ((gi[a].lo + gi[a].hi) * gi[a].vox + 2 * gi[a].org) - 2 * zin.off[a])
             <= ZAbs(go[a].lo + go[a].hi) + 4
  /\ Len(r.vals) = NVox(go)
  /\ \A i \in 1..Len(r.vals) : r.vals[i] >= 0
  \* "Zooming or shifting an image with sum preservation conserves the total (to rounding) and keeps the centre of
  \* mass in millimetres to within half the sum of the input and output voxel sizes whenever the new grid covers
  \* the object"
  /\ (zin.opt = PreserveSum /\ \A a \in Ax : CoversWithMargin(gi[a], go[a], Support(gi, zin.vals, a))) =>
        /\ ZAbs(SumSeq(r.vals) - SumSeq(zin.vals)) <= NVox(go) \div 2 + 2 + SumSeq(zin.vals) \div 4096
        /\ zin.pos => (r.pos /\ \A a \in Ax : 2 * ZAbs(r.cog[a] - zin.cog[a]) <= gi[a].vox + go[a].vox + 8)
        \* shifts: within half a voxel
        /\ (zin.pos /\ \A a \in Ax : zin.zf[a] = 65536) => \A a \in Ax : 2 * ZAbs(r.cog[a] - zin.cog[a]) <= go[a].vox + 8
  \* "value-preserving zoom keeps uniform regions uniform": output voxels inside the uniform box keep its value
  /\ (zin.opt = PreserveValues /\ zin.hasBox) =>
        \A j \in Idx3(go) :
           (\A a \in Ax : /\ LeftEdge(gi[a], zin.ulo[a]) + Slack(go[a]) <= LeftEdge(go[a], j[a])
                          /\ RightEdge(go[a], j[a]) + Slack(go[a]) <= RightEdge(gi[a], zin.uhi[a]))
             => ZAbs(r.vals[Flat(go, j)] - zin.uval) <= RValTol(zin.uval)
  \* agreement of the variants: identical for in-place / two-step, within rounding for the per-axis composition
  \* and the transaxial-only overloads
  /\ r.call \in ExactCalls => r.vals = refs["zoom3"].vals /\ r.lo = refs["zoom3"].lo /\ r.hi = refs["zoom3"].hi
                               /\ r.org = refs["zoom3"].org /\ r.vox = refs["zoom3"].vox
  /\ r.call = "zoom2_inplace" => r.vals = refs["zoom2"].vals /\ r.org = refs["zoom2"].org /\ r.vox = refs["zoom2"].vox
  /\ r.call \in {"axes", "zoom2"} =>
        /\ r.lo = refs["zoom3"].lo /\ r.hi = refs["zoom3"].hi
        /\ \A a \in Ax : ZAbs(r.org[a] - refs["zoom3"].org[a]) <= 1 /\ ZAbs(r.vox[a] - refs["zoom3"].vox[a]) <= 1
        /\ \A i \in 1..Len(r.vals) : ZAbs(r.vals[i] - refs["zoom3"].vals[i]) <= RValTol(refs["zoom3"].vals[i])

(* ------------- zoom_viewgram(s): tangential zoom of arc-corrected viewgrams ------------- *)
\* "zoom scales the projection bins (zoom larger than 1 means more detail, so smaller pixels)"; "x_offset_in_mm /
\* y_offset_in_mm: coordinates of new origin"; "translation in 'image' space which gives a sin shift of origin in the
\* s-coordinate": offset = x cos(phi) + y sin(phi) (view 0: x, view nv/2: y); "the (projection of the) centre of the
\* scanner axis is supposed to be at tang_pos_num = 0"; overlap interpolation: x_in = x_out / zoom + offset.
\* Every row (axial position) is the 1-D interpolation of Zoom.tla; the result is count preserving (no scaling).
VOff(r) == IF r.view = 0 THEN r.o[1] ELSE r.o[2]
VGi(r) == [lo |-> r.lo, hi |-> r.hi, org |-> 0, vox |-> 4 * r.P]
VGo(r) == [lo |-> r.olo, hi |-> r.ohi, org |-> VOff(r) * r.P, vox |-> 4 * r.Q]
VInOk(r) ==
  /\ <<r.P, r.Q>> \in Zooms /\ r.lo <= r.hi /\ r.olo <= r.ohi /\ r.minAx <= r.maxAx
  /\ (r.view = 0 \/ (r.nv % 2 = 0 /\ r.view = r.nv \div 2))
  /\ Len(r.vals) = (r.maxAx - r.minAx + 1) * (r.hi - r.lo + 1)
  /\ \A i \in 1..Len(r.vals) : r.vals[i] \in 0..15
VOutOk(r) ==
  LET gi == VGi(zin)  go == VGo(zin)  nt == zin.hi - zin.lo + 1  ont == zin.ohi - zin.olo + 1 IN
  /\ ~r.err
  /\ r.lo = zin.olo /\ r.hi = zin.ohi /\ r.minAx = zin.minAx /\ r.maxAx = zin.maxAx /\ r.view = zin.view /\ r.seg = zin.seg
  /\ r.vox = 4 * zin.Q /\ r.res <= ResTol
  /\ Len(r.vals) = (zin.maxAx - zin.minAx + 1) * ont
  /\ \A a \in 0..(zin.maxAx - zin.minAx) : \A j \in zin.olo..zin.ohi :
        LET f == [ i \in zin.lo..zin.hi |-> zin.vals[a * nt + (i - zin.lo) + 1] ]
            num == Interp1Num(f, gi, go, j) IN
        ZAbs(r.vals[a * ont + (j - zin.olo) + 1] * Den1(gi) - num * FxK) <= ValTolTimesDen(num, Den1(gi))
  \* the variants are the same arithmetic
  /\ r.call # "vg_inplace" => r.vals = refs["vg_inplace"]

Calls == {"zoom3", "zoom3_inplace", "into", "axes", "zoom2", "zoom2_inplace"}
Explains(r) ==
  CASE r.e = "ZIn" -> ZInOk(r)
    [] r.e = "ZOut" -> r.call \in Calls /\ zin # None /\ zin.e = "ZIn" /\ (r.call # "zoom3" => "zoom3" \in DOMAIN refs) /\ ZOutOk(r)
    [] r.e = "RIn" -> RInOk(r)
    [] r.e = "VIn" -> VInOk(r)
    [] r.e = "VOut" -> r.call \in {"vg_inplace", "vg_into", "vgs"} /\ zin # None /\ zin.e = "VIn"
                       /\ (r.call # "vg_inplace" => "vg_inplace" \in DOMAIN refs) /\ VOutOk(r)
    [] r.e = "ROut" -> r.call \in Calls /\ zin # None /\ zin.e = "RIn" /\ (r.call # "zoom3" => "zoom3" \in DOMAIN refs) /\ ROutOk(r)
    [] OTHER -> FALSE
\* C15-vgidentity: zoom_viewgram(out, in, x, y) with identical sampling and range and no offset returns without copying
\* in to out ("zoom in_viewgram, replacing out_viewgram with the new data"): out keeps what it held (the driver's fill, 7)
Classify(r) ==
  IF r.e = "VOut" /\ zin # None /\ zin.e = "VIn" /\ r.call = "vg_into" /\ ~r.err
     /\ zin.P = zin.Q /\ VOff(zin) = 0 /\ zin.olo = zin.lo /\ zin.ohi = zin.hi
     /\ r.lo = zin.lo /\ r.hi = zin.hi /\ \A i \in 1..Len(r.vals) : r.vals[i] = 7 * FxK
  THEN "C15-vgidentity" ELSE "new"

Init == l = 1 /\ zin = None /\ GI = <<>> /\ GOz = <<>> /\ exp = <<>> /\ den = 1 /\ refs = <<>> /\ bad = <<>>
Next == /\ l <= Len(TraceLog)
        /\ LET r == TraceLog[l]
               okr == Explains(r) IN
           /\ IF r.e = "ZIn" /\ okr
              THEN LET gi == GridsIn(r)  goz == GridsOutZ(r)  go == GridsOf(goz)  f == ImageOf(gi, r.vals) IN
                   /\ zin' = r /\ GI' = gi /\ GOz' = goz
                   /\ exp' = [ j \in Idx3(go) |-> ZoomNum(f, gi, go, r.opt, j) ]
                   /\ den' = ZoomDen(gi, go, r.opt)
                   /\ refs' = <<>>
              ELSE IF r.e \in {"ZIn", "RIn", "VIn"}
              THEN /\ zin' = IF okr THEN r ELSE None
                   /\ GI' = <<>> /\ GOz' = <<>> /\ exp' = <<>> /\ den' = 1 /\ refs' = <<>>
              ELSE /\ UNCHANGED <<zin, GI, GOz, exp, den>>
                   /\ refs' = IF r.e = "ZOut" /\ ~r.err /\ r.call \in {"zoom3", "zoom2"} THEN (r.call :> r.vals) @@ refs
                              ELSE IF r.e = "ROut" /\ ~r.err /\ r.call \in {"zoom3", "zoom2"} THEN (r.call :> r) @@ refs
                              ELSE IF r.e = "VOut" /\ ~r.err /\ r.call = "vg_inplace" THEN (r.call :> r.vals) @@ refs
                              ELSE refs
           /\ bad' = IF okr THEN bad
                     ELSE IF Len(bad) < 500 THEN Append(bad, <<l, Classify(r)>>) ELSE bad
        /\ l' = l + 1
Spec == Init /\ [][Next]_vars

Done == l > Len(TraceLog) => (bad = <<>> \/ PrintT(<<"UNEXPLAINED", bad>>))
Consumed == IF TLCGet("stats").diameter - 1 = Len(TraceLog) THEN TRUE
            ELSE PrintT(<<"REJECTED_AT", TLCGet("stats").diameter>>) /\ FALSE
=============================================================================
