SPECIFICATION Spec
CONSTANTS Deep = FALSE Which = {4}
INVARIANTS InvBoundary InvMean InvSym InvSep InvPad
CHECK_DEADLOCK FALSE
