------------------------- MODULE MC_GeometryOrder -------------------------
(* Equality and the containment order of data descriptions (ProjDataInfo::  *)
(* operator==, operator>=), checked on every PAIR of configurations of one  *)
(* scanner and one view/TOF sampling: a >= b iff every bin of b is a bin of *)
(* a with the same detector pairs (T10); == is mutual containment (T11);    *)
(* >= is transitive (T12, third configuration quantified inside).           *)
(* Comparison operators of DetectionPosition, DetectionPositionPair and Bin *)
(* (T14) are checked once, as assumptions, over small cubes of values.      *)
EXTENDS Geometry
CONSTANTS Ns, MaxR, Mashes, TofMashes
VARIABLES a, b, k, ipT, binTa, binTb

Layouts(N, R, mash, tofMash) ==
  { x \in [N : {N}, R : {R}, span : 1..(2 * R - 1), ge : BOOLEAN, maxDelta : 0..(R - 1), mash : {mash}, tofMash : {tofMash},
           maxT : {IF tofMash = 0 THEN 0 ELSE 5}, minTang : { -(N \div 2) + 1, 0 }, maxTang : { 0, (N \div 2) - 1 },
           minSeg : (-R)..0, maxSeg : 0..R] :
      /\ (x.ge => x.span = 1)
      /\ LegalConfigA(x)
      \* segment ranges: the full one, one segment fewer at either end or at both ends
      /\ x.maxSeg \in { FullMaxSeg(x), FullMaxSeg(x) - 1 } /\ x.minSeg \in { -FullMaxSeg(x), -FullMaxSeg(x) + 1 }
      \* the truncated-last-segment class of known finding C01-truncseg is outside the theorems
      /\ ~TruncSingleRD(x) }
Samplings == { s \in Ns \X (1..MaxR) \X Mashes \X TofMashes : (s[1] \div 2) % s[3] = 0 }

Init == /\ k = 0 /\ ipT = <<>> /\ binTa = <<>> /\ binTb = <<>>
        /\ \E s \in Samplings : /\ a \in Layouts(s[1], s[2], s[3], s[4])
                                /\ b \in Layouts(s[1], s[2], s[3], s[4])
Next == /\ k < 3 /\ k' = k + 1 /\ a' = a /\ b' = b
        /\ ipT' = IF k = 0 THEN IpTable(a) ELSE ipT
        /\ binTa' = IF k = 1 THEN BinTable(a, ipT) ELSE binTa
        /\ binTb' = IF k = 1 THEN BinTable(b, ipT) ELSE binTb
Spec == Init /\ [][Next]_<<a, b, k, ipT, binTa, binTb>>

Inv10 == k = 2 => T10(a, binTa, b, binTb)
Inv11 == k = 3 => T11(a, b)
Inv12 == k = 3 => \A d \in Layouts(a.N, a.R, a.mash, a.tofMash) : T12(a, b, d)
\* non-vacuity: both outcomes of >= and == occur
SeenGE == ~(k = 3 /\ CfgGE(a, b) /\ ~CfgEq(a, b))
SeenNotGE == ~(k = 3 /\ ~CfgGE(a, b) /\ ~CfgGE(b, a))

DPs == (0..2) \X (0..2) \X (0..2)
DP2 == (0..1) \X (0..1) \X {0}
DPPs == DP2 \X DP2 \X (-1..1)
BinRecs == [seg : {0, 1}, ax : {0, 1}, view : {0, 1}, tang : {0}, tof : -1..1, frame : {1, 2}, val : {0, 1}]
ASSUME T14dp(DPs)
ASSUME T14dpp(DPPs)
ASSUME T14bin(BinRecs)
=============================================================================
