SPECIFICATION Spec
CONSTANTS Deep = FALSE Which = {1}
INVARIANTS InvBoundary InvMean InvSym InvSep InvPad
CHECK_DEADLOCK FALSE
