SPECIFICATION Spec
CONSTANTS MaxOps = 7 MaxNp = 2 MaxNd = 2 Bug = "none" ZoomAuto = FALSE
INVARIANTS InvValid InvReads InvSetter InvErr InvSetUp
CHECK_DEADLOCK FALSE
