SPECIFICATION Spec
CONSTANTS MaxAmp = 700 Deep = TRUE
INVARIANTS InvRoundTrip InvTruncated InvFile InvScale
CHECK_DEADLOCK FALSE
