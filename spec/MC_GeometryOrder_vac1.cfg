SPECIFICATION Spec
CONSTANTS Ns = {4} MaxR = 2 Mashes = {1} TofMashes = {0}
INVARIANTS SeenGE
CHECK_DEADLOCK FALSE
