------------------------------- MODULE MC_Zoom -------------------------------
(* Exhaustive check of the theorems of Zoom.tla: every 1-D configuration of a    *)
(* small family (input size, non-negative integer values, the seven zooms,       *)
(* offsets in quarter voxels, input origin, output size, both index conventions) *)
(* and a family of 3-D configurations for separability and composition.          *)
(* The invariants are evaluated on every configuration (state with done).        *)
EXTENDS Zoom
CONSTANTS MaxIn, MaxVal, MaxOut, OffR, Z3Idx
ZoomSeq == << <<1, 3>>, <<1, 2>>, <<2, 3>>, <<1, 1>>, <<3, 2>>, <<2, 1>>, <<3, 1>> >>
Zooms3 == { ZoomSeq[i] : i \in Z3Idx }
VARIABLES cfg, done

Funs(n) == [1..n -> 0..MaxVal]
Cfg1 == { x \in [kind : {"d1"}, n : 1..MaxIn, lo : {-2, 0}, pq : Zooms, o : (-OffR)..OffR, oi : {0, -3}, m : 1..MaxOut, zf : BOOLEAN] : TRUE }
\* 3-D: input 2 x 2 x 3 (z, y, x) with index ranges starting at 0 / -1 / -1, values from a pattern
Cfg3 == [kind : {"d3"}, pz : Zooms3, py : Zooms3, px : Zooms3, o : {-3, 0, 2}, pat : 0..2, opt : 0..2]

In1(x) == [lo |-> x.lo, hi |-> x.lo + x.n - 1, org |-> x.oi * x.pq[1], vox |-> 4 * x.pq[1]]
Out1z(x) == ZoomGrid1(In1(x), 4 * x.pq[2], x.o * x.pq[1], x.m, x.zf)
Out1(x) == GridOf(Out1z(x))
Shift(f, lo) == [ i \in lo..(lo + Len(f) - 1) |-> f[i - lo + 1] ]

GI3(x) == << [lo |-> 0, hi |-> 1, org |-> 0, vox |-> 4 * x.pz[1]],
             [lo |-> -1, hi |-> 0, org |-> x.py[1], vox |-> 4 * x.py[1]],
             [lo |-> -1, hi |-> 1, org |-> 0, vox |-> 4 * x.px[1]] >>
N3(x) == << (2 * x.pz[1]) \div x.pz[2] + 1, (2 * x.py[1]) \div x.py[2] + 1, (3 * x.px[1]) \div x.px[2] + 1 >>
GO3z(x) == ZoomGrid3(GI3(x), << 4 * x.pz[2], 4 * x.py[2], 4 * x.px[2] >>, << 0, x.o * x.py[1], -(x.o) * x.px[1] >>, N3(x))
GO3(x) == << GridOf(GO3z(x)[1]), GridOf(GO3z(x)[2]), GridOf(GO3z(x)[3]) >>
F3(x) == [ i \in Idx3(GI3(x)) |-> ((i[1] * 5 + (i[2] + 1) * 3 + (i[3] + 1) * 2 + x.pat) % 3) * (IF x.pat = 2 THEN 2 ELSE 1) ]

\* initial states: one per zoom (1-D) / zoom along z (3-D); the step picks the rest of the configuration, so that
\* TLC's workers share the configurations
Init == done = FALSE /\ cfg \in [kind : {"pick1"}, pq : Zooms] \cup [kind : {"pick3"}, pz : Zooms3]
Check1 == cfg.kind = "pick1" /\ ~done /\ done' = TRUE /\ cfg' \in { x \in Cfg1 : x.pq = cfg.pq }
Check3 == cfg.kind = "pick3" /\ ~done /\ done' = TRUE /\ cfg' \in { x \in Cfg3 : x.pz = cfg.pz }
Next == Check1 \/ Check3
Spec == Init /\ [][Next]_<<cfg, done>>

Is1 == cfg.kind = "d1"
\* the origin of the constructed grid is a whole number of units (so that GridOf loses nothing)
InvWhole == Is1 => WholeOrigin(Out1z(cfg))
\* "offsets_in_mm == new_middle - old_middle", index range "from 0" / "from -(new_size/2)"
InvMiddle == Is1 => /\ Middle2(Out1(cfg)) - Middle2(In1(cfg)) = 4 * cfg.o * cfg.pq[1]
                    /\ Size(Out1(cfg)) = cfg.m
                    /\ Out1(cfg).lo = (IF cfg.zf THEN 0 ELSE -(cfg.m \div 2))
InvSum == Is1 => \A f \in Funs(cfg.n) : SumPreserved1(Shift(f, cfg.lo), In1(cfg), Out1(cfg))
InvCom == Is1 => \A f \in Funs(cfg.n) : ComKept1(Shift(f, cfg.lo), In1(cfg), Out1(cfg))
InvComTight == Is1 => \A f \in Funs(cfg.n) : ComKeptTight1(Shift(f, cfg.lo), In1(cfg), Out1(cfg))
InvUniform == Is1 => \A f \in Funs(cfg.n) : \A a, b \in Idx(In1(cfg)) :
                        a <= b => UniformKept1(Shift(f, cfg.lo), In1(cfg), Out1(cfg), a, b, Shift(f, cfg.lo)[a])
\* zoom 1 with an offset of whole voxels and enough room only moves the values
InvShift == (Is1 /\ cfg.pq = <<1, 1>>) =>
              \A f \in Funs(cfg.n) : \A j \in Idx(Out1(cfg)) :
                 LET g == Shift(f, cfg.lo)
                     \* input voxels with the same centre (none when the grids are half a voxel apart:
                     \* "for even-sized images, this convention can lead to ... half-pixel shifts")
                     K == { k \in (-100)..100 : Centre2(In1(cfg), k) = Centre2(Out1(cfg), j) } IN
                 K # {} => LET i == CHOOSE k \in K : TRUE IN
                           Interp1Num(g, In1(cfg), Out1(cfg), j) = Den1(In1(cfg)) * (IF i \in Idx(In1(cfg)) THEN g[i] ELSE 0)
\* re-labelling the indices of an axis in the standard way (what a zoom along ANOTHER axis does to this one)
\* neither changes the physical grid nor the grid a later zoom constructs: composing per-axis zooms gives the
\* grid of the single call
InvRelabel == Is1 =>
   LET r == GridOf(ZoomGrid1(In1(cfg), In1(cfg).vox, 0, cfg.n, cfg.zf)) IN
   /\ LeftEdge(r, r.lo) = LeftEdge(In1(cfg), In1(cfg).lo) /\ RightEdge(r, r.hi) = RightEdge(In1(cfg), In1(cfg).hi)
   /\ ZoomGrid1(r, 4 * cfg.pq[2], cfg.o * cfg.pq[1], cfg.m, cfg.zf) = Out1z(cfg)

\* vacuity guard: MUST be refuted (MC_Zoom_vac.cfg) - the antecedents of InvSum / InvCom / InvUniform are satisfiable
\* with a genuine zoom, a shift and a non-trivial image
InvNeverCovers == (Is1 /\ cfg.pq # <<1, 1>> /\ cfg.o # 0) =>
                     \A f \in Funs(cfg.n) : ~(/\ Covers1(In1(cfg), Out1(cfg), { i \in Idx(In1(cfg)) : Shift(f, cfg.lo)[i] # 0 })
                                              /\ Cardinality({ i \in Idx(In1(cfg)) : Shift(f, cfg.lo)[i] # 0 }) >= 2)
Is3 == cfg.kind = "d3"
\* the closed form (triple sum) is the composition of the three 1-D passes of the implementation
InvSeparable == Is3 => ThreePasses(F3(cfg), GI3(cfg), GO3(cfg)) = [ j \in Idx3(GO3(cfg)) |-> Interp3Num(F3(cfg), GI3(cfg), GO3(cfg), j) ]
\* 3-D sum: preserve_sum keeps the total when the grid covers the image (N3 voxels always cover it for offsets
\* within a voxel of slack ... not in general): total = Den * sum whenever every axis covers
Covers3(x) == \A a \in 1..3 : Covers1(GI3(x)[a], GO3(x)[a], Idx(GI3(x)[a]))
Tot3(x) == FoldSet(LAMBDA j, acc : acc + ZoomNum(F3(x), GI3(x), GO3(x), x.opt, j), 0, Idx3(GO3(x)))
InSum3(x) == FoldSet(LAMBDA i, acc : acc + F3(x)[i], 0, Idx3(GI3(x)))
InvSum3 == (Is3 /\ Covers3(cfg)) =>
             \* out total / ZoomDen = in total * scale:  Tot3 / (Den3 * s2) = InSum3 * ... (s1 already in Tot3)
             Tot3(cfg) = Den3(GI3(cfg)) * InSum3(cfg) * ScaleOf(cfg.opt, GI3(cfg), GO3(cfg))[1]
\* the documented examples of overlap_interpolate
Ex(f, lo, hi, P, Q, off4, olo, ohi) ==
  LET gi == [lo |-> lo, hi |-> hi, org |-> 0, vox |-> 4 * P]
      \* "x_in = x_out / zoom + offset": output index 0 sits at offset (in input voxels): org = off4 * P units
      go == [lo |-> olo, hi |-> ohi, org |-> off4 * P, vox |-> 4 * Q] IN
  [ j \in olo..ohi |-> Interp1Num(f, gi, go, j) ]
\* in = {a,b,c,d} (0..3), zoom .5, offset .5: out = {a+b, c+d};  offset -.5: out = {a, b+c, d} (0..2);
\* in = {a,b,c} (-1..1), zoom .5, offset 0: out = {a/2, a/2+b+c/2, c/2} (-1..1)     (a,b,c,d = 1,2,4,8; Den = 8)
ASSUME Examples ==
  /\ Ex([i \in 0..3 |-> 2^i], 0, 3, 1, 2, 2, 0, 1) = [ j \in 0..1 |-> IF j = 0 THEN 8 * 3 ELSE 8 * 12 ]
  /\ Ex([i \in 0..3 |-> 2^i], 0, 3, 1, 2, -2, 0, 2) = [ j \in 0..2 |-> IF j = 0 THEN 8 * 1 ELSE IF j = 1 THEN 8 * 6 ELSE 8 * 8 ]
  /\ Ex([i \in (-1)..1 |-> 2^(i + 1)], -1, 1, 1, 2, 0, -1, 1) = [ j \in (-1)..1 |-> IF j = -1 THEN 4 ELSE IF j = 0 THEN 4 + 16 + 16 ELSE 16 ]
=============================================================================
