SPECIFICATION Spec
CONSTANTS MaxOps = 6 MaxNp = 2 MaxNd = 1 Bug = "none" ZoomAuto = TRUE
INVARIANTS InvValid InvReads InvSetter InvErr InvSetUp
CHECK_DEADLOCK FALSE
