SPECIFICATION Spec
CONSTANTS MaxOps = 11 MaxNp = 2 MaxNd = 2 Bug = "none" ZoomAuto = TRUE
INVARIANTS InvValid InvReads InvSetter InvErr InvSetUp
CHECK_DEADLOCK FALSE
