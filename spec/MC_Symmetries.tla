---------------------------- MODULE MC_Symmetries ----------------------------
(* Exhaustive check of theorems S1-S3 of Symmetries.tla over a family of    *)
(* small configurations (data geometry x z-grid) and every admissible       *)
(* effective switch setting: one initial state per (configuration,          *)
(* setting), one step per theorem.  Step 4 checks the guard logic of        *)
(* EffectiveSwitches over all flag combinations of the configuration, step  *)
(* 6 decides which symmetry clauses survive for chords between detector     *)
(* centres (use_actual_detector_boundaries).  Step                          *)
(* 5 that (for rich configurations with every symmetry on) each of the 17   *)
(* operation classes is actually chosen by some bin (vacuity guard).        *)
EXTENDS Symmetries
CONSTANTS Ns, Rs, Spans, MaxT, Nppr
VARIABLES c, g, esw, k

Raw == [N : Ns, R : Rs, span : Spans, dred : 0..1, mash : {1, 2}, tofMash : {0, 1}, T : 1..MaxT, asym : 0..1]
Data(x) ==
  LET c0 == [N |-> x.N, R |-> x.R, span |-> x.span, ge |-> FALSE, maxDelta |-> x.R - 1 - x.dred, mash |-> x.mash,
             tofMash |-> x.tofMash, maxT |-> 3, minTang |-> -x.T, maxTang |-> x.T - x.asym, minSeg |-> 0, maxSeg |-> 0]
  IN IF c0.maxDelta >= 0 /\ c0.maxDelta >= Half0(c0) THEN [c0 EXCEPT !.maxSeg = FullMaxSeg(c0), !.minSeg = -FullMaxSeg(c0)] ELSE c0
RawOk(x) == /\ x.span <= 2 * x.R - 1 /\ x.R - 1 - x.dred >= 0 /\ (x.N \div 2) % x.mash = 0
            /\ x.T <= (x.N \div 2) - 1
Grid(cc, n, zextra, o, sq, x0, tl, ge) ==
  [zmin |-> 0, zmax |-> n * (cc.R - 1) + zextra, nppr |-> n, oz |-> o, square |-> sq, xy0 |-> x0, tilt |-> tl, geom |-> ge]
Grids(cc) == { Grid(cc, n, ze, o, TRUE, TRUE, FALSE, "Cylindrical") : n \in Nppr, ze \in 0..1, o \in {0, 1} }
AdmissibleEsw(cc, gg) == { EffectiveSwitches(cc, gg, sw) : sw \in Switches }

Init == /\ k = 0
        /\ c \in { Data(x) : x \in { y \in Raw : RawOk(y) } }
        /\ g \in Grids(c)
        /\ SymConfigOk(c, g)
        /\ esw \in AdmissibleEsw(c, g)
Next == k < 7 /\ k' = k + 1 /\ UNCHANGED <<c, g, esw>>
vars == <<c, g, esw, k>>
Spec == Init /\ [][Next]_vars

Inv1 == k = 1 => \A b \in AllBins(c) : S1(c, g, esw, b)
Inv2 == k = 2 => \A b \in AllBins(c) : S2(c, g, esw, b)
Inv3 == k = 3 => \A b \in AllBins(c) : S3(c, esw, b)

\* guards of EffectiveSwitches: what survives is admissible for the algebra, requesting what
\* survived changes nothing, fewer requests never give more, and the documented implications hold
EffProps ==
  \A sq, x0, tl \in BOOLEAN : \A ge \in {"Cylindrical", "BlocksOnCylindrical", "Generic"} : \A sw \in Switches :
    LET gg == [g EXCEPT !.square = sq, !.xy0 = x0, !.tilt = tl, !.geom = ge]
        e == EffectiveSwitches(c, gg, sw)
        nvw == NumViews(c)
    IN /\ e.s90 => (e.s180 /\ nvw % 4 = 0 /\ sq)
       /\ e.s180 => nvw % 2 = 0
       /\ (e.s90 \/ e.s180) => (c.mash = 1 /\ ~tl)
       /\ (IsTof(c) \/ ~x0) => (~e.s90 /\ ~e.s180 /\ ~e.sseg /\ ~e.ss)
       /\ ge = "Generic" => e = NoSym
       /\ ge = "BlocksOnCylindrical" => (~e.s90 /\ ~e.s180 /\ ~e.sseg /\ ~e.ss)
       /\ ge = "Cylindrical" => EffectiveSwitches(c, gg, e) = e
       /\ \A f \in {"s90", "s180", "sseg", "ss", "sz"} : (ge = "Cylindrical" /\ e[f]) => (sw[f] \/ (f = "s180" /\ sw.s90))
Inv4 == k = 4 => EffProps

Rich == NumViews(c) % 4 = 0 /\ NumViews(c) >= 8 /\ c.R >= 2 /\ c.maxTang >= 1 /\ c.maxSeg >= 1 /\ esw.s90 /\ esw.sseg /\ esw.ss /\ esw.sz
Inv5 == (k = 5 /\ Rich) => { FindOp(c, g, esw, b).name : b \in AllBins(c) } = { o.name : o \in OpClasses }
\* chords between detector centres (use_actual_detector_boundaries): which clauses survive; the relation
\* does fail somewhere once a phi symmetry is on (so the clause is not vacuous)
Inv6 == (k = 6 /\ c.mash = 1 /\ c.span = 1) =>
          /\ ChordClauses(c, g, esw)
          /\ (esw.s180 /\ c.maxTang >= 1 /\ c.minTang <= -1 /\ NumViews(c) >= 4) => \E b \in AllBins(c) : ~S2det(c, g, esw, b)
\* block geometry (shift_z only): the configuration is re-read as BlocksOnCylindrical with cpb crystals per block
BlocksOf(cpb) == [c EXCEPT !.mash = 1] @@ [cpb |-> cpb, uniform |-> TRUE]
Inv7 == (k = 7 /\ c.span = 1 /\ c.mash = 1 /\ c.tofMash = 0) =>
          \A cpb \in { x \in 1..c.R : c.R % x = 0 } : \A z \in BOOLEAN :
            LET cb == BlocksOf(cpb)
                gb == [g EXCEPT !.geom = "BlocksOnCylindrical"]
                eb == [NoSym EXCEPT !.sz = z]
            IN BlocksConfigOk(cb, gb) /\ \A b \in AllBins(cb) : S1Blocks(cb, gb, eb, b) /\ S2Blocks(cb, gb, eb, b)
=============================================================================
