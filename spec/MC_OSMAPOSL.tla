---------------------------- MODULE MC_OSMAPOSL ----------------------------
(* Model check of OSMAPOSL.tla itself.                                       *)
(*                                                                           *)
(* Part 1 (SpecT): the clauses of C07 that relate the update law to the      *)
(* other statements of the property, evaluated with the module's own fixed-  *)
(* point operators over a family of small exact instances (3 voxels,         *)
(* 10 bins, 2 views, two explicit matrices; every image in 0..MaxLam, data   *)
(* y = q d, additive term, efficiencies, 1 and 2 subsets, subset             *)
(* sensitivities on/off, no prior / additive / multiplicative MAP model      *)
(* with prior gradients on both sides of both clamps).  One initial state    *)
(* per instance, one step per theorem.                                       *)
(*                                                                           *)
(* Part 2 (SpecR): restart.  The image is abstracted as the list of          *)
(* operations applied to the start image (Tag); the uninterrupted run saves  *)
(* it after every sub-iteration; it is then interrupted at any k and resumed *)
(* with "start at subiteration number" = k+1.  RestartEq: the resumed run    *)
(* passes through the saved images.  Two deliberately wrong variants must be *)
(* refuted (run by checks/c07.py): Renumber (the resumed run counts its      *)
(* sub-iterations from 1) and Eip (set_up of the resumed run replaces the    *)
(* zeros of the saved image: the known finding C07-restart-positivity).      *)
EXTENDS OSMAPOSL
CONSTANTS MaxLam, NumPatterns, MaxN, MaxIters, Renumber, Eip
VARIABLES c, k, m,                       \* part 1
          g, ph, kk, rk, img, sv, zeros  \* part 2
vars == << c, k, m, g, ph, kk, rk, img, sv, zeros >>

(* ------------------------------------------------------------------ part 1 *)
NV == 3
BinsT == << <<-1, 0, 0, 0, 0>>, <<-1, 1, 0, 0, 0>>,
            <<0, 0, 0, 0, 0>>, <<0, 0, 1, 0, 0>>, <<0, 0, 2, 0, 0>>,
            <<0, 1, 0, 0, 0>>, <<0, 1, 1, 0, 0>>, <<0, 1, 2, 0, 0>>,
            <<1, 0, 0, 0, 0>>, <<1, 1, 0, 0, 0>> >>
Rows1 == << << <<1, 1>> >>, << <<2, 2>>, <<3, 1>> >>, << <<1, 2>> >>, << <<2, 1>>, <<1, 1>> >>, << <<3, 3>> >>,
            << <<1, 1>>, <<2, 1>>, <<3, 1>> >>, << <<2, 2>> >>, << <<3, 1>>, <<1, 2>> >>, << <<2, 1>> >>, << <<3, 2>>, <<2, 1>> >> >>
\* voxel 3 is only seen by bins of view 1 (subset 1 of 2): its sensitivity in subset 0 is zero
Rows2 == << << <<2, 1>> >>, <<>>, << <<2, 1>>, <<1, 1>> >>, << <<1, 2>> >>, <<>>,
            << <<2, 3>> >>, << <<1, 1>>, <<3, 2>> >>, << <<3, 1>> >>, << <<1, 1>>, <<2, 2>> >>, << <<1, 3>> >> >>

RECURSIVE ColSeq(_, _, _)
ColSeq(rows, v, b) ==
  IF b > Len(rows) THEN <<>>
  ELSE LET hit == SelectSeq(rows[b], LAMBDA e : e[1] = v) IN
       (IF hit = <<>> THEN <<>> ELSE << << b, hit[1][2] >> >>) \o ColSeq(rows, v, b + 1)
SysFor(rows) == [nv |-> NV, numViews |-> 2, minView |-> 0, minAx0 |-> 0, maxAx0 |-> 2, maxSegData |-> 1, bins |-> BinsT,
                 rows |-> rows, cols |-> [v \in 1..NV |-> ColSeq(rows, v, 1)]]

Pat(p, b, lo, hi) == lo + ((b * (p + 1) + p * p) % (hi - lo + 1))
AOf(p) == [b \in 1..10 |-> IF p = 0 THEN 0 ELSE Pat(p, b, 0, 2)]
QOf(p) == [b \in 1..10 |-> IF p = 0 THEN 1 ELSE Pat(p, b, 0, 3)]          \* pattern 0: y = d (consistent data)
EOf(p) == [b \in 1..10 |-> IF p = 0 THEN 0 ELSE Pat(p, b, -2, 0)]
\* prior gradients (scale 2^GK) on both sides of both clamps of both MAP models, and zero
GVals == << 0, -2000, -200, 300, 20000 >>
GOf(p) == [v \in 1..NV |-> GVals[1 + ((p + v * v) % 5)]]

Raw == [rows : {Rows1, Rows2}, lam : [1..NV -> 0..MaxLam], ap : 0..(NumPatterns - 1), qp : 0..(NumPatterns - 1), ep : 0..(NumPatterns - 1),
        N : 1..2, uss : BOOLEAN, prior : 0..1, mult : BOOLEAN, gp : 0..2]
Inst(q) ==
  LET a == AOf(q.ap)
      d == [b \in 1..10 |-> RowDot(q.rows[b], q.lam) + a[b]]
  IN [I |-> [N |-> q.N, startSubset |-> 0, uss |-> q.uss, a |-> a, ef |-> EOf(q.ep), prior |-> q.prior, mult |-> q.mult,
             iuf |-> 0, iif |-> 0, zero |-> FALSE, maxSeg |-> 1],
      sys |-> SysFor(q.rows), lam |-> q.lam, y |-> [b \in 1..10 |-> QOf(q.qp)[b] * d[b]], gv |-> GOf(q.gp),
      consistent |-> q.qp = 0, plainEff |-> q.ep = 0, noAdd |-> q.ap = 0]

Prev(cc) == [v \in 1..NV |-> cc.lam[v] * P2IK]
\* the new image (<<value, tolerance>> per voxel) for every subset, computed once per instance
Memo7(cc) ==
  LET st == SensTab(cc.sys, cc.I) IN
  [st |-> st,
   new |-> [s \in 0..(cc.I.N - 1) |-> [v \in 1..NV |-> StepVoxel(cc.sys, cc.I, st, Prev(cc), cc.y, 0, cc.gv, 0, s, v)]],
   \* the same without prior (plain EM)
   em |-> [s \in 0..(cc.I.N - 1) |-> [v \in 1..NV |-> StepVoxel(cc.sys, [cc.I EXCEPT !.prior = 0], st, Prev(cc), cc.y, 0, cc.gv, 0, s, v)]],
   \* and with a prior gradient that is larger everywhere
   up |-> [s \in 0..(cc.I.N - 1) |-> [v \in 1..NV |-> StepVoxel(cc.sys, cc.I, st, Prev(cc), cc.y, 0, [w \in 1..NV |-> cc.gv[w] + 500], 0, s, v)]]]

InitT == /\ k = 0 /\ m = <<>>
         /\ c \in { Inst(q) : q \in { r \in Raw : (r.prior = 0 => (~r.mult /\ r.gp = 0)) } }
         /\ g = 0 /\ ph = "-" /\ kk = 0 /\ rk = 0 /\ img = <<>> /\ sv = <<>> /\ zeros = FALSE
NextT == /\ k < 7 /\ k' = k + 1 /\ c' = c
         /\ m' = IF k = 0 THEN Memo7(c) ELSE m
         /\ UNCHANGED << g, ph, kk, rk, img, sv, zeros >>
SpecT == InitT /\ [][NextT]_vars

Subs == 0..(c.I.N - 1)
InRange(e) == e[1] < Huge /\ e[2] < Huge
\* the instances are inside the range of the arithmetic and exact
T1 == k = 1 => /\ InstanceOk7(c.sys, c.I) /\ ExactStep(c.sys, c.I, c.lam, c.y) /\ Balanced(c.sys, c.I.N)
               /\ \A s \in Subs : StepInDomain(c.sys, c.I, Prev(c), c.y, c.gv, s)
               /\ \A s \in Subs : \A v \in 1..NV : VoxelInDomain(c.sys, c.I, Prev(c), c.y, s, v) /\ InRange(m.new[s][v])
\* "non-negative images stay non-negative", "zero where the subset sensitivity is zero", a zero voxel stays zero
T2 == k = 2 => \A s \in Subs : \A v \in 1..NV :
                 /\ m.new[s][v][1] >= 0
                 /\ (SensNum(c.I, m.st, s, v) = 0 => m.new[s][v] = << 0, 0 >>)
                 /\ (c.lam[v] = 0 => m.new[s][v][1] = 0)
\* "without additive term the sensitivity-weighted image sum equals the total of the measured counts after every full-data
\*  update": the law and the count clause of the specification agree (the algebraic identity behind the property)
T3 == k = 3 => ((c.I.N = 1 /\ c.I.prior = 0 /\ c.noAdd /\ CountsSeen(c.sys, c.I, Prev(c), c.y)) =>
                  LET out == [v \in 1..NV |-> m.new[0][v][1]]
                      eo == 1 + Max2(Max2(m.new[0][1][2], m.new[0][2][2]), m.new[0][3][2])
                  IN PreservesCounts(c.sys, c.I, m.st, c.y, out, eo))
\* consistent data (y = P lambda + a) without normalisation is a fixed point of EM with true subset sensitivities
T4 == k = 4 => ((c.consistent /\ c.plainEff /\ c.I.prior = 0 /\ c.I.uss) =>
                  \A s \in Subs : \A v \in 1..NV :
                     SensNum(c.I, m.st, s, v) > 0 => Abs(m.new[s][v][1] - Prev(c)[v]) <= m.new[s][v][2])
\* "the documented bounds on the denominator": the one-step-late update lies between a tenth of and ten times the EM update
T5 == k = 5 => (c.I.prior = 1 =>
                  \A s \in Subs : \A v \in 1..NV :
                     LET e == m.em[s][v]  p == m.new[s][v]  t == 10 * (e[2] + p[2]) + 10 IN
                     /\ 10 * p[1] + t >= e[1] /\ p[1] <= 10 * e[1] + t
                     \* and a vanishing prior gradient gives the EM update
                     /\ (c.gv[v] = 0 => Abs(p[1] - e[1]) <= e[2] + p[2]))
\* one step late: a larger prior gradient never gives a larger new value
T6 == k = 6 => (c.I.prior = 1 => \A s \in Subs : \A v \in 1..NV : m.up[s][v][1] <= m.new[s][v][1] + m.up[s][v][2] + m.new[s][v][2])
\* without subset sensitivities every subset reports total / num_subsets
T7 == k = 7 => (~c.I.uss => \A s \in Subs : \A v \in 1..NV : SensNum(c.I, m.st, s, v) = m.st[1][v] /\ SensDiv(c.I) = c.I.N)

(* ------------------------------------------------------------------ part 2 *)
Configs == { [N |-> n, startSubset |-> ss, iuf |-> fu, iif |-> fi, K |-> n * it] :
               n \in 1..MaxN, ss \in 0..(MaxN - 1), fu \in 0..2, fi \in 0..2, it \in 1..MaxIters }
InitR == /\ g \in { x \in Configs : x.startSubset < x.N }
         /\ zeros \in BOOLEAN                      \* the saved images contain voxels that are zero
         /\ ph = "run" /\ kk = 1 /\ rk = 0 /\ img = <<>> /\ sv = << >>
         /\ c = 0 /\ k = 0 /\ m = <<>>
\* one sub-iteration of the uninterrupted run; the image is saved after it
StepU == /\ ph = "run" /\ kk <= g.K
         /\ img' = Append(img, Tag(g, kk))
         /\ sv' = Append(sv, img')
         /\ kk' = kk + 1
         /\ UNCHANGED << g, ph, rk, zeros, c, k, m >>
\* the run is interrupted after k; a new run is set up from the image saved after k with start_subiteration_num = k + 1
Interrupt == /\ ph = "run" /\ kk = g.K + 1
             /\ \E j \in 1..(g.K - 1) :
                  /\ rk' = j
                  /\ img' = IF Eip /\ zeros THEN Append(sv[j], << "zeros replaced by small positive values" >>) ELSE sv[j]
                  /\ kk' = j + 1
             /\ ph' = "resumed"
             /\ UNCHANGED << g, sv, zeros, c, k, m >>
\* one sub-iteration of the resumed run (Renumber: its sub-iteration counter started from 1 again)
StepR == /\ ph = "resumed" /\ kk <= g.K
         /\ img' = Append(img, Tag(g, IF Renumber THEN kk - rk ELSE kk))
         /\ kk' = kk + 1
         /\ UNCHANGED << g, ph, rk, sv, zeros, c, k, m >>
NextR == StepU \/ Interrupt \/ StepR
SpecR == InitR /\ [][NextR]_vars

(* "A reconstruction resumed at sub-iteration k+1 from the image saved after sub-iteration k produces the same images   *)
(*  as the uninterrupted run."                                                                                        *)
RestartEq == ph = "resumed" => img = sv[kk - 1]
\* the tags of one full iteration use every subset once (the schedule of C06, needed for "full-data" bookkeeping)
SchedOnce == (ph = "run" /\ kk = g.K + 1) =>
                \A it \in 0..(g.K \div g.N - 1) : { sv[g.K][it * g.N + i][1] : i \in 1..g.N } = 0..(g.N - 1)
=============================================================================
