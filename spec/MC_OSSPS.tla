------------------------------ MODULE MC_OSSPS ------------------------------
(* Model check of OSSPS.tla: the step law in fixed point driven by the implementation-shaped   *)
(* object of Part 3 on a 2-voxel, 4-bin, 2-view system, for every configuration of a small      *)
(* family and EVERY history of: reference run of 3 full iterations, crash at any point, resume  *)
(* from the image saved after any completed sub-iteration (new object or the used one), set_up  *)
(* and run the used object again.                                                               *)
(*   Variant = "doc": all invariants must hold.                                                 *)
(*   Variant = "stale_den" | "relative_index" | "relative_subset" | "no_prior_term" |           *)
(*   "refill_on_resume" | "silent_rerun": TLC must                                                               *)
(*   refute an invariant (the runner checks that it does: the model has not lost its bite).     *)
EXTENDS OSSPS, TLC
CONSTANTS Variant, MaxLives, Rich

(* ---- the toy system (PoissonLL's record `sys`): bins 1,2 in view 0, bins 3,4 in view 1 *)
ToySys ==
  [ id |-> 1, tof |-> FALSE, nv |-> 2, numViews |-> 2, minView |-> 0, minAx0 |-> 0, maxAx0 |-> 0, maxSegData |-> 0,
    bins |-> << << 0, 0, 0, 0, 0 >>, << 0, 0, 0, 1, 0 >>, << 0, 1, 0, 0, 0 >>, << 0, 1, 0, 1, 0 >> >>,
    rows |-> << << << 1, 1 >>, << 2, 2 >> >>, << << 1, 2 >> >>, << << 2, 1 >> >>, << << 1, 1 >>, << 2, 1 >> >> >>,
    cols |-> << << << 1, 1 >>, << 2, 2 >>, << 4, 1 >> >>, << << 1, 2 >>, << 3, 1 >>, << 4, 1 >> >> >> ]
(* the same geometry, but no bin sees voxel 2 (zero sensitivity: only a prior can move it) *)
HoleSys ==
  [ ToySys EXCEPT !.id = 2,
    !.rows = << << << 1, 1 >> >>, << << 1, 2 >> >>, << << 1, 1 >> >>, << << 1, 1 >> >> >>,
    !.cols = << << << 1, 1 >>, << 2, 2 >>, << 3, 1 >>, << 4, 1 >> >>, << >> >> ]
SysFor(cc) == IF cc.hole THEN HoleSys ELSE ToySys
KL == 8                     \* images in units 2^-8
(* data: y = 2 (P 1) (so the denominator is exact), additive term 1; "consistent" data y = P t + a for t = <<1, 2>> *)
ToyYq(cc) == IF cc.hole THEN << 8, 16, 8, 8 >> ELSE IF cc.data = "consistent" THEN << 24, 12, 12, 16 >> ELSE << 24, 16, 8, 16 >>
ToyA == << 1, 1, 1, 1 >>
ToyPrior(c) == IF c.prior THEN MakePrior(<< 1, 1, 2 >>, [i \in 1..27 |-> IF i \in {13, 15} THEN 1 ELSE 0], << >>, c.beta) ELSE << >>

Alphas == IF Rich THEN { << 1, 0 >>, << 3, 2 >>, << 1, 1 >>, << 2, 0 >> } ELSE { << 1, 0 >>, << 3, 2 >> }
Gammas == IF Rich THEN { << 0, 0 >>, << 1, 1 >>, << 1, 0 >>, << 3, 0 >> } ELSE { << 0, 0 >>, << 1, 1 >>, << 1, 0 >> }
Inits == IF Rich THEN { << 256, 512 >>, << 0, 640 >>, << 300, 77 >>, << 1, 1 >>, << 640, 640 >> } ELSE { << 256, 512 >>, << 0, 640 >>, << 300, 77 >> }
Configs ==
  { c \in [N : {1, 2}, startSubset : {0, 1}, aN : {1, 2, 3}, aK : {0, 1, 2}, gN : {0, 1, 3}, gK : {0, 1}, uInf : BOOLEAN,
           uN : IF Rich THEN {5, 3} ELSE {5}, uK : {1},
           prior : BOOLEAN, dep : BOOLEAN, beta : {0, 2}, data : {"plain", "consistent"}, hole : BOOLEAN, init : Inits] :
      /\ c.startSubset < c.N
      /\ << c.aN, c.aK >> \in Alphas /\ << c.gN, c.gK >> \in Gammas
      /\ (c.prior <=> c.beta = 2) /\ (c.dep => c.prior) /\ (c.uInf => c.uN = 5)
      /\ (c.data = "consistent" => (~c.prior /\ c.init = << 256, 512 >>))
      /\ (c.hole => (c.data = "plain" /\ << c.aN, c.aK >> = << 1, 0 >> /\ c.init \in { << 256, 512 >>, << 300, 77 >> })) }
K(c) == 3 * c.N

VARIABLES c, o, lam, hist, phase, lives, lastStep
vars == << c, o, lam, hist, phase, lives, lastStep >>

(* ---- one sub-iteration of the law in fixed point (gradient by floor division) *)
XOf(cc, im) == [lam |-> im, yq |-> ToyYq(cc), a |-> ToyA, N |-> cc.N, zero |-> FALSE, maxSeg |-> 0]
DFx(cc, im, b) == RowDot(SysFor(cc).rows[b], im) + ToyA[b] * 2^KL               \* P lambda + a, units 2^-KL
UsedAll == [b \in 1..4 |-> TRUE]
GradLLFx(cc, im, s, v) ==                                                       \* units 1/16
  LET X == XOf(cc, im)
      m == [used |-> UsedAll]
      g(b) == (4 * X.yq[b] * 2^KL) \div DFx(cc, im, b) - 16
  IN Back(SysFor(cc), X, m, g, s, v)
NGradFx(cc, im, s, v) == cc.N * GradLLFx(cc, im, s, v) - PriorGrad(ToyPrior(cc), im, v) \div 16
DenFx(cc, terms, v) ==                                                          \* units 2^-HK, with `terms' penalty terms in it
  LET X == XOf(cc, << 1, 1 >>)
      m == XMemo(SysFor(cc), X)
  IN XDenData(SysFor(cc), X, m, v) + terms * 2 * 1024 * PriorCurv(ToyPrior(cc), v)
ZeroSens(cc, v) == Len(SysFor(cc).cols[v]) = 0

Init ==
  /\ c \in Configs /\ o = FreshObject /\ lam = c.init /\ hist = << >> /\ phase = "new" /\ lives = 0 /\ lastStep = << >>

SetUpFresh ==
  /\ phase = "new"
  /\ o' = ObjSetUp(FreshObject, 1, K(c), Variant) /\ lam' = c.init /\ phase' = "ref"
  /\ UNCHANGED << c, hist, lives, lastStep >>

SubIter ==
  /\ phase \in {"ref", "resumed", "again"} /\ CanStep(o)
  /\ LET k == o.k
         n == IndexUsed(c, o, Variant)
         s == SubsetUsed(c, o, Variant)
         terms == PenaltyTermsUsed(c, o, Variant)
         zs(v) == ZeroSens(c, v)
         est == IF FillApplies(k, o.start, Variant) THEN FillNonIdentifiable(lam, zs) ELSE lam
         ng == [v \in 1..2 |-> NGradFx(c, est, s, v)]
         D == [v \in 1..2 |-> DenFx(c, terms, v)]
         new == [v \in 1..2 |-> IF D[v] > 0 THEN StepValue(c, n, est[v], ng[v], D[v], KL, GK, HK) ELSE ClampU(c, est[v], KL)]
     IN /\ lam' = new
        /\ hist' = IF k \in DOMAIN hist THEN hist ELSE (k :> new) @@ hist
        /\ lastStep' = [k |-> k, n |-> n, sub |-> s, terms |-> terms, D |-> D, ng |-> ng, from |-> est,
                        match |-> (k \in DOMAIN hist => new = hist[k])]
        /\ o' = ObjStep(c, o, Variant)
        /\ phase' = IF k = o.last THEN "done" ELSE phase
  /\ UNCHANGED << c, lives >>

(* a crash at any point of any run: the process is gone, the saved images remain *)
Crash ==
  /\ phase \in {"ref", "resumed", "again"} /\ hist # << >> /\ lives < MaxLives
  /\ phase' = "down" /\ o' = FreshObject /\ lastStep' = << >>
  /\ UNCHANGED << c, lam, hist, lives >>

(* resume from the image saved after sub-iteration j: a new object, or (after a completed run) the used one *)
Resume(j, sameObject) ==
  /\ phase \in {"down", "done"} /\ lives < MaxLives /\ j \in DOMAIN hist /\ j < K(c)
  /\ sameObject => phase = "done"
  /\ o' = ObjSetUp(IF sameObject THEN o ELSE FreshObject, j + 1, K(c), Variant)
  /\ lam' = hist[j] /\ phase' = "resumed" /\ lives' = lives + 1 /\ lastStep' = << >>
  /\ UNCHANGED << c, hist >>

(* the used object is set up and run again from the original start image *)
Again ==
  /\ phase = "done" /\ lives < MaxLives
  /\ o' = ObjSetUp(o, 1, K(c), Variant) /\ lam' = c.init /\ phase' = "again" /\ lives' = lives + 1 /\ lastStep' = << >>
  /\ UNCHANGED << c, hist >>

(* reconstruct once more WITHOUT set_up: documented as illegal - an error, nothing runs *)
RerunWithoutSetUp ==
  /\ phase = "done" /\ lives < MaxLives
  /\ o' = ObjRerunWithoutSetUp(o, Variant) /\ lives' = lives + 1 /\ lastStep' = << >>
  /\ IF RerunReportsError(Variant) THEN phase' = "error" /\ lam' = lam ELSE phase' = "again" /\ lam' = c.init
  /\ UNCHANGED << c, hist >>

Next == RerunWithoutSetUp \/ SetUpFresh \/ SubIter \/ Crash \/ Again \/ \E j \in 1..6 : \E same \in BOOLEAN : Resume(j, same)
Spec == Init /\ [][Next]_vars

(* ---- the property *)
UFx == UpperFx(c, KL)
\* "Iterates therefore always lie within [0, upper bound]"
InvBounds == lastStep # << >> => \A v \in 1..2 : lam[v] >= 0 /\ (c.uInf \/ lam[v] <= UFx)
\* "D the strictly positive precomputed curvature (minus the approximate Hessian applied to a uniform image, plus twice
\*  the prior's surrogate curvature)": every sub-iteration divides by exactly that
InvDenominator == lastStep # << >> => (DenominatorIsDefinition(c, lastStep.terms) /\ \A v \in 1..2 : (lastStep.D[v] > 0 \/ (ZeroSens(c, v) /\ ~c.prior)))
\* "zeta_n = alpha / (1 + gamma n) the relaxation for full iteration n" (n as the code computes it), subset of the schedule
InvSchedule == lastStep # << >> => (lastStep.n = RelaxationIndex(lastStep.k, c.N) /\ lastStep.sub = SubsetOf(c, lastStep.k))
\* "resuming from a saved iterate reproduces the uninterrupted run" (also on a used object, also after set_up + run again)
InvResume == lastStep # << >> => lastStep.match
\* consequences of the law: the update never moves against the gradient (D > 0, zeta > 0, the clamp only shortens the move) ...
InBounds(x) == x >= 0 /\ (c.uInf \/ x <= UFx)
InvAscentDirection ==
  lastStep # << >> => \A v \in 1..2 : InBounds(lastStep.from[v]) => (lam[v] - lastStep.from[v]) * lastStep.ng[v] >= 0
\* ... and an image inside the bounds that explains the data exactly (zero gradient, no prior) is a fixed point
InvFixedPoint == (c.data = "consistent" /\ phase # "new" /\ \A v \in 1..2 : InBounds(c.init[v])) => lam = c.init
\* bookkeeping of the object: a run never goes beyond its last sub-iteration
InvObject == o.k <= K(c) + 1 /\ (phase = "done" => ~CanStep(o))

=============================================================================
