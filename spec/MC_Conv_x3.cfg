SPECIFICATION Spec
CONSTANTS Deep = FALSE Which = {3}
INVARIANTS InvBoundary InvMean InvSym InvSep InvPad
CHECK_DEADLOCK FALSE
