SPECIFICATION Spec
CONSTANTS Variant = "doc" MaxLives = 1 Rich = FALSE
INVARIANTS InvBounds InvDenominator InvSchedule InvResume InvAscentDirection InvFixedPoint InvObject
CHECK_DEADLOCK FALSE
