SPECIFICATION Spec
CONSTANTS MaxN = 8 MaxR = 3 MaxCellsM5 = 300 MlN = 8 MlR = 2
INVARIANTS InvM0 InvM1 InvM2 InvM3 InvM4 InvM5 InvF1 InvF2 InvF3 InvF4
CHECK_DEADLOCK FALSE
