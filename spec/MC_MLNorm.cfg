SPECIFICATION Spec
CONSTANTS MaxN = 10 MaxR = 2 MaxCellsM5 = 300 MlN = 8 MlR = 1 MlLow = 0 Families = {"geo", "ml"} Shrink = 0
INVARIANTS InvM0 InvM1 InvM2 InvM3 InvM4 InvM5 InvF1 InvF2 InvF3 InvF4
CHECK_DEADLOCK FALSE
