SPECIFICATION Spec
CONSTANTS
  MaxLen = 4
  Symbols = {1, 3, 4, 5, 9, 10, 11}
  SegIMs = {0, 1, 2, 3, 4}
  TofIMs = {0, 1, 2, 3}
  FrameIds = {1}
  StoreIds = {1}
  NStores = {0}
  Freshes = {TRUE}
  MaxSegs = {1}
  FixEmpty = TRUE
INVARIANTS InvBatches InvOut InvPartition InvPos InvCount
CHECK_DEADLOCK FALSE
