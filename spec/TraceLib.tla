------------------------------ MODULE TraceLib ------------------------------
(* Shared plumbing for trace validation: the recorded execution is an ndjson *)
(* file named by the environment variable TRACE.                             *)
EXTENDS Integers, Sequences, TLC, Json, IOUtils
TraceFile == IF "TRACE" \in DOMAIN IOEnv THEN IOEnv.TRACE ELSE "trace.ndjson"
TraceLog == ndJsonDeserialize(TraceFile)
Has(r, f) == f \in DOMAIN r
=============================================================================
