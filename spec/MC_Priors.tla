----------------------------- MODULE MC_Priors -----------------------------
(* Exhaustive check of the specification Priors.tla itself over families of  *)
(* small instances: one initial state per instance, one step per theorem.    *)
(*   kind "quad": quadratic prior on every grid of Shapes x stencil x kappa  *)
(*                pattern x beta x image: the clauses of the property hold   *)
(*                for the documented formulas (exact integer arithmetic).    *)
(*   kind "asym": witness that the clauses need symmetric weights.           *)
(*   kind "pot" : RDP potential for all integer (a, b, gamma, eps): the      *)
(*                quotient-rule derivative formulas are bracketed by unit    *)
(*                differences of the function they differentiate.           *)
(*   kind "rdp" : RDP fixed-point Hessian on small grids: symmetry, row vs   *)
(*                H e_i, x'Hx >= -Tol, zero gradient on uniform images.      *)
EXTENDS Priors
CONSTANTS Tier          \* "quick" | "thorough"
VARIABLES s, k

Thorough == Tier = "thorough"
MaxVal == 2
Shapes == IF Thorough
          THEN { <<1,1,1>>, <<1,1,2>>, <<1,1,3>>, <<1,2,1>>, <<2,1,1>>, <<3,1,1>>, <<1,2,2>>, <<2,2,1>>, <<2,1,2>>, <<1,2,3>>, <<1,3,2>>, <<2,1,3>>,
                 <<2,2,2>>, <<1,1,5>>, <<1,3,3>>, <<3,3,1>>, <<2,2,3>>, <<3,3,3>>, <<2,3,4>> }
          ELSE { <<1,1,1>>, <<1,1,2>>, <<1,1,3>>, <<2,1,1>>, <<1,2,2>>, <<2,1,2>>, <<1,2,3>>, <<2,2,2>>, <<1,1,5>>, <<1,3,3>>, <<3,3,3>> }
FullLimit == IF Thorough THEN 6 ELSE 5     \* all images in 0..MaxVal up to this many voxels

\* --- stencils (symmetric, non-negative, centre 0), as functions of the offset
OffOf(wr, n) == << (n - 1) \div ((2 * wr[2] + 1) * (2 * wr[3] + 1)) - wr[1],
                   (((n - 1) \div (2 * wr[3] + 1)) % (2 * wr[2] + 1)) - wr[2],
                   ((n - 1) % (2 * wr[3] + 1)) - wr[3] >>
L1(o) == Abs(o[1]) + Abs(o[2]) + Abs(o[3])
WSeq(wr, F(_)) == [n \in 1..WLen(wr) |-> F(OffOf(wr, n))]
W3 == WSeq(<<1,1,1>>, LAMBDA o : IF L1(o) = 0 THEN 0 ELSE 4 - L1(o))
W2D == WSeq(<<0,1,1>>, LAMBDA o : IF L1(o) = 0 THEN 0 ELSE 3 - L1(o))
W5 == WSeq(<<2,2,2>>, LAMBDA o : IF L1(o) = 1 THEN 2 ELSE IF L1(o) = 2 /\ (Abs(o[1]) = 2 \/ Abs(o[2]) = 2 \/ Abs(o[3]) = 2) THEN 1 ELSE IF L1(o) = 6 THEN 1 ELSE 0)
WANI == WSeq(<<1,0,2>>, LAMBDA o : IF L1(o) = 0 THEN 0 ELSE 1 + Abs(o[3]))
WASYM == WSeq(<<0,0,1>>, LAMBDA o : IF o[3] = 1 THEN 3 ELSE IF o[3] = -1 THEN 1 ELSE 0)
Stencils == { <<<<1,1,1>>, W3>>, <<<<0,1,1>>, W2D>>, <<<<2,2,2>>, W5>>, <<<<1,0,2>>, WANI>> }

KappaOf(d, kk) == IF kk = 0 THEN <<>> ELSE [i \in Vox(d) |-> 1 + ((i * kk) % 3)]
MkP(d, sw, kk, beta, gamma, eps) ==
  [dims |-> d, wr |-> sw[1], w |-> sw[2], st |-> Stencil(sw[1], sw[2]), nb |-> NbTable(d, Stencil(sw[1], sw[2])), kappa |-> KappaOf(d, kk), beta |-> beta, gamma |-> gamma, eps |-> eps]

\* --- image families
AllImages(d) == [Vox(d) -> 0..MaxVal]
\* larger grids: a constant image with up to two bumps (first bump at the first, middle or last voxel)
Anchors(d) == { 1, (NVox(d) + 1) \div 2, NVox(d) }
SparseImages(d) == { [i \in Vox(d) |-> cst + (IF i = q[1] THEN q[2] ELSE 0) + (IF i = q[3] THEN 1 ELSE 0)] :
                       cst \in (IF Thorough THEN 0..1 ELSE {1}), q \in Anchors(d) \X (IF Thorough THEN 1..2 ELSE {2}) \X (IF Thorough THEN Vox(d) ELSE { i \in Vox(d) : i % 3 = 2 }) }
Images(d) == IF NVox(d) <= FullLimit THEN AllImages(d) ELSE SparseImages(d)

AB == IF Thorough THEN 8 ELSE 6
PotStates == { [kind |-> "pot", p |-> [gamma |-> g, eps |-> e], a |-> a, b |-> b] : g \in 0..3, e \in 1..3, a \in 0..AB, b \in 0..AB }
RdpShapes == IF Thorough THEN { <<1,1,1>>, <<1,1,2>>, <<1,1,3>>, <<1,2,2>>, <<2,1,2>>, <<1,1,4>>, <<3,1,1>>, <<1,2,3>> } ELSE { <<1,1,1>>, <<1,1,2>>, <<1,1,3>>, <<1,2,2>>, <<2,1,2>> }

KB == { <<0, 1>>, <<1, 2>>, <<2, 1>> }     \* (kappa pattern, beta)
Init == /\ k = 0
        /\ \/ \E d \in Shapes, sw \in Stencils, kb \in KB :
                \/ s = [kind |-> "quadp", p |-> MkP(d, sw, kb[1], kb[2], 0, 1)]
                \/ \E img \in Images(d) : s = [kind |-> "quad", p |-> MkP(d, sw, kb[1], kb[2], 0, 1), x |-> img]
           \/ \E img \in AllImages(<<1,1,3>>) : s = [kind |-> "asym", p |-> MkP(<<1,1,3>>, <<<<0,0,1>>, WASYM>>, 0, 1, 0, 1), x |-> img]
           \/ s \in PotStates
           \/ \E b8 \in {-8, 4, 8, 24}, lam \in {0, 1, 2, 16, 64, 1024, 2048, 131072}, f \in {-64, 0, 1, 2, 3, 16, 2048} : s = [kind |-> "frp", beta8 |-> b8, lam |-> lam, f |-> f]
           \/ \E pr \in {"quad", "rdp", "logcosh", "pls"} : s = [kind |-> "proto", cc |-> [prior |-> pr, ready |-> FALSE, kappaOk |-> TRUE], ever |-> FALSE]
           \/ \E d \in RdpShapes, sw \in { <<<<1,1,1>>, W3>>, <<<<0,1,1>>, W2D>> }, kk \in {0, 1}, g \in {0, 2}, e \in {1, 2} :
                \E img \in AllImages(d) : s = [kind |-> "rdp", p |-> MkP(d, sw, kk, 1, g, e), x |-> img]
Steps == CASE s.kind = "quad" -> 6 [] s.kind = "quadp" -> 3 [] s.kind = "asym" -> 1 [] s.kind = "pot" -> 4 [] s.kind = "rdp" -> 5 [] s.kind = "frp" -> 2 [] s.kind = "proto" -> 6
Next == /\ k < Steps /\ k' = k + 1
        /\ IF s.kind = "proto"
           THEN \E ev \in ProtoEvents : LET cc == ProtoNext(s.cc, ev) IN s' = [s EXCEPT !.cc = cc, !.ever = (s.ever \/ cc.ready)]
           ELSE s' = s
Spec == Init /\ [][Next]_<<s, k>>

Q(n) == s.kind = "quad" /\ k = n
Shift(x) == [i \in DOMAIN x |-> x[i] - 1]        \* directions with negative components
QP(n) == s.kind = "quadp" /\ k = n
InvQ1 == Q(1) => QGradIsDerivative(s.p, s.x)
InvQ2 == Q(2) => QRowIsJacobian(s.p, s.x)
InvQ3 == Q(3) => QHessIsDirectional(s.p, s.x, Shift(s.x))
InvQ4 == Q(4) => QPSD(s.p, Shift(s.x)) /\ QPSD(s.p, s.x)
InvQ5 == Q(5) => QLinearBeta(s.p, s.x, 3)
\* on an image without differences between neighbours value and gradient vanish (the exact log-cosh instances rely on it)
InvQ9 == Q(6) => (Flat(s.p, s.x) => QValue4(s.p, s.x) = 0 /\ \A i \in Vox(s.p.dims) : QGrad(s.p, s.x, i) = 0)
InvQ6 == QP(1) => QRowIsUnit(s.p)
InvQ7 == QP(2) => QSymmetric(s.p) /\ QLocalRows(s.p)
InvQ8 == QP(3) => \A cst \in 0..MaxVal : QUniformZero(s.p, cst)
\* with asymmetric weights the documented gradient is NOT the derivative of the documented value and the
\* Hessian is not symmetric unless the image is such that the difference vanishes: the clauses need SymmetricW
InvA1 == (s.kind = "asym" /\ k = 1) => /\ ~SymmetricW(s.p.wr, s.p.w) /\ ~QSymmetric(s.p)
                                       /\ (QGradIsDerivative(s.p, s.x) <=> \A i \in Vox(s.p.dims) : QGrad(s.p, s.x, i) = QGrad([s.p EXCEPT !.nb = NbTable(s.p.dims, Stencil(<<0,0,1>>, WSeq(<<0,0,1>>, LAMBDA o : IF o[3] # 0 THEN 2 ELSE 0)))], s.x, i))

P(n) == s.kind = "pot" /\ k = n
InvP1 == P(1) => RPsi1Bracket(s.p, s.a, s.b)
InvP2 == P(2) => RPsi20Bracket(s.p, s.a, s.b)
InvP3 == P(3) => RPsi11Euler(s.p, s.a, s.b)
InvP4 == P(4) => RPairPSD(s.p, s.a, s.b)

R(n) == s.kind = "rdp" /\ k = n
RNb(i) == { n \in Nb(s.p, i) : n[1] # i }
\* fixed-point Hessian: symmetric entry by entry
InvR1 == R(1) => \A i \in Vox(s.p.dims) : \A n \in RNb(i) :
                   \E m \in RNb(n[1]) : m[1] = i /\ RHessOffK(s.p, s.x, i, n) = RHessOffK(s.p, s.x, n[1], m)
\* row i applied to the unit image: (H e_i)_j = H_ji
InvR2 == R(2) => \A i \in Vox(s.p.dims) :
                   /\ RHessTimesK(s.p, s.x, Unit(s.p.dims, i), i) = RHessDiagK(s.p, s.x, i)
                   /\ \A n \in RNb(i) : RHessTimesK(s.p, s.x, Unit(s.p.dims, i), n[1]) = RHessOffK(s.p, s.x, i, n)
\* x'Hx >= -Tol (floor errors: one unit per term and factor)
InvR3 == R(3) => LET v == Shift(s.x) IN
                 SumS(Vox(s.p.dims), LAMBDA i : v[i] * RHessTimesK(s.p, s.x, v, i))
                   >= -SumS(Vox(s.p.dims), LAMBDA i : Abs(v[i]) * SumS(RNb(i), LAMBDA n : s.p.beta * n[2] * KK(s.p, i, n[1]) * (Abs(v[i]) + Abs(v[n[1]]))))
\* zero gradient and zero value on uniform images; value and gradient exact multiples of beta
InvR4 == R(4) => /\ (\A i \in Vox(s.p.dims) : s.x[i] = s.x[1]) => (RValueK(s.p, s.x) = 0 /\ \A i \in Vox(s.p.dims) : RGradK(s.p, s.x, i) = 0)
                 /\ RValueK([s.p EXCEPT !.beta = 3], s.x) = 3 * RValueK(s.p, s.x)
                 /\ \A i \in Vox(s.p.dims) : RGradK([s.p EXCEPT !.beta = 3], s.x, i) = 3 * RGradK(s.p, s.x, i)
\* exact RDP instances: with gamma = 0 and power-of-two denominators no fixed-point term has a floor error
InvR5 == R(5) => (RDyadic(s.p, s.x) => \A i \in Vox(s.p.dims) : \A n \in RNb(i) :
                   LET D == RD(s.p, s.x[i], s.x[n[1]]) IN
                   /\ (PsiN(s.p, s.x[i], s.x[n[1]]) * 2^KV) % D = 0 /\ (Psi1N(s.p, s.x[i], s.x[n[1]]) * 2^KG) % (D * D) = 0
                   /\ (Psi20N(s.p, s.x[i], s.x[n[1]]) * 2^KH) % Cube(D) = 0 /\ (Psi11N(s.p, s.x[i], s.x[n[1]]) * 2^KH) % Cube(D) = 0)
InvF1 == (s.kind = "frp" /\ k = 1) => (s.lam # 0 => FRUniformOnlyZero(s.beta8, s.lam))
InvF2 == (s.kind = "frp" /\ k = 2) => FRDeterminate(s.beta8, s.lam, s.f)
InvPr1 == s.kind = "proto" => (~SetterInvalidates(s.cc.prior) /\ s.ever => s.cc.ready)
InvPr2 == s.kind = "proto" => \A fn \in {"value", "gradient", "hessian", "htimes", "happrox"} :
                                ~CallMustFail(s.cc, fn) <=> (s.cc.ready /\ s.cc.kappaOk /\ ~NotImplemented(s.cc.prior, fn))
=============================================================================
