------------------------------ MODULE KeyParser ------------------------------
(***************************************************************************)
(* C17: the line-level machine of stir::KeyParser and its Interfile        *)
(* instances.                                                              *)
(*                                                                         *)
(* Text is handled as TEXT: a line is a TLA+ string and the operators      *)
(* below (Standardise, GetKeyword, GetIndex, the value readers) are the    *)
(* documented contract of the parser written over characters:              *)
(*  - KeyParser.h: "keyword := value", "keyword[index] := value",          *)
(*    "vectorised keys ... the index starts from 1", lists "{1,2,3}",      *)
(*    comments start with ';', "parsing starts with the start keyword and  *)
(*    stops at the stop keyword";                                          *)
(*  - standardise_keyword: "The characters space, tab, underscore, ! are   *)
(*    all treated as white space and ignored.  Case is ignored. ...        *)
(*    'ignoring' white space means 'trimming' at the start and end of the  *)
(*    keyword, and replacing repeated white space with a single space";    *)
(*  - read_line: "allows for \r at the end of the line ... When the line   *)
(*    ends with continuation_char, the next line will just be appended";   *)
(*  - add_alias_key: an alias resolves to its target keyword.              *)
(* What the code does beyond its documentation is modelled as NAMED cases  *)
(* (FirstLineBeforeStart, EofAccept, EarlyEof, IgnoreBadValue, IndexZero-  *)
(* IsNoIndex, UnclosedBracketIsNoIndex ...) so that the machine is the     *)
(* code's contract and not an idealisation.                                *)
(*                                                                         *)
(* A key map is a function  standardised keyword -> entry  with            *)
(*   t    value type: "none" "int" "ulong" "bool" "double" "string"        *)
(*        "ilist" "dlist" "slist" "enum"                                   *)
(*   vec  0 scalar, 1 vectorised (std::vector of the type)                 *)
(*   var  name of the variable it sets                                     *)
(*   proc "set" (KeyParser::set_variable) "start" "stop" "nothing" or the  *)
(*        name of a call-back of a derived class (ApplyHook)               *)
(*   vals (enum only) the list of allowed values                           *)
(* A machine state is [status, km, al, vars, err].                         *)
(*                                                                         *)
(* TLC note: evaluation cost grows with the depth of operator recursion    *)
(* (context chains), so the folds over lines use SequencesExt!FoldLeft     *)
(* (iterative Java override) and everything read from the TEXT of a line   *)
(* is computed once per line (ParseLine) before the machine runs.          *)
(***************************************************************************)
EXTENDS Integers, Sequences, FiniteSets, TLC, SequencesExt

(* ------------------------------ characters ------------------------------ *)
Ch(s, i) == SubSeq(s, i, i)
UpperS == "ABCDEFGHIJKLMNOPQRSTUVWXYZ"
LowerS == "abcdefghijklmnopqrstuvwxyz"
DigitS == "0123456789"
ToLowerTab == [c \in {Ch(UpperS, i) : i \in 1..26} |-> Ch(LowerS, CHOOSE i \in 1..26 : Ch(UpperS, i) = c)]
LowerCh(c) == IF c \in DOMAIN ToLowerTab THEN ToLowerTab[c] ELSE c
DigitTab == [c \in {Ch(DigitS, i) : i \in 1..10} |-> (CHOOSE i \in 1..10 : Ch(DigitS, i) = c) - 1]
IsDigit(c) == c \in DOMAIN DigitTab
KwWhite == {" ", "\t", "_", "!"}     \* "space, tab, underscore, ! are all treated as white space" (trimmed at both ends)
\* INSIDE a keyword the code collapses every character of the C isspace() class (space, \t, \n, \v,
\* \f, \r) and '_' and '!' (TLA+ has no escape for \v: vertical tab is the one member not modelled)
KwInner == KwWhite \cup {"\n", "\r", "\f"}
Blank == {" ", "\t"}

RECURSIVE FirstIn(_, _, _)          \* first position >= i whose character is in C (0: none)
FirstIn(s, C, i) == IF i > Len(s) THEN 0 ELSE IF Ch(s, i) \in C THEN i ELSE FirstIn(s, C, i + 1)
RECURSIVE FirstNotIn(_, _, _)
FirstNotIn(s, C, i) == IF i > Len(s) THEN 0 ELSE IF Ch(s, i) \notin C THEN i ELSE FirstNotIn(s, C, i + 1)
RECURSIVE LastNotIn(_, _, _)        \* last position <= i whose character is not in C (0: none)
LastNotIn(s, C, i) == IF i < 1 THEN 0 ELSE IF Ch(s, i) \notin C THEN i ELSE LastNotIn(s, C, i - 1)
From(s, i) == SubSeq(s, i, Len(s))

(* ------------------------- keyword standardisation ----------------------- *)
RECURSIVE StdFrom(_, _, _, _)
StdFrom(s, i, last, prevWhite) ==
  IF i > last THEN ""
  ELSE IF Ch(s, i) \in KwInner THEN (IF prevWhite THEN "" ELSE " ") \o StdFrom(s, i + 1, last, TRUE)
  ELSE LowerCh(Ch(s, i)) \o StdFrom(s, i + 1, last, FALSE)
\* trim, collapse runs of white space to one space, lower case
Standardise(s) == LET f == FirstNotIn(s, KwWhite, 1) IN
                  IF f = 0 THEN "" ELSE StdFrom(s, f, LastNotIn(s, KwWhite, Len(s)), FALSE)

(* --------------------------- keyword and index --------------------------- *)
\* "keyword stops at either := or an index []" (a colon not followed by '=' belongs to the keyword)
RECURSIVE KwEnd(_, _)
KwEnd(s, i) == LET p == FirstIn(s, {":", "["}, i) IN
               IF p = 0 THEN 0
               ELSE IF Ch(s, p) = ":" /\ p + 1 <= Len(s) /\ Ch(s, p + 1) # "=" THEN KwEnd(s, p + 1)
               ELSE p
GetKeyword(s) == LET p == KwEnd(s, 1) IN IF p = 0 THEN s ELSE SubSeq(s, 1, p - 1)

\* decimal digits from position i: [n, big, cnt, next]; big = does not fit a C int
RECURSIVE Digs(_, _, _)
Digs(s, i, acc) ==
  IF i > Len(s) \/ ~IsDigit(Ch(s, i)) THEN [acc EXCEPT !.next = i]
  ELSE LET d == DigitTab[Ch(s, i)] IN
       Digs(s, i + 1, IF acc.big \/ acc.n > 214748364 \/ (acc.n = 214748364 /\ d > 7)
                      THEN [n |-> 0, big |-> TRUE, cnt |-> acc.cnt + 1, next |-> 0]
                      ELSE [n |-> acc.n * 10 + d, big |-> FALSE, cnt |-> acc.cnt + 1, next |-> 0])
\* optional sign and digits at position i (no white space skipped): [ok, n, big, neg, next]
SignedAt(s, i) ==
  LET sg == IF i <= Len(s) /\ Ch(s, i) \in {"+", "-"} THEN 1 ELSE 0
      d == Digs(s, i + sg, [n |-> 0, big |-> FALSE, cnt |-> 0, next |-> 0])
      neg == sg = 1 /\ Ch(s, i) = "-" IN
  [ok |-> d.cnt > 0, n |-> IF neg THEN -d.n ELSE d.n, big |-> d.big, neg |-> neg, next |-> d.next]
NoIndex == [n |-> 0, big |-> FALSE]
\* the index between '[' and ']' before the ':=' (read like atoi: leading blanks, sign, digits; 0 if none)
GetIndex(s) ==
  LET cp == FirstIn(s, {":", "["}, 1) IN
  IF cp = 0 \/ Ch(s, cp) # "[" THEN NoIndex
  ELSE LET e == FirstIn(s, {"]"}, cp) IN
       IF e = 0 THEN NoIndex          \* UnclosedBracketIsNoIndex: "Assuming this is not a vectorised key"
       ELSE LET t == SubSeq(s, cp + 1, e - 1)
                f == FirstNotIn(t, Blank, 1)
                r == IF f = 0 THEN [ok |-> FALSE, n |-> 0, big |-> FALSE] ELSE SignedAt(t, f) IN
            IF r.ok THEN [n |-> r.n, big |-> r.big] ELSE NoIndex

(* ------------------------------- values ---------------------------------- *)
NoValue == [none |-> TRUE]
Val(v) == [none |-> FALSE, v |-> v]
\* the text after the first '=' of the line ("" with has = FALSE when there is no '=')
Rest(s) == LET q == FirstIn(s, {"="}, 1) IN IF q = 0 THEN [has |-> FALSE, t |-> ""] ELSE [has |-> TRUE, t |-> From(s, q + 1)]

\* an int: blanks, optional sign, at least one digit, representable
ReadInt(t) == LET f == FirstNotIn(t, Blank, 1) IN
              IF f = 0 THEN NoValue
              ELSE LET r == SignedAt(t, f) IN IF r.ok /\ ~r.big THEN Val(r.n) ELSE NoValue
\* an unsigned long: as int, but anything negative or beyond 2^31-1 is only known as "big"
\* (a negative text wraps to a huge unsigned value, as strtoul does)
ReadULong(t) == LET f == FirstNotIn(t, Blank, 1) IN
                IF f = 0 THEN NoValue
                ELSE LET r == SignedAt(t, f) IN
                     IF ~r.ok THEN NoValue
                     ELSE IF r.big \/ (r.neg /\ r.n # 0) THEN Val([big |-> TRUE, n |-> 0]) ELSE Val([big |-> FALSE, n |-> r.n])
\* a floating point number is only recognised; its value is kept as the text of the number:
\* optional sign, digits with optional fraction or a fraction starting with '.'
DoubleEnd(t, i) ==    \* position after the number starting at i, 0 if there is none
  LET sg == IF i <= Len(t) /\ Ch(t, i) \in {"+", "-"} THEN 1 ELSE 0
      ip == Digs(t, i + sg, [n |-> 0, big |-> FALSE, cnt |-> 0, next |-> 0])
      hasdot == ip.next <= Len(t) /\ Ch(t, ip.next) = "."
      fp == IF hasdot THEN Digs(t, ip.next + 1, [n |-> 0, big |-> FALSE, cnt |-> 0, next |-> 0]) ELSE [cnt |-> 0, next |-> ip.next]
      mant == ip.cnt + fp.cnt > 0
      e0 == fp.next
      hase == mant /\ e0 <= Len(t) /\ Ch(t, e0) \in {"e", "E"}
      esg == IF hase /\ e0 + 1 <= Len(t) /\ Ch(t, e0 + 1) \in {"+", "-"} THEN 1 ELSE 0
      ed == IF hase THEN Digs(t, e0 + 1 + esg, [n |-> 0, big |-> FALSE, cnt |-> 0, next |-> 0]) ELSE [cnt |-> 0, next |-> e0] IN
  IF ~mant THEN 0 ELSE IF hase /\ ed.cnt > 0 THEN ed.next ELSE e0
ReadDouble(t) == LET f == FirstNotIn(t, Blank, 1) IN
                 IF f = 0 \/ DoubleEnd(t, f) = 0 THEN NoValue ELSE Val(SubSeq(t, f, DoubleEnd(t, f) - 1))
\* a string: "skip starting white space ... strip trailing white space"; nothing left: no value
ReadString(t) == LET f == FirstNotIn(t, Blank, 1) IN
                 IF f = 0 THEN NoValue ELSE Val(SubSeq(t, f, LastNotIn(t, Blank, Len(t))))

\* one element of a list at position i (blanks skipped): [ok, v, next]
ElemAt(t, i, dbl) ==
  LET f == FirstNotIn(t, Blank, i) IN
  IF f = 0 THEN [ok |-> FALSE, v |-> 0, next |-> Len(t) + 1]
  ELSE IF dbl THEN LET e == DoubleEnd(t, f) IN IF e = 0 THEN [ok |-> FALSE, v |-> 0, next |-> f] ELSE [ok |-> TRUE, v |-> SubSeq(t, f, e - 1), next |-> e]
  ELSE LET r == SignedAt(t, f) IN IF r.ok /\ ~r.big THEN [ok |-> TRUE, v |-> r.n, next |-> r.next] ELSE [ok |-> FALSE, v |-> 0, next |-> f]
\* operator>>(istream&, std::vector<T>&) after the opening brace: elements separated by ',' up to '}'.
\* A list that ends before its closing brace is no value (UnterminatedListIsNoValue); a list whose
\* first unreadable element is followed by any character is accepted as far as it was read
\* (LenientListEnd: the code only warns when that character is not '}').
RECURSIVE ListFrom(_, _, _, _)
ListFrom(t, i, dbl, acc) ==
  LET e == ElemAt(t, i, dbl) IN
  IF ~e.ok THEN (IF FirstNotIn(t, Blank, e.next) = 0 THEN NoValue ELSE Val(acc))
  ELSE LET c == FirstNotIn(t, Blank, e.next) IN
       IF c = 0 THEN NoValue
       ELSE IF Ch(t, c) = "," THEN ListFrom(t, c + 1, dbl, Append(acc, e.v))
       ELSE Val(Append(acc, e.v))
\* "special handling for vectors if we desire that no {} means only 1 element"
ReadList(t, dbl) == LET f == FirstNotIn(t, Blank, 1) IN
                    IF f = 0 THEN NoValue
                    ELSE IF Ch(t, f) = "{" THEN ListFrom(t, f + 1, dbl, <<>>)
                    ELSE LET e == ElemAt(t, f, dbl) IN IF e.ok THEN Val(<<e.v>>) ELSE NoValue
\* a list of strings (get_vparam_from_string for vector<string>): "{a, b}" is split at ',' and '}', blanks
\* before an item are skipped; an unterminated last item loses its last character (UnterminatedStringItem:
\* what the code does); without braces the whole text is the only item.  Every line yields a NEW list.
RECURSIVE SListFrom(_, _, _)
SListFrom(t, cp, acc) ==
  LET c1 == FirstNotIn(t, {"}", ","}, cp)
      c2 == IF c1 = 0 THEN 0 ELSE FirstNotIn(t, Blank, c1) IN
  IF c2 = 0 THEN acc
  ELSE LET e == FirstIn(t, {",", "}"}, c2) IN
       IF e = 0 THEN Append(acc, SubSeq(t, c2, LastNotIn(t, Blank, Len(t)) - 1))
       ELSE SListFrom(t, e + 1, Append(acc, SubSeq(t, c2, e - 1)))
ReadSList(t) == LET f == FirstNotIn(t, Blank, 1) IN
                IF f = 0 THEN NoValue
                ELSE IF Ch(t, f) = "{" THEN Val(SListFrom(t, f + 1, <<>>)) ELSE Val(<<From(t, f)>>)

(* ------------------------------ one line --------------------------------- *)
NoErr == ""
\* everything the parser reads from the text of one logical line: standardised keyword, index, and
\* the value as each value type would read it (sval: the string value standardised, for enumerations)
ParseLine(s) ==
  LET rest == Rest(s)
      str == IF rest.has THEN ReadString(rest.t) ELSE NoValue IN
  [text |-> s, kw |-> Standardise(GetKeyword(s)), idx |-> GetIndex(s), has |-> rest.has,
   vals |-> IF ~rest.has THEN [int |-> NoValue, ulong |-> NoValue, double |-> NoValue, string |-> NoValue,
                                ilist |-> NoValue, dlist |-> NoValue, slist |-> NoValue]     \* no ':=' on the line: the key has no value
            ELSE [int |-> ReadInt(rest.t), ulong |-> ReadULong(rest.t), double |-> ReadDouble(rest.t), string |-> str,
                  ilist |-> ReadList(rest.t, FALSE), dlist |-> ReadList(rest.t, TRUE), slist |-> ReadSList(rest.t)],
   sval |-> IF str.none THEN "" ELSE Standardise(str.v)]
\* the value of parsed line p for key map entry e
ValueOf(e, p) ==
  CASE e.t = "bool" -> (IF p.vals.int.none THEN NoValue ELSE Val(p.vals.int.v # 0))   \* "A non-zero value will be assumed to mean 'true'"
    [] e.t = "enum" -> (IF p.vals.string.none THEN NoValue
                        ELSE Val(IF \E i \in 1..Len(e.svals) : e.svals[i] = p.sval
                                 THEN (CHOOSE i \in 1..Len(e.svals) : e.svals[i] = p.sval /\ \A j \in 1..(i - 1) : e.svals[j] # p.sval) - 1
                                 ELSE -1))                                            \* -1: "should have been one of ..."
    [] e.t = "none" -> NoValue
    [] OTHER -> p.vals[e.t]

\* KeyParser::set_variable for entry e and parsed line p
SetVar(st, e, p) ==
  LET v == ValueOf(e, p) IN
  IF v.none THEN st                                                  \* IgnoreBadValue: "if (!keyword_has_a_value) return"
  ELSE IF p.idx.big THEN [st EXCEPT !.err = "IndexNotRepresentable"]  \* an index that is no int cannot be "the index given"
  ELSE IF p.idx.n = 0 THEN                                           \* IndexZeroIsNoIndex
         IF e.vec > 0 THEN [st EXCEPT !.err = "MissingIndex"]        \* "expected a vectorised key ... but no bracket found"
         ELSE [st EXCEPT !.vars[e.var] = IF e.own THEN v ELSE v.v]
  ELSE IF e.vec = 0 THEN [st EXCEPT !.err = "UnexpectedIndex"]       \* "encountered unexpected vectorisation of key"
  ELSE IF p.idx.n < 1 \/ p.idx.n > Len(st.vars[e.var]) THEN [st EXCEPT !.err = "IndexOutOfRange"]   \* "the list ... has to be resized"
  ELSE [st EXCEPT !.vars[e.var][p.idx.n] = v.v]                      \* "vectorised keys are stored at the index given"

Resolve(al, kw) == IF kw \in DOMAIN al THEN al[kw] ELSE kw

(* --------------------------- key maps and states -------------------------- *)
NewState(km, al, vars) == [status |-> "end", km |-> km, al |-> al, vars |-> vars, err |-> NoErr]
Entry(t, vec, var, proc) == [t |-> t, vec |-> vec, var |-> var, proc |-> proc, vals |-> <<>>, svals |-> <<>>, own |-> FALSE]
EnumEntry(var, proc, vals) == [t |-> "enum", vec |-> 0, var |-> var, proc |-> proc, vals |-> vals, own |-> FALSE,
                               svals |-> [i \in 1..Len(vals) |-> Standardise(vals[i])]]      \* values are compared after standardisation
\* (an entry whose variable is "junk" gets a variable of its own, named like the keyword)
KM(pairs) == FoldLeft(LAMBDA f, pr : LET k == Standardise(pr[1]) IN
                                     [x \in DOMAIN f \cup {k} |-> IF x = k THEN (IF pr[2].var = "junk" THEN [pr[2] EXCEPT !.var = k, !.own = TRUE] ELSE pr[2]) ELSE f[x]],
                      [x \in {} |-> 0], pairs)        \* a keyword registered twice: the later entry replaces the earlier one
\* initial variables: vars plus one "unset" variable for every key of km that has a variable of its own
\* (such a variable holds NoValue until it is set, then Val(value))
WithOwnVars(km, vars) == [n \in DOMAIN vars \cup {km[k].var : k \in {kk \in DOMAIN km : km[kk].own}} |-> IF n \in DOMAIN vars THEN vars[n] ELSE NoValue]

(* -------------------- call-backs of the Interfile headers ---------------- *)
\* (InterfileHeader.cxx; they are processing functions of keys of the Interfile key maps below)
Resize(q, n, fill) == [i \in 1..n |-> IF i <= Len(q) THEN q[i] ELSE fill]
MaxVector == 100000      \* a vector length beyond this is "unbounded allocation from a small input"
\* std::vector::resize with a length taken from the header: a negative length is an exception
\* (length_error), an enormous one must be refused as well
ResizeErr(n) == IF n < 0 THEN "NegativeLength" ELSE IF n > MaxVector THEN "HugeLength" ELSE NoErr
NumDatasets(v) == v.num_time_frames * v.num_image_data_types
SmallInt(n) == n > -40000 /\ n < 40000
Merge(f, g) == [k \in DOMAIN f \cup DOMAIN g |-> IF k \in DOMAIN g THEN g[k] ELSE f[k]]
TypeOfDataValues == <<"Static", "Dynamic", "Tomographic", "Curve", "ROI", "PET", "Other">>
PETDataTypeValues == <<"Emission", "Transmission", "Blank", "AttenuationCorrection", "Normalisation", "Image">>
\* keys added by set_type_of_data for "PET", and by set_version_specific_keys for "STIR3.0"
PETKeys == KM(<< <<"PET STUDY (Emission data)", Entry("none", 0, "", "nothing")>>,
                 <<"PET STUDY (Image data)", Entry("none", 0, "", "nothing")>>,
                 <<"PET STUDY (General)", Entry("none", 0, "", "nothing")>>,
                 <<"PET data type", EnumEntry("PET_data_type", "set", PETDataTypeValues)>>,
                 <<"process status", Entry("none", 0, "", "nothing")>>,
                 <<"IMAGE DATA DESCRIPTION", Entry("none", 0, "", "nothing")>>,
                 <<"data offset in bytes", Entry("ulong", 1, "data_offset", "set")>> >>)
STIR3Keys == KM(<< <<"energy window lower level", Entry("double", 0, "junk", "set")>>,
                   <<"energy window upper level", Entry("double", 0, "junk", "set")>> >>)
FramesResize(st) ==
  LET v == st.vars
      nd == IF SmallInt(v.num_time_frames) /\ SmallInt(v.num_image_data_types) THEN NumDatasets(v) ELSE MaxVector + 1
      er == IF ResizeErr(nd) # NoErr THEN ResizeErr(nd) ELSE ResizeErr(v.num_time_frames) IN
  IF er # NoErr THEN [st EXCEPT !.err = er]
  ELSE [st EXCEPT !.vars.image_scaling_factors =      \* resize(1, 1.): every data set keeps its first factor or gets the factor 1
                    [i \in 1..nd |-> IF i <= Len(v.image_scaling_factors) /\ Len(v.image_scaling_factors[i]) >= 1
                                     THEN <<v.image_scaling_factors[i][1]>> ELSE <<"D">>],
                  !.vars.data_offset = Resize(v.data_offset, nd, [big |-> FALSE, n |-> 0])]
\* the part of InterfilePDFSHeader::find_storage_order that sets the data shape; a missing
\* 'matrix size' entry has no first element (reading it is an out-of-bounds access): err MissingMatrixSize
FindStorageOrder(st) ==
  LET v == st.vars
      nd == v.num_dimensions
      has(d) == d <= Len(v.matrix_size) /\ Len(v.matrix_size[d]) > 0
      stop(s) == [s EXCEPT !.status = "end"] IN
  IF nd # 4 /\ nd # 5 THEN stop(st)
  ELSE IF nd = 5 /\ v.matrix_labels[5] # "timing positions" THEN stop(st)
  ELSE IF nd = 5 /\ ~has(5) THEN [st EXCEPT !.err = "MissingMatrixSize"]
  ELSE LET s1 == [st EXCEPT !.vars.num_timing_poss = IF nd = 5 THEN v.matrix_size[5][1] ELSE 1] IN
       IF v.matrix_labels[1] # "tangential coordinate" THEN stop(s1)
       ELSE IF ~has(1) THEN [s1 EXCEPT !.err = "MissingMatrixSize"]
       ELSE LET s2 == [s1 EXCEPT !.vars.num_bins = v.matrix_size[1][1]] IN
            IF v.matrix_labels[4] # "segment" THEN stop(s2)
            ELSE IF ~has(4) THEN [s2 EXCEPT !.err = "MissingMatrixSize"]
            ELSE LET s3 == [s2 EXCEPT !.vars.num_segments = v.matrix_size[4][1]] IN
                 IF v.matrix_labels[2] = "axial coordinate" /\ v.matrix_labels[3] = "view"
                 THEN (IF ~has(3) THEN [s3 EXCEPT !.err = "MissingMatrixSize"]
                       ELSE [s3 EXCEPT !.vars.num_views = v.matrix_size[3][1], !.vars.num_rings_per_segment = v.matrix_size[2], !.vars.order_found = TRUE])
                 ELSE IF v.matrix_labels[2] = "view" /\ v.matrix_labels[3] = "axial coordinate"
                 THEN (IF ~has(2) THEN [s3 EXCEPT !.err = "MissingMatrixSize"]
                       ELSE [s3 EXCEPT !.vars.num_views = v.matrix_size[2][1], !.vars.num_rings_per_segment = v.matrix_size[3], !.vars.order_found = TRUE])
                 ELSE stop(s3)

ApplyHook(st, e, p) ==
  LET s1 == IF e.proc = "resize_segments_and_set" THEN st ELSE SetVar(st, e, p) IN
  IF s1.err # NoErr THEN s1
  ELSE LET v == s1.vars IN
  CASE e.proc = "read_matrix_info" ->
         LET n == v.num_dimensions IN
         IF ResizeErr(n) # NoErr THEN [s1 EXCEPT !.err = ResizeErr(n)]
         ELSE LET s2 == [s1 EXCEPT !.vars.matrix_labels = Resize(v.matrix_labels, n, ""), !.vars.matrix_size = Resize(v.matrix_size, n, <<>>),
                                   !.vars.pixel_sizes = Resize(v.pixel_sizes, n, "D")] IN
              IF "first_pixel_offsets" \in DOMAIN v THEN [s2 EXCEPT !.vars.first_pixel_offsets = [i \in 1..n |-> "unset"]] ELSE s2
    [] e.proc = "read_frames_info" ->
         LET s2 == FramesResize(s1) IN
         IF s2.err # NoErr THEN s2
         ELSE [s2 EXCEPT !.vars.rel_start = Resize(v.rel_start, v.num_time_frames, "D"), !.vars.durations = Resize(v.durations, v.num_time_frames, "D")]
    [] e.proc = "read_image_data_types" ->
         LET s2 == FramesResize(s1) IN
         IF s2.err # NoErr THEN s2
         ELSE IF ResizeErr(v.num_image_data_types) # NoErr THEN [s2 EXCEPT !.err = ResizeErr(v.num_image_data_types)]
         ELSE [s2 EXCEPT !.vars.image_data_type_description = Resize(v.image_data_type_description, v.num_image_data_types, "")]
    [] e.proc = "read_num_energy_windows" ->
         LET n == v.num_energy_windows IN
         IF ResizeErr(n) # NoErr THEN [s1 EXCEPT !.err = ResizeErr(n)]
         ELSE [s1 EXCEPT !.vars.en_low = Resize(v.en_low, n, "D"), !.vars.en_up = Resize(v.en_up, n, "D")]
    [] e.proc = "set_type_of_data" ->
         IF v.type_of_data = -1 THEN [s1 EXCEPT !.err = "TypeOfDataUnsupported"]     \* "type_of_data needs to be set to supported value"
         ELSE IF TypeOfDataValues[v.type_of_data + 1] = "PET"
         THEN [s1 EXCEPT !.km = Merge(s1.km, PETKeys)]
         ELSE IF TypeOfDataValues[v.type_of_data + 1] = "Tomographic" THEN [s1 EXCEPT !.vars.unmodelled = TRUE]   \* SPECT keys: not modelled
         ELSE s1                                                                      \* no further keys
    [] e.proc = "set_version_specific_keys" ->
         IF v.version_of_keys = "STIR3.0"
         THEN [s1 EXCEPT !.km = Merge(s1.km, STIR3Keys)]
         ELSE s1
    [] e.proc = "set_imaging_modality" ->
         IF Standardise(v.imaging_modality) \in {"nm", "nucmed", "spect"} THEN [s1 EXCEPT !.vars.unmodelled = TRUE] ELSE s1   \* SPECT reader: not modelled
    [] e.proc = "set_siemens" -> [s1 EXCEPT !.vars.unmodelled = TRUE]                  \* Siemens reader: not modelled
    [] e.proc = "set_unmodelled" -> [s1 EXCEPT !.vars.unmodelled = TRUE]
    [] e.proc = "resize_segments_and_set" ->
         \* "find_storage_order returns true if already found (or error)"
         LET s2 == IF v.num_segments < 0 THEN FindStorageOrder(s1) ELSE s1
             n == s2.vars.num_segments
             s3 == IF s2.err # NoErr THEN s2
                   ELSE IF v.num_segments < 0 /\ s2.vars.order_found
                   THEN (IF ResizeErr(n) # NoErr THEN [s2 EXCEPT !.err = ResizeErr(n)]
                         ELSE [s2 EXCEPT !.vars.min_ring_difference = Resize(s2.vars.min_ring_difference, n, 0),
                                         !.vars.max_ring_difference = Resize(s2.vars.max_ring_difference, n, 0)])
                   ELSE s2 IN
         IF s3.err # NoErr THEN s3 ELSE IF s3.vars.num_segments >= 0 THEN SetVar(s3, e, p) ELSE s3
    [] OTHER -> s1

(* ------------------------------ the machine ------------------------------ *)
\* process_key for one parsed logical line p: map the (alias-resolved, standardised) keyword and call
\* the entry's processing function
ProcessP(st, p) ==
  LET k == Resolve(st.al, p.kw) IN
  IF k \notin DOMAIN st.km THEN st            \* UnknownKey, Comment (';'), empty line: "do no processing of this key"
  ELSE LET e == st.km[k] IN
       CASE e.proc = "start" -> [st EXCEPT !.status = "parsing"]
         [] e.proc = "stop" -> [st EXCEPT !.status = "end"]
         [] e.proc = "nothing" -> st
         [] e.proc = "set" -> SetVar(st, e, p)
         [] OTHER -> ApplyHook(st, e, p)       \* a call-back of a derived class (it calls set_variable itself)
Process(st, text) == ProcessP(st, ParseLine(text))

(* --------------------------- the line reader ----------------------------- *)
\* The input is a sequence of physical lines, each a record [t |-> text, core, hasp |-> BOOLEAN, p |-> parse
\* of the text `core' when hasp (memo)], and the flag nl (TRUE: the last line is followed by a newline).
\* read_line: one trailing CR is stripped from every PHYSICAL line (DOS line ends) BEFORE the continuation
\* character is looked for; a line ending in the continuation character '\' is joined with the next one.  The result is the sequence of LOGICAL lines, each with: eof (the stream's eofbit is
\* set after reading it), phantom (read at the very end of the input, after the last newline),
\* contAtEof (the input ended inside a continued line: nothing to append).
StripCR(s) == IF Len(s) > 0 /\ Ch(s, Len(s)) = "\r" THEN SubSeq(s, 1, Len(s) - 1) ELSE s
EndsBackslash(s) == Len(s) > 0 /\ Ch(s, Len(s)) = "\\"
Chop(s) == SubSeq(s, 1, Len(s) - 1)
HasNonBlank(s) == FirstNotIn(s, Blank, 1) # 0
Plain(t) == [t |-> t, core |-> t, hasp |-> FALSE, p |-> 0]
Logical(PL, nl) ==
  LET n == Len(PL)
      step(a, x) ==
        LET this == StripCR(x.t)
            eofAfter == (a.k + 1 = n) /\ ~nl
            joined == a.pend \o this
            own == a.pend = "" /\ this = x.core /\ x.hasp IN    \* the logical line is the memoised text: its memo applies
        IF EndsBackslash(joined)
        THEN IF eofAfter
             THEN [k |-> a.k + 1, pend |-> "", cont |-> FALSE,
                   out |-> Append(a.out, [line |-> Chop(joined), eof |-> TRUE, phantom |-> FALSE, contAtEof |-> TRUE, hasp |-> FALSE, p |-> 0])]
             ELSE [k |-> a.k + 1, pend |-> Chop(joined), cont |-> TRUE, out |-> a.out]
        ELSE [k |-> a.k + 1, pend |-> "", cont |-> FALSE,
              out |-> Append(a.out, [line |-> joined, eof |-> eofAfter, phantom |-> FALSE, contAtEof |-> FALSE, hasp |-> own, p |-> IF own THEN x.p ELSE 0])]
      a0 == [k |-> 0, pend |-> "", cont |-> FALSE, out |-> <<>>]
      fin(a) == IF nl \/ n = 0      \* one more getline at the end of the input: it yields what is pending (nothing: the phantom empty line)
                THEN Append(a.out, [line |-> a.pend, eof |-> TRUE, phantom |-> ~a.cont, contAtEof |-> FALSE, hasp |-> FALSE, p |-> 0])
                ELSE a.out IN
  fin(FoldLeft(step, a0, PL))

\* KeyParser::parse_header over the logical lines.  Accumulator / result: ph "first" (no meaningful
\* line yet) | "loop" | "done"; verdict "accepted" | "rejected" | "error"; the state; why: the named case
\* that ended the run; more: only the end of the input stopped the parser; contAtEof.
RunStep(c, r) ==
  IF c.ph = "done" THEN c
  ELSE IF ~HasNonBlank(r.line) /\ r.line # ""
  THEN \* read_and_parse_line: a line of blanks only is skipped, an empty line is not (it is parsed and
       \* has an unknown, empty keyword); EarlyEof: the stream is not good() any more: "early EOF" warning
       IF ~r.eof THEN c
       ELSE IF c.ph = "first" THEN [c EXCEPT !.ph = "done", !.verdict = "rejected", !.why = "NoInput", !.more = TRUE]
       ELSE [c EXCEPT !.ph = "done", !.verdict = "accepted", !.why = "EarlyEof", !.more = TRUE, !.st.status = "end"]
  ELSE LET s2 == ProcessP(c.st, IF r.hasp THEN r.p ELSE ParseLine(r.line)) IN
       IF s2.err # NoErr THEN [c EXCEPT !.ph = "done", !.verdict = "error", !.why = s2.err, !.st = s2, !.contAtEof = r.contAtEof]
       ELSE IF s2.status # "parsing"
       THEN (IF c.ph = "first"      \* FirstLineBeforeStart: the first line is processed whatever it is; "required first keyword not found"
             THEN [c EXCEPT !.ph = "done", !.verdict = "rejected", !.why = "NoStartKey", !.more = r.phantom, !.st = s2, !.contAtEof = r.contAtEof]
             ELSE [c EXCEPT !.ph = "done", !.verdict = "accepted", !.why = "StopKey", !.st = s2, !.contAtEof = r.contAtEof])
       ELSE IF r.eof                \* EofAccept: the stop key is not required
       THEN [c EXCEPT !.ph = "done", !.verdict = "accepted", !.why = IF c.ph = "first" THEN "EarlyEof" ELSE "EofAccept", !.more = TRUE,
                      !.st = [s2 EXCEPT !.status = "end"], !.contAtEof = r.contAtEof]
       ELSE [c EXCEPT !.ph = "loop", !.st = s2]
RunBase(st0) == [ph |-> "first", verdict |-> "", why |-> "", more |-> FALSE, contAtEof |-> FALSE, st |-> st0]
\* PL: physical line records; result as described above (ph is always "done": the last logical line has eof)
ParseHeaderP(st0, PL, nl) == FoldLeft(RunStep, RunBase(st0), Logical(PL, nl))
ParseHeader(st0, L, nl) == ParseHeaderP(st0, [i \in 1..Len(L) |-> Plain(L[i])], nl)

\* join physical lines into the text handed to the parser
\* (crlf: DOS line ends)
JoinLinesE(L, nl, crlf) ==
  LET sep == IF crlf THEN "\r\n" ELSE "\n" IN
  FoldLeft(LAMBDA a, x : a \o x \o sep, "", SubSeq(L, 1, Len(L) - 1)) \o (IF Len(L) = 0 THEN "" ELSE L[Len(L)] \o (IF nl THEN sep ELSE ""))
JoinLines(L, nl) == JoinLinesE(L, nl, FALSE)

(* ------------- the fixed key map of the replay driver (part a) ----------- *)
TestKM == KM(<< <<"Start Test", Entry("none", 0, "", "start")>>,
                <<"scalar int", Entry("int", 0, "i", "set")>>,
                <<"str key", Entry("string", 0, "s", "set")>>,
                <<"flag", Entry("bool", 0, "flag", "set")>>,
                <<"list key", Entry("ilist", 0, "list", "set")>>,
                <<"vec key", Entry("int", 1, "vec", "set")>>,
                <<"vlist key", Entry("ilist", 1, "vlist", "set")>>,
                <<"enum key", EnumEntry("en", "set", <<"alpha", "Beta Gamma">>)>>,
                <<"slist key", Entry("slist", 0, "sl", "set")>>,
                <<"slist2 key", Entry("slist", 0, "sl2", "set")>>,
                <<"dlist key", Entry("dlist", 0, "dl", "set")>>,
                <<"ignored key", Entry("none", 0, "", "nothing")>>,
                <<"End Test", Entry("none", 0, "", "stop")>> >>)
TestAlias == [k \in {"old int", "old vec"} |-> IF k = "old int" THEN "scalar int" ELSE "vec key"]
TestVars == [i |-> -7, s |-> "init", flag |-> FALSE, list |-> <<9>>, vec |-> <<0, 0, 0>>, vlist |-> << <<>>, <<>> >>, en |-> 0,
             sl |-> <<"x">>, sl2 |-> <<>>, dl |-> <<"0.5">>]
TestInit == NewState(TestKM, TestAlias, TestVars)
(* ------------------- the line alphabet of the replay (part a) ------------ *)
\* Physical lines fed to a KeyParser with the fixed key map TestKM below ("size" of the vectorised
\* key is 3, of the vectorised list key 2).  Every class of line of the design is present: start /
\* stop key, scalar / list / vectorised key with index missing, 0, 1, size, size+1, -1, huge, alias,
\* unknown key, comment, blank, no ':=', value of the wrong type, respelled keywords, CR, continuation.
Alpha == <<
  "Start Test :=",                 \*  1
  "  start_TEST:=",                \*  2  case / white space / underscore
  "End Test :=",                   \*  3
  "!END__test  := ",               \*  4
  "scalar int := 5",               \*  5
  "SCALAR_int:=6",                 \*  6
  "scalar int := abc",             \*  7  wrong type
  "scalar int :=",                 \*  8  no value
  "scalar int",                    \*  9  no ':='
  "scalar int[1] := 5",            \* 10  index on a scalar key
  "scalar int[0] := 8",            \* 11
  "scalar int[1] := abc",          \* 12
  "old int := 9",                  \* 13  alias
  "scalar int := -3x",             \* 14
  "str key := Hello  World  ",     \* 15
  "str key :=   ",                 \* 16
  "flag := 2",                     \* 17
  "list key := {1,2,3}",           \* 18
  "list key := 4",                 \* 19
  "list key := {1,2",              \* 20  unterminated
  "list key := {}",                \* 21
  "list key := abc",               \* 22
  "list key[1] := {1}",            \* 23
  "list key := {1;2}",             \* 24
  "vec key := 7",                  \* 25  index missing
  "vec key[0] := 7",               \* 26
  "vec key[1] := 11",              \* 27
  "vec key[3] := 13",              \* 28  size
  "vec key[4] := 14",              \* 29  size+1
  "vec key[-1] := 15",             \* 30
  "vec key[99999999999] := 16",    \* 31  huge
  "vec key[4294967297] := 17",     \* 32  huge (2^32+1)
  "vec key[9] := abc",             \* 33
  "vec key[x] := 7",               \* 34
  "vec key[2 := 7",                \* 35  unclosed bracket
  "vec key [ 2 ] := 12",           \* 36
  "vlist key[2] := {4,5}",         \* 37
  "vlist key[3] := {4,5}",         \* 38
  "old vec[2] := 6",               \* 39  (deprecated) alias of a vectorised key
  "enum key := BETA_gamma",        \* 40
  "enum key := delta",             \* 41
  "nonsense := 1",                 \* 42  unknown key
  "; a comment := 3",              \* 43
  "",                              \* 44  empty line
  "  \t",                          \* 45  blank line
  "ignored key := 1",              \* 46
  "just some text",                \* 47
  "scalar int : 5",                \* 48  colon without '='
  "scalar int := 5\r",             \* 49  DOS line end
  "list key := {7,\\",             \* 50  continued line
  "8}",                            \* 51
  \* white space in every position of known keys: between words, repeated, mixed with case and '_' '!',
  \* around ':=', around the index brackets, inside the value of an enumerated key
  "scalar\tint := 21",             \* 52  TAB between the words
  "SCALAR \t_Int\t:=\t22",         \* 53  mixed white space and case, TABs around ':='
  "scalar\fint := 23",             \* 54  form feed between the words (isspace)
  "scalar\rint := 24",             \* 55  CR inside the keyword (isspace)
  "\t scalar  int \t:= 25",        \* 56  leading / trailing TABs
  "Vec\tKEY\t[\t2\t]\t:= 26",      \* 57  TABs around the index brackets and inside them
  "enum key := beta\tGAMMA",       \* 58  value of an enumerated key: TAB between the words
  "enum key :=\t!Beta_\f gamma ",  \* 59  ... mixed
  "Start\tTEST\t:=",               \* 60  start key with TABs
  "end\t\ttest:=",                 \* 61  stop key with TABs
  "old\tVEC[3] := 27",             \* 62  alias with a TAB
  \* lists of strings and of doubles: with the full alphabet at every position ALL ORDERED PAIRS of value
  \* kinds occur on consecutive lines (also the same key twice): a line's value never depends on the line before
  "slist key := {aa, bb}",         \* 63
  "slist key := {cc}",             \* 64
  "slist2 key := {dd,ee}",         \* 65
  "dlist key := {1.5, 2.25}",      \* 66
  "dlist key := 3"                 \* 67
>>
AlphaIds == 1..Len(Alpha)
\* lines used at the inner positions of the longest sequences
CoreIds == {1, 3, 5, 7, 13, 18, 20, 25, 27, 28, 29, 33, 37, 39, 42, 44, 45, 50}
TextsOf(ids) == [k \in 1..Len(ids) |-> Alpha[ids[k]]]
ContIds == {a \in AlphaIds : EndsBackslash(Alpha[a])}
\* memo: the parse of every alphabet line
AlphaParsed == [a \in AlphaIds |-> ParseLine(Alpha[a])]
\* the physical lines of a replay run: alphabet lines ids, each followed by CR when the text has DOS line ends
AlphaLines(ids, nl, crlf) == [k \in 1..Len(ids) |-> [t |-> Alpha[ids[k]] \o (IF crlf /\ (k < Len(ids) \/ nl) THEN "\r" ELSE ""),
                                                      core |-> Alpha[ids[k]], hasp |-> TRUE, p |-> AlphaParsed[ids[k]]]]
\* the run of the replay driver's parser on the alphabet lines ids
TestRun(ids, nl, crlf) == ParseHeaderP(TestInit, AlphaLines(ids, nl, crlf), nl)

(* ------------------ the Interfile headers (part b of C17) ----------------- *)
\* Key maps of InterfileImageHeader and InterfilePDFSHeader (InterfileHeader.cxx constructors).
\* Keys whose variable plays no role in the modelled checks are entered with variable "junk" (J): KM
\* gives each of them a variable of its own, so that two headers can be compared for equal meaning.
Ign == Entry("none", 0, "", "nothing")
J(t) == Entry(t, 0, "junk", "set")
NumberFormatValues == <<"bit", "ascii", "signed integer", "unsigned integer", "float">>
CommonKeys == <<
  <<"INTERFILE", Entry("none", 0, "", "start")>>,
  <<"imaging modality", Entry("string", 0, "imaging_modality", "set_imaging_modality")>>,
  <<"version of keys", Entry("string", 0, "version_of_keys", "set_version_specific_keys")>>,
  <<"%sms-mi version number", Entry("string", 0, "junk", "set_siemens")>>,
  <<"END OF INTERFILE", Entry("none", 0, "", "stop")>>,
  <<"name of data file", Entry("string", 0, "data_file_name", "set")>>,
  <<"originating system", J("string")>>,
  <<"GENERAL DATA", Ign>>, <<"GENERAL IMAGE DATA", Ign>>,
  <<"calibration factor", J("double")>>, <<"isotope name", J("string")>>,
  <<"number of radionuclides", Ign>>,
  <<"radionuclide name", Entry("string", 1, "radionuclide_name", "set")>>,
  <<"radionuclide halflife (sec)", Entry("double", 1, "radionuclide_half_life", "set")>>,
  <<"radionuclide branching factor", Entry("double", 1, "radionuclide_branching", "set")>>,
  <<"study date", J("string")>>, <<"study_time", J("string")>>,
  <<"type of data", EnumEntry("type_of_data", "set_type_of_data", TypeOfDataValues)>>,
  <<"patient orientation", EnumEntry("patient_orientation", "set", <<"head_in", "feet_in", "other", "unknown">>)>>,
  <<"patient rotation", EnumEntry("patient_rotation", "set", <<"supine", "prone", "right", "left", "other", "unknown">>)>>,
  <<"imagedata byte order", EnumEntry("junk", "set", <<"LITTLEENDIAN", "BIGENDIAN">>)>>,
  <<"data format", Ign>>,
  <<"number format", EnumEntry("number_format", "set", NumberFormatValues)>>,
  <<"number of bytes per pixel", Entry("int", 0, "bytes_per_pixel", "set")>>,
  <<"number of dimensions", Entry("int", 0, "num_dimensions", "read_matrix_info")>>,
  <<"matrix size", Entry("ilist", 1, "matrix_size", "set")>>,
  <<"matrix axis label", Entry("string", 1, "matrix_labels", "set")>>,
  <<"scaling factor (mm/pixel)", Entry("double", 1, "pixel_sizes", "set")>>,
  <<"number of time frames", Entry("int", 0, "num_time_frames", "read_frames_info")>>,
  <<"image relative start time (sec)", Entry("double", 1, "rel_start", "set")>>,
  <<"image duration (sec)", Entry("double", 1, "durations", "set")>>,
  <<"maximum pixel count", Ign>>, <<"minimum pixel count", Ign>>,
  <<"image scaling factor", Entry("dlist", 1, "image_scaling_factors", "set")>>,
  <<"quantification units", J("double")>>,
  <<"number of energy windows", Entry("int", 0, "num_energy_windows", "read_num_energy_windows")>>,
  <<"energy window lower level", Entry("double", 1, "en_low", "set")>>,
  <<"energy window upper level", Entry("double", 1, "en_up", "set")>>,
  <<"start horizontal bed position (mm)", J("double")>>, <<"start vertical bed position (mm)", J("double")>> >>
CommonVars == [unmodelled |-> FALSE, imaging_modality |-> "", version_of_keys |-> "", data_file_name |-> "",
               radionuclide_name |-> <<"">>, radionuclide_half_life |-> <<"D">>, radionuclide_branching |-> <<"D">>,
               type_of_data |-> 6, patient_orientation |-> 3, patient_rotation |-> 5, number_format |-> 3, bytes_per_pixel |-> -1,
               num_dimensions |-> 2, matrix_size |-> << <<>>, <<>> >>, matrix_labels |-> <<"", "">>, pixel_sizes |-> <<"D", "D">>,
               num_time_frames |-> 1, num_image_data_types |-> 1, rel_start |-> <<>>, durations |-> <<>>,
               image_scaling_factors |-> << <<"D">> >>, num_energy_windows |-> 1, en_low |-> <<"D">>, en_up |-> <<"D">>,
               PET_data_type |-> 5, data_offset |-> << [big |-> FALSE, n |-> 0] >>]
ImageKM == KM(CommonKeys \o <<
  <<"first pixel offset (mm)", Entry("double", 1, "first_pixel_offsets", "set")>>,
  <<"number of image data types", Entry("int", 0, "num_image_data_types", "read_image_data_types")>>,
  <<"index nesting level", J("slist")>>,
  <<"image data type description", Entry("string", 1, "image_data_type_description", "set")>> >>)
NoAlias == [k \in {} |-> ""]
ImageInit == NewState(ImageKM, NoAlias, WithOwnVars(Merge(Merge(ImageKM, PETKeys), STIR3Keys), Merge(CommonVars, [first_pixel_offsets |-> <<>>, image_data_type_description |-> <<"">>])))
PDFSKM == KM(CommonKeys \o <<
  <<"minimum ring difference per segment", Entry("ilist", 0, "min_ring_difference", "resize_segments_and_set")>>,
  <<"maximum ring difference per segment", Entry("ilist", 0, "max_ring_difference", "resize_segments_and_set")>>,
  <<"TOF mashing factor", J("int")>>,
  <<"Scanner parameters", Ign>>, <<"Scanner type", Ign>>,
  <<"number of rings", J("int")>>, <<"number of detectors per ring", J("int")>>,
  <<"transaxial FOV diameter (cm)", J("double")>>, <<"inner ring diameter (cm)", J("double")>>,
  <<"average depth of interaction (cm)", J("double")>>, <<"distance between rings (cm)", J("double")>>,
  <<"default bin size (cm)", J("double")>>, <<"view offset (degrees)", J("double")>>,
  <<"Maximum number of non-arc-corrected bins", J("int")>>, <<"Default number of arc-corrected bins", J("int")>>,
  <<"number of blocks_per_bucket in axial direction", J("int")>>, <<"number of blocks_per_bucket in transaxial direction", J("int")>>,
  <<"number of crystals_per_block in axial direction", J("int")>>, <<"number of crystals_per_block in transaxial direction", J("int")>>,
  <<"number of crystals_per_singles_unit in axial direction", J("int")>>, <<"number of crystals_per_singles_unit in transaxial direction", J("int")>>,
  <<"number of detector layers", J("int")>>, <<"Energy resolution", J("double")>>, <<"Reference energy (in keV)", J("double")>>,
  <<"Maximum number of (unmashed) TOF time bins", J("int")>>,
  <<"TOF bin order", Entry("ilist", 0, "timing_poss_sequence", "set")>>,
  <<"Size of unmashed TOF time bins (ps)", J("double")>>, <<"TOF timing resolution (ps)", J("double")>>,
  <<"Scanner geometry (BlocksOnCylindrical/Cylindrical/Generic)", J("string")>>,
  <<"distance between crystals in axial direction (cm)", J("double")>>, <<"distance between crystals in transaxial direction (cm)", J("double")>>,
  <<"distance between blocks in axial direction (cm)", J("double")>>, <<"distance between blocks in transaxial direction (cm)", J("double")>>,
  <<"Name of crystal map", J("string")>>, <<"end scanner parameters", Ign>>,
  <<"effective central bin size (cm)", J("double")>>, <<"applied corrections", J("slist")>> >>)
PDFSAlias == LET pairs == << <<"%TOF mashing factor", "TOF mashing factor">>, <<"Number of TOF time bins", "Maximum number of (unmashed) TOF time bins">>,
                             <<"Size of timing bin (ps)", "Size of unmashed TOF time bins (ps)">>, <<"timing resolution (ps)", "TOF timing resolution (ps)">> >> IN
             [k \in {Standardise(pairs[i][1]) : i \in 1..Len(pairs)} |-> Standardise(pairs[CHOOSE i \in 1..Len(pairs) : Standardise(pairs[i][1]) = k][2])]
PDFSInit == NewState(PDFSKM, PDFSAlias, WithOwnVars(Merge(Merge(PDFSKM, PETKeys), STIR3Keys),
                       Merge(CommonVars, [min_ring_difference |-> <<>>, max_ring_difference |-> <<>>, num_rings_per_segment |-> <<>>,
                                          timing_poss_sequence |-> <<>>, num_segments |-> -1, num_views |-> 0, num_bins |-> 0,
                                          num_timing_poss |-> 1, order_found |-> FALSE])))

\* "support for Louvain la Neuve's extension": 'quantification units' (when not 1) replaces image scaling
\* factors that are all 1 and must otherwise be equal to all of them (numbers are compared as text)
IsOne(t) == t \in {"D", "1", "1.", "1.0", "+1"}
QuantOk(v) ==
  LET q == v["quantification units"]
      isf == v.image_scaling_factors IN
  IF q.none \/ IsOne(q.v) THEN TRUE
  ELSE IF Len(isf) < 1 \/ Len(isf[1]) < 1 THEN FALSE
  ELSE \A f \in 1..Len(isf) : \A i \in 1..Len(isf[f]) : IF IsOne(isf[1][1]) THEN IsOne(isf[f][i]) ELSE isf[f][i] = q.v
\* InterfileHeader::post_processing: the consistency checks every Interfile header must pass
HdrPostOk(v) ==
  /\ v.patient_orientation >= 0 /\ v.patient_rotation >= 0
  /\ v.number_format >= 0
  /\ (v.number_format # 0 => v.bytes_per_pixel > 0)            \* "'number of bytes per pixel' keyword should be set to a number > 0"
  /\ Len(v.matrix_size) > 0                                     \* "no matrix size keywords present"
  /\ \A d \in 1..Len(v.matrix_size) : /\ Len(v.matrix_size[d]) > 0     \* "dimension of 'matrix size' not present"
                                      /\ \A i \in 1..Len(v.matrix_size[d]) : v.matrix_size[d][i] > 0
  /\ \A f \in 1..Len(v.image_scaling_factors) :                 \* "wrong number of image scaling factors"
       Len(v.image_scaling_factors[f]) = 1 \/ Len(v.image_scaling_factors[f]) = v.matrix_size[Len(v.matrix_size)][1]
  /\ QuantOk(v)
TypeValid(nf, bpp) == (nf \in {2, 3} /\ bpp \in {1, 2, 4, 8}) \/ (nf = 4 /\ bpp \in {4, 8})
\* x * y * z * t elements of bpp bytes starting at offset fit into a file of len bytes (no overflow: by division)
Fits4(x, y, z, t, bpp, offset, len) ==
  /\ x > 0 /\ y > 0 /\ z > 0 /\ t > 0 /\ bpp > 0 /\ offset >= 0 /\ offset <= len
  /\ z <= ((((len - offset) \div bpp) \div x) \div y) \div t
RECURSIVE SumSeq(_)
SumSeq(q) == IF Len(q) = 0 THEN 0 ELSE (IF q[1] > 1000000 THEN 1000000 ELSE q[1]) + SumSeq(Tail(q))

\* What the image readers must do with a header whose parse ended as r = ParseHeader(ImageInit, ..)
\* (cfg: name and length of the data file that exists):
\* [k |-> "accept", x, y, z] | [k |-> "reject"] | [k |-> "any"] (outside the modelled part: anything but a crash);
\* a rejection is made while parsing (stage "parse": by error() - thrown - or by parse() returning false) or when the data are read
ImageJudge(r, cfg) ==
  LET v == r.st.vars IN
  IF r.verdict # "accepted" THEN [k |-> "reject", why |-> r.why, stage |-> "parse", thrown |-> r.verdict = "error"]
  ELSE IF v.unmodelled THEN [k |-> "any", why |-> "unmodelled", stage |-> "", thrown |-> FALSE]
  ELSE IF ~HdrPostOk(v) THEN [k |-> "reject", why |-> "post_processing", stage |-> "parse", thrown |-> FALSE]
  ELSE IF v.PET_data_type # 5 THEN [k |-> "reject", why |-> "expecting an image", stage |-> "parse", thrown |-> FALSE]       \* also -1: a value outside the list
  ELSE IF v.num_dimensions # 3 THEN [k |-> "reject", why |-> "expecting 3D image", stage |-> "parse", thrown |-> FALSE]
  ELSE IF \E d \in 1..3 : Len(v.matrix_size[d]) # 1 THEN [k |-> "reject", why |-> "homogeneous dimensions", stage |-> "parse", thrown |-> FALSE]
  ELSE IF v.matrix_labels[1] # "" /\ v.matrix_labels # <<"x", "y", "z">> THEN [k |-> "reject", why |-> "x,y,z order", stage |-> "parse", thrown |-> FALSE]
  ELSE IF v.data_file_name # cfg.datafile THEN [k |-> "reject", why |-> "data file", stage |-> "data", thrown |-> FALSE]
  ELSE IF Len(v.data_offset) < 1 \/ Len(v.image_scaling_factors) < 1 THEN [k |-> "reject", why |-> "no dataset", stage |-> "data", thrown |-> FALSE]
  ELSE IF ~TypeValid(v.number_format, v.bytes_per_pixel) THEN [k |-> "reject", why |-> "number type", stage |-> "data", thrown |-> FALSE]
  ELSE IF v.data_offset[1].big THEN [k |-> "reject", why |-> "offset", stage |-> "data", thrown |-> FALSE]
  ELSE IF ~Fits4(v.matrix_size[1][1], v.matrix_size[2][1], v.matrix_size[3][1], 1, v.bytes_per_pixel, v.data_offset[1].n, cfg.datalen)
       THEN [k |-> "reject", why |-> "data file too short", stage |-> "data", thrown |-> FALSE]                               \* "data whose size contradicts the header"
  ELSE [k |-> "accept", why |-> "", stage |-> "", thrown |-> FALSE, x |-> v.matrix_size[1][1], y |-> v.matrix_size[2][1], z |-> v.matrix_size[3][1]]

\* Projection data: the scanner / ProjDataInfo consistency checks are not modelled, so a header that
\* passes the modelled checks MAY be accepted; if it is, the object must have the shape the header announces.
PDFSJudge(r, cfg) ==
  LET v == r.st.vars IN
  IF r.verdict # "accepted" THEN [k |-> "reject", why |-> r.why]
  ELSE IF v.unmodelled THEN [k |-> "any", why |-> "unmodelled"]
  ELSE IF ~HdrPostOk(v) THEN [k |-> "reject", why |-> "post_processing"]
  ELSE IF v.PET_data_type # 0 THEN [k |-> "reject", why |-> "expecting emission data"]
  ELSE IF Len(v.min_ring_difference) # v.num_segments \/ Len(v.max_ring_difference) # v.num_segments \/ Len(v.num_rings_per_segment) # v.num_segments
       THEN [k |-> "reject", why |-> "per-segment information is inconsistent"]
  ELSE IF ~\E i \in 1..v.num_segments : v.min_ring_difference[i] + v.max_ring_difference[i] = 0 THEN [k |-> "reject", why |-> "no segment 0"]
  ELSE IF Len(v.timing_poss_sequence) > 0 /\ Len(v.timing_poss_sequence) # v.num_timing_poss THEN [k |-> "reject", why |-> "TOF bin order"]
  ELSE [k |-> "may", why |-> "", segs |-> v.num_segments, views |-> v.num_views, bins |-> v.num_bins, axial |-> v.num_rings_per_segment,
        tof |-> v.num_timing_poss,
        fits |-> /\ v.data_file_name = cfg.datafile        \* (a ProjDataFromStream is only opened; a wrong file shows when reading)
                 /\ Len(v.data_offset) >= 1 /\ ~v.data_offset[1].big /\ TypeValid(v.number_format, v.bytes_per_pixel)
                 /\ Fits4(v.num_bins, v.num_views, SumSeq(v.num_rings_per_segment), v.num_timing_poss, v.bytes_per_pixel, v.data_offset[1].n, cfg.datalen)]
\* The format-independent readers (read_from_file<>, ProjData::read_from_file) first look at the file's
\* signature: the text before the first ':' of the file must standardise to "interfile"
SignatureOk(L) == LET t == FoldLeft(LAMBDA a, x : a \o x \o "\n", "", SubSeq(L, 1, IF Len(L) < 3 THEN Len(L) ELSE 3))
                      c == FirstIn(t, {":"}, 1) IN
                  c > 0 /\ Standardise(SubSeq(t, 1, c - 1)) = "interfile"
\* two headers have the same meaning iff their runs end with the same variables
Relevant(v) == v
=============================================================================
