---------------------------- MODULE ThreadRules ----------------------------
(* C18 - the synchronisation rules shared by the process model (Threads.tla,   *)
(* checked exhaustively by TLC) and by the validation of recorded OpenMP       *)
(* executions (Trace_Threads.tla).  Pure operators on small component states:  *)
(* nothing here knows about threads' program counters or about trace lines.    *)
EXTENDS Integers, Sequences, FiniteSets

Abs(x) == IF x < 0 THEN -x ELSE x

(***************************************************************************)
(* (a) A lazily built table guarded by double-checked locking.             *)
(* z = [flag, tab, fills]: the "initialised" flag, the table (0 empty,     *)
(* 1 partially filled, 2 complete) and the number of fills started.        *)
(* Code: ProjDataInfoCylindrical(NoArcCorr).inl / ProjDataInfoGeneric-     *)
(* NoArcCorr.inl: atomic read of the flag; if unset: named critical        *)
(* section { re-check; initialise_...(); } where initialise_...() fills    *)
(* the table and sets the flag LAST.                                       *)
(***************************************************************************)
ZNew == [flag |-> FALSE, tab |-> 0, fills |-> 0]
\* what a thread that has just entered the critical section and read `v' as flag value may assume
ZSeen(v, fills) == [flag |-> v, tab |-> IF v THEN 2 ELSE 0, fills |-> fills]
\* inside the critical section, after the re-check
ZFillBeginOK(z) == ~z.flag /\ z.tab = 0        \* only an uninitialised table is filled ("filled once")
ZFillBegin(z) == [z EXCEPT !.tab = 1, !.fills = @ + 1]
ZFillEndOK(z) == z.tab = 1
ZFillEnd(z) == [z EXCEPT !.tab = 2]
ZSetFlagOK(z) == z.tab = 2 /\ ~z.flag          \* "flag set after the fill is complete"
ZSetFlag(z) == [z EXCEPT !.flag = TRUE]
ZLeaveOK(z) == z.flag /\ z.tab = 2             \* nobody leaves the section with the table unusable
ZUseOK(z) == z.tab = 2                         \* "every use sees a complete table"

(***************************************************************************)
(* (b) The row cache of ProjMatrixByBin: one map per (view, segment), each *)
(* guarded by its own lock; find and insert happen inside the lock, the    *)
(* row is computed outside it, std::map::insert does nothing if the key is *)
(* present.                                                                *)
(* The call-outs do not say WHICH matrix object they come from; a run       *)
(* declares how many cached matrices it can reach (nm; 1 for all workloads  *)
(* except the objective functions on TOF data, which clone the back         *)
(* projector - and its matrix - for the sensitivity).  cnt = number of      *)
(* effective inserts of the key so far, over all nm objects:                *)
(*   a hit needs an earlier insert; a miss is impossible once all nm maps   *)
(*   hold the key ("nothing lost"); an insert that finds the key absent is  *)
(*   possible at most once per object ("one effective insert per key").     *)
(* For nm = 1 this is the exact content of the one map.                     *)
(***************************************************************************)
CacheLookupOK(cnt, found, nm) == IF found = 1 THEN cnt >= 1 ELSE cnt < nm
CacheInsertOK(cnt, present, nm) == IF present = 1 THEN cnt >= 1 ELSE cnt < nm

(***************************************************************************)
(* (c) Per-thread accumulators reduced after the join: the reduction loop  *)
(* visits slots 0 .. size-1 in order; every slot that received a           *)
(* contribution must be visited (and, for the image accumulators, be       *)
(* reported as allocated).                                                 *)
(***************************************************************************)
\* progress of one reduction loop: [next, size] ; Idle when no loop is in progress
RedIdle == [next |-> 0, size |-> 0]
RedStepOK(red, i, size) == IF red = RedIdle THEN i = 0 /\ size >= 1 ELSE i = red.next /\ size = red.size
RedStep(red, i, size) == IF i + 1 = size THEN RedIdle ELSE [next |-> i + 1, size |-> size]
RedCovers(dirty, size) == \A s \in dirty : s >= 0 /\ s < size

(***************************************************************************)
(* BEYOND THE NUMERIC CLAUSE ("without ... crashes or deadlock"): guards    *)
(* against callers that are themselves inside a parallel region.           *)
(* BackProjectorByBin::start_accumulating_in_new_target / get_output must  *)
(* only run outside parallel regions ("cannot be called inside a thread"): *)
(* in a team of more than one thread EVERY such call is refused with an    *)
(* error (and touches nothing); in a team of one none is.                  *)
(***************************************************************************)
GuardOK(team, calls, refused, accepted) ==
  /\ refused + accepted = calls
  /\ IF team > 1 THEN accepted = 0 ELSE refused = 0

(***************************************************************************)
(* Numeric outputs are compared with the 1-thread run of the same calls in *)
(* fixed point: "up to floating-point reassociation of the per-thread      *)
(* partial sums".  RelTol = 2^-14 of the largest magnitude of the          *)
(* reference array (DESIGN.md section 5), + 2 units for the two roundings  *)
(* to fixed point.                                                         *)
(***************************************************************************)
RelTolShift == 14
Tol(mx) == (mx \div (2 ^ RelTolShift)) + 2
Close(a, b, mx) == Abs(a - b) <= Tol(mx)
=============================================================================
