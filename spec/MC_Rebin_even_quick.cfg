SPECIFICATION Spec
CONSTANTS
  Ns = {4}
  Rs = {2, 3, 6}
  Spans = {2, 4}
  Mashes = {1}
  Tofs = {}
  TofN = 4
  TofR = 2
INVARIANTS InvGeom InvG2 InvRefuse InvCommute InvSubset InvConserve InvNest InvTofK InvMapDef InvInverse InvExtend InvDownsample
CHECK_DEADLOCK FALSE
