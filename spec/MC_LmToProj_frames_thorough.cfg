SPECIFICATION Spec
CONSTANTS
  MaxLen = 4
  Symbols = {1, 2, 3, 4, 5, 9, 10, 11}
  SegIMs = {2}
  TofIMs = {2}
  FrameIds = {0, 2, 4, 5}
  StoreIds = {1, 3}
  NStores = {0, 2}
  Freshes = {FALSE}
  MaxSegs = {1}
  FixEmpty = TRUE
INVARIANTS InvBatches InvOut InvPartition InvPos InvCount
CHECK_DEADLOCK FALSE
