--------------------------- MODULE MC_Coordinates ---------------------------
(* Exhaustive check of the theorems of Coordinates.tla over a family of      *)
(* small configurations: one initial state per configuration, one step per   *)
(* theorem (tables ipT / binT memoise InPlaneOf / BinOf of Geometry.tla).    *)
EXTENDS Coordinates
CONSTANTS MaxN, MaxR, MaxTofMash
VARIABLES c, k, ipT, binT

Configs ==
  { x \in [N : { n \in 4..MaxN : n % 2 = 0 }, R : 1..MaxR, span : 1..(2 * MaxR - 1), ge : BOOLEAN,
           maxDelta : 0..(MaxR - 1), mash : 1..(MaxN \div 2), tofMash : {0} \cup { m \in 1..MaxTofMash : m % 2 = 1 },
           maxT : {5}, minTang : {0}, maxTang : {0}, minSeg : {0}, maxSeg : 0..(MaxR - 1), trunc : 0..1] :
      /\ (x.ge => x.span = 1)
      /\ x.mash \in {1, 2, 3}
      /\ x.maxSeg = FullMaxSeg(x) }
\* tangential range: full (trunc = 0) or reduced asymmetric (trunc = 1, as num_tangential_poss even gives)
Norm(x) == [N |-> x.N, R |-> x.R, span |-> x.span, ge |-> x.ge, maxDelta |-> x.maxDelta, mash |-> x.mash,
            tofMash |-> x.tofMash, maxT |-> x.maxT,
            minTang |-> IF x.trunc = 0 THEN -(x.N \div 2) + 1 ELSE -((x.N \div 2) \div 2),
            maxTang |-> IF x.trunc = 0 THEN (x.N \div 2) - 1 ELSE ((x.N \div 2) \div 2) - 1,
            minSeg |-> -x.maxSeg, maxSeg |-> x.maxSeg]

Init == /\ k = 0 /\ ipT = <<>> /\ binT = <<>>
        /\ c \in { Norm(x) : x \in Configs }
        /\ InScope(c)
Next == /\ k < 7 /\ k' = k + 1 /\ c' = c
        /\ ipT' = IF k = 0 THEN IpTable(c) ELSE ipT
        /\ binT' = IF k = 1 THEN BinTable(c, ipT) ELSE binT
Spec == Init /\ [][Next]_<<c, k, ipT, binT>>

Inv1 == k = 2 => C1(c, binT, ipT)
Inv2 == k = 3 => C2(c, binT, ipT)
Inv3 == k = 4 => C3(c)
Inv4 == k = 5 => C4(c, ipT)
Inv5 == k = 6 => C5(c, ipT)
Inv6 == k = 7 => C6(c.N)
=============================================================================
