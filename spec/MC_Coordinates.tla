--------------------------- MODULE MC_Coordinates ---------------------------
(* Exhaustive check of the theorems of Coordinates.tla over a family of      *)
(* small configurations: one initial state per configuration, one step per   *)
(* theorem (tables ipT / binT memoise InPlaneOf / BinOf of Geometry.tla).    *)
EXTENDS Coordinates
CONSTANTS MaxN, MaxR, MaxTofMash, MaxRB
VARIABLES c, k, ipT, binT

\* family A: all lay-outs of small scanners; family B: N = 4 with MaxRB rings, where axially compressed
\* segments have an axial edge at which the nominal line leaves the scanner (MayMiss is exercised)
ConfigsA ==
  { x \in [N : { n \in 4..MaxN : n % 2 = 0 }, R : 1..MaxR, span : 1..(2 * MaxR - 1), ge : BOOLEAN,
           maxDelta : 0..(MaxR - 1), mash : 1..(MaxN \div 2), tofMash : {0} \cup { m \in 1..MaxTofMash : m % 2 = 1 },
           maxT : {5}, minTang : {0}, maxTang : {0}, minSeg : {0}, maxSeg : 0..(MaxR - 1), trunc : 0..2, asym : 0..3] :
      /\ (x.ge => x.span = 1)
      /\ x.mash \in {1, 2, 3}
      /\ x.maxSeg = FullMaxSeg(x) }
ConfigsB ==
  { x \in [N : {4}, R : (MaxR + 1)..MaxRB, span : 2..(2 * MaxRB - 1), ge : {FALSE},
           maxDelta : 1..(MaxRB - 1), mash : {1}, tofMash : {0, 1},
           maxT : {3}, minTang : {0}, maxTang : {0}, minSeg : {0}, maxSeg : 0..(MaxRB - 1), trunc : {0}, asym : {0, 1}] :
      /\ x.maxSeg = FullMaxSeg(x) }
Configs == ConfigsA \cup ConfigsB
\* tangential range: full (trunc = 0), reduced (trunc = 1, as an even num_tangential_poss gives) or one-sided
\* (trunc = 2, as set_min/max_tangential_pos_num on an existing object can give)
Norm(x) == [N |-> x.N, R |-> x.R, span |-> x.span, ge |-> x.ge, maxDelta |-> x.maxDelta, mash |-> x.mash,
            tofMash |-> x.tofMash, maxT |-> x.maxT,
            minTang |-> IF x.trunc \in {0, 2} THEN -(x.N \div 2) + 1 ELSE -((x.N \div 2) \div 2),
            maxTang |-> IF x.trunc = 0 THEN (x.N \div 2) - 1 ELSE IF x.trunc = 1 THEN ((x.N \div 2) \div 2) - 1 ELSE 0,
            \* segment range: symmetric, or asymmetric as reduce_segment_range allows (ending at 0 on either side,
            \* one segment fewer on the positive side)
            minSeg |-> IF x.asym = 2 THEN 0 ELSE -x.maxSeg,
            maxSeg |-> IF x.asym = 1 THEN 0 ELSE IF x.asym = 3 THEN Max2(0, x.maxSeg - 1) ELSE x.maxSeg]

\* the escape clauses of the round-trip theorem are not vacuous: witnesses (evaluated once)
WitnessC == [N |-> 8, R |-> 5, span |-> 3, ge |-> FALSE, maxDelta |-> 4, mash |-> 1, tofMash |-> 0, maxT |-> 0,
             minTang |-> -2, maxTang |-> 1, minSeg |-> -1, maxSeg |-> 1]
ASSUME LET ipW == IpTable(WitnessC) IN
       /\ InScope(WitnessC)
       /\ \E b \in AllBins(WitnessC) : MayMiss(WitnessC, b) /\ NoBin \in RTOutcomes(WitnessC, b, ipW) /\ ~TangEdge(WitnessC, b)
       /\ \E b \in AllBins(WitnessC) : TangEdge(WitnessC, b) /\ NoBin \in RTOutcomes(WitnessC, b, ipW) /\ ~MayMiss(WitnessC, b)
       /\ \E b \in AllBins(WitnessC) : \E x \in RTOutcomes(WitnessC, b, ipW) : x # NoBin /\ x # b /\ x.seg = -b.seg /\ b.seg # 0

Init == /\ k = 0 /\ ipT = <<>> /\ binT = <<>>
        /\ c \in { Norm(x) : x \in Configs }
        /\ InScope(c)
Next == /\ k < 7 /\ k' = k + 1 /\ c' = c
        /\ ipT' = IF k = 0 THEN IpTable(c) ELSE ipT
        /\ binT' = IF k = 1 THEN BinTable(c, ipT) ELSE binT
Spec == Init /\ [][Next]_<<c, k, ipT, binT>>

Inv1 == k = 2 => C1(c, binT, ipT)
Inv2 == k = 3 => C2(c, binT, ipT)
Inv3 == k = 4 => C3(c)
Inv4 == k = 5 => C4(c, ipT)
Inv5 == k = 6 => C5(c, ipT)
Inv6 == k = 7 => C6(c.N)
=============================================================================
