------------------------------ MODULE PoissonLL ------------------------------
(* C05 - the Poisson log-likelihood for projection data and the quantities   *)
(* derived from it, on EXACT INSTANCES (DESIGN.md section 4, encoding E).    *)
(*                                                                           *)
(*     L(lambda) = SUM_b  y_b log(ybar_b) - ybar_b ,   ybar = n (P lambda + a)  *)
(*                                                                           *)
(* P is an explicit small integer matrix (rows = bins, columns = voxels),    *)
(* lambda, a, y are integers, the bin efficiencies are n_b = 2^ef_b, and the *)
(* data are y_b = r_b d_b^2 with d = P lambda + a, so that every quotient    *)
(* the definitions contain is an integer and TLC can evaluate them exactly.  *)
(* Image-domain quantities are expressed in units of 1/16 (scale SC) because *)
(* n may be 1/2 or 1/4 and a subset's share of a total is 1/num_subsets.     *)
(*                                                                           *)
(*   sys : the system                                                        *)
(*     nv, numViews, minView, minAx0, maxAx0 (axial range of segment 0),     *)
(*     maxSegData, bins[b] = <<segment, view, axial, tangential, TOF>>,      *)
(*     rows[b] = sequence of <<voxel, weight>>  (row b of P),                *)
(*     cols[v] = sequence of <<bin, weight>>    (column v of P)              *)
(*   I : the instance and the options of the objective function              *)
(*     lam, x (images), y, a, ef (per bin), zero (zero_seg0_end_planes),     *)
(*     maxSeg (max_segment_num_to_process, resolved), N (num_subsets),       *)
(*     uss (use_subset_sensitivities)                                        *)
(*   m : per-bin tables  d = P lam + a,  px = P x,  used                     *)
EXTENDS Integers, Sequences, FiniteSets

SC == 16                \* image-domain unit 1/16
AHK == 10               \* approximate Hessian: unit 2^-10
VK == 10                \* values: unit 2^-10

Abs(i) == IF i < 0 THEN -i ELSE i
\* sum of a sequence of integers (divide and conquer keeps TLC's recursion depth logarithmic)
RECURSIVE SumRange(_, _, _)
SumRange(f, lo, hi) == IF lo > hi THEN 0 ELSE IF lo = hi THEN f[lo]
                       ELSE SumRange(f, lo, (lo + hi) \div 2) + SumRange(f, (lo + hi) \div 2 + 1, hi)
Sum(f) == SumRange(f, 1, Len(f))

IsPow2(n) == n \in {1, 2, 4, 8, 16, 32, 64, 128, 256, 512, 1024, 2048, 4096, 8192, 16384, 32768, 65536}
RECURSIVE Lg(_)
Lg(n) == IF n <= 1 THEN 0 ELSE 1 + Lg(n \div 2)      \* log2 of a power of two

NB(sys) == Len(sys.bins)
Seg(sys, b) == sys.bins[b][1]
View(sys, b) == sys.bins[b][2]
Ax(sys, b) == sys.bins[b][3]

-----------------------------------------------------------------------------
(* The system description is well formed: rows and columns describe the same matrix. *)
SystemOk(sys) ==
  /\ sys.nv >= 1 /\ Len(sys.rows) = NB(sys) /\ Len(sys.cols) = sys.nv
  /\ Cardinality({ sys.bins[b] : b \in 1..NB(sys) }) = NB(sys)
  /\ \A b \in 1..NB(sys) :
       /\ \A i \in 1..Len(sys.rows[b]) : sys.rows[b][i][1] \in 1..sys.nv /\ sys.rows[b][i][2] >= 1
       /\ Cardinality({ sys.rows[b][i][1] : i \in 1..Len(sys.rows[b]) }) = Len(sys.rows[b])
  /\ \A v \in 1..sys.nv :
       /\ \A i \in 1..Len(sys.cols[v]) :
            LET b == sys.cols[v][i][1] IN
            /\ b \in 1..NB(sys)
            /\ \E j \in 1..Len(sys.rows[b]) : sys.rows[b][j] = << v, sys.cols[v][i][2] >>
       /\ Cardinality({ sys.cols[v][i][1] : i \in 1..Len(sys.cols[v]) }) = Len(sys.cols[v])
  /\ Sum([v \in 1..sys.nv |-> Len(sys.cols[v])]) = Sum([b \in 1..NB(sys) |-> Len(sys.rows[b])])

RowDot(row, vec) == Sum([i \in 1..Len(row) |-> row[i][2] * vec[row[i][1]]])

(* "zero_seg0_end_planes": the first and last sinogram of segment 0 are excluded;              *)
(* "max_segment_num_to_process": only segments -maxSeg..maxSeg take part.                      *)
UsedBin(sys, I, b) ==
  /\ Abs(Seg(sys, b)) <= I.maxSeg
  /\ ~(I.zero /\ Seg(sys, b) = 0 /\ Ax(sys, b) \in {sys.minAx0, sys.maxAx0})

Memo(sys, I) ==
  [ d    |-> [b \in 1..NB(sys) |-> RowDot(sys.rows[b], I.lam) + I.a[b]],     \* P lambda + a
    px   |-> [b \in 1..NB(sys) |-> RowDot(sys.rows[b], I.x)],                \* P x
    used |-> [b \in 1..NB(sys) |-> UsedBin(sys, I, b)] ]

(* The instance is exact and stays away from the clamps of divide_and_truncate (quotient       *)
(* limit 10^4, numerators below 10^-6 of the maximum), which the property excludes ("wherever  *)
(* ybar_b > 0").  A bin with mean 0 must have no counts (then it contributes -n_b P_b to the    *)
(* gradient, nothing to the Hessian and nothing to the value, as the definition says).         *)
InstanceOk(sys, I, m) ==
  /\ Len(I.lam) = sys.nv /\ Len(I.x) = sys.nv
  /\ Len(I.y) = NB(sys) /\ Len(I.a) = NB(sys) /\ Len(I.ef) = NB(sys)
  /\ I.N >= 1 /\ I.maxSeg \in 0..sys.maxSegData
  /\ (~I.uss => sys.numViews % I.N = 0)           \* without subset sensitivities the subsets must be balanced
  /\ \A v \in 1..sys.nv : I.lam[v] \in 0..64 /\ I.x[v] \in 0..64
  /\ \A b \in 1..NB(sys) :
       /\ I.a[b] >= 0 /\ I.y[b] >= 0 /\ I.y[b] < 1000000 /\ I.ef[b] \in -2..0
       /\ m.d[b] = 0 => I.y[b] = 0
       /\ m.d[b] > 0 => /\ m.d[b] <= 1000
                        /\ I.y[b] % (m.d[b] * m.d[b]) = 0
                        /\ I.y[b] \div m.d[b] < 10000
                        /\ (I.y[b] \div (m.d[b] * m.d[b])) * m.px[b] < 10000
                        /\ I.y[b] * m.px[b] < 16000000

-----------------------------------------------------------------------------
(* Subsets: with the trivial symmetries of the explicit matrix every (view, segment) is basic, *)
(* and subset s of N consists of the views  minView + s, minView + s + N, ...  (all segments,  *)
(* all TOF positions).  s = -1 stands for the full data.                                       *)
(* With a matrix that uses symmetries (sys.subkey given: the view of the basic view/segment pair *)
(* of each bin, Subsets.tla) a subset consists of the ORBITS of the basic pairs with that view.  *)
SubsetKey(sys, b) == IF "subkey" \in DOMAIN sys THEN sys.subkey[b] ELSE View(sys, b) - sys.minView
InSub(sys, I, b, s) == s = -1 \/ SubsetKey(sys, b) % I.N = s
Sel(sys, I, m, b, s) == m.used[b] /\ InSub(sys, I, b, s)

(* back projection of a per-bin quantity g over the selected bins:  (P_S^T g)_v               *)
Back(sys, I, m, g(_), s, v) ==
  Sum([i \in 1..Len(sys.cols[v]) |->
         IF Sel(sys, I, m, sys.cols[v][i][1], s) THEN sys.cols[v][i][2] * g(sys.cols[v][i][1]) ELSE 0])

(* per-bin terms, in units of 1/SC *)
EffSC(I, b) == 2^(I.ef[b] + 4)                                          \* SC n_b
QuotSC(I, m, b) == IF m.d[b] > 0 THEN SC * (I.y[b] \div m.d[b]) ELSE 0  \* SC y_b / d_b
CurvSC(I, m, b) == IF m.d[b] > 0 THEN SC * (I.y[b] \div (m.d[b] * m.d[b])) * m.px[b] ELSE 0   \* SC y_b (Px)_b / d_b^2

(*   gradient            dL/dlambda   = P_S^T ( y/d - n )                                      *)
(*   gradient + sens.                 = P_S^T ( y/d )                                          *)
(*   sensitivity                      = P_S^T n                                                *)
(*   Hessian times x     H x          = - P_S^T ( y (Px) / d^2 )                               *)
Grad(sys, I, m, s, v) == LET g(b) == QuotSC(I, m, b) - EffSC(I, b) IN Back(sys, I, m, g, s, v)
GradPlusSens(sys, I, m, s, v) == LET g(b) == QuotSC(I, m, b) IN Back(sys, I, m, g, s, v)
Sens(sys, I, m, s, v) == LET g(b) == EffSC(I, b) IN Back(sys, I, m, g, s, v)
HessTimes(sys, I, m, s, v) == LET g(b) == CurvSC(I, m, b) IN -Back(sys, I, m, g, s, v)

(* What the objective function reports as "the sensitivity of subset s" (named deviation,      *)
(* documented): the true subset sensitivity when use_subset_sensitivities is set, otherwise    *)
(* the total sensitivity divided by the number of subsets.                                     *)
ReportedSensDefined(sys, I, m, s, v) == I.uss \/ s = -1 \/ Sens(sys, I, m, -1, v) % I.N = 0
ReportedSens(sys, I, m, s, v) ==
  IF I.uss \/ s = -1 THEN Sens(sys, I, m, s, v) ELSE Sens(sys, I, m, -1, v) \div I.N

(* Approximate Hessian (ybar replaced by y):  - P_S^T ( n^2 (Px) / y ), in units of 2^-AHK.    *)
(* Exact only where y_b is a power of two; a used bin with y_b = 0 must have (Px)_b = 0        *)
(* (otherwise the implementation's quotient clamp is met, which is outside the property).      *)
ApproxDomain(sys, I, m, s) ==
  \A b \in 1..NB(sys) : (Sel(sys, I, m, b, s) /\ m.px[b] > 0) =>
       /\ I.y[b] > 0 /\ IsPow2(I.y[b]) /\ AHK + 2 * I.ef[b] - Lg(I.y[b]) >= 0
ApproxBin(I, m, b) == IF m.px[b] > 0 /\ I.y[b] > 0 THEN m.px[b] * 2^(AHK + 2 * I.ef[b] - Lg(I.y[b])) ELSE 0
ApproxHess(sys, I, m, s, v) == LET g(b) == ApproxBin(I, m, b) IN -Back(sys, I, m, g, s, v)

(* The value, on instances whose means n_b d_b are powers of two:                              *)
(*     L = ln2 * SUM y_b log2(n_b d_b)  -  SUM n_b d_b       (bins with ybar_b > 0 only)       *)
(* ValueA = SUM y_b log2(n_b d_b)  (an integer),  ValueB = SC * SUM n_b d_b.                   *)
ValueBin(sys, I, m, b, s) == Sel(sys, I, m, b, s) /\ m.d[b] > 0
Pow2Means(sys, I, m, s) == \A b \in 1..NB(sys) : ValueBin(sys, I, m, b, s) => IsPow2(m.d[b])
ValueA(sys, I, m, s) ==
  Sum([b \in 1..NB(sys) |-> IF ValueBin(sys, I, m, b, s) THEN I.y[b] * (Lg(m.d[b]) + I.ef[b]) ELSE 0])
ValueB(sys, I, m, s) ==
  Sum([b \in 1..NB(sys) |-> IF ValueBin(sys, I, m, b, s) THEN EffSC(I, b) * m.d[b] ELSE 0])

(* A * ln2 in units of 2^-VK, by limbs so that every intermediate stays below 2^31:            *)
(* ln2 * 2^30 = 744261117.95 = 22713 * 2^15 + 1534 (rounded); |A| < 2^21.                       *)
Ln2Hi == 22713
Ln2Lo == 1534
MulLn2(A) ==
  LET sg == IF A < 0 THEN -1 ELSE 1
      B == Abs(A)
      a1 == B \div 32768
      a0 == B % 32768
  IN sg * (a1 * Ln2Hi * 1024 + (a1 * Ln2Lo + a0 * Ln2Hi) \div 32 + (a0 * Ln2Lo) \div 1048576)
ValueRange(A) == Abs(A) < 2000000
(* expected value in units of 2^-VK and the tolerance of the comparison: 3 for the limb         *)
(* arithmetic above (three floor divisions), 1 for the rounding of the recorded value, 2 for    *)
(* the implementation's double-precision log and accumulation (relative 1e-15 of < 2^31).       *)
ValueVK(sys, I, m, s) == MulLn2(ValueA(sys, I, m, s)) - ValueB(sys, I, m, s) * (2^VK \div SC)
ValueTol == 6

-----------------------------------------------------------------------------
(* Theorems of the specification (checked by MC_PoissonLL on small instances; they are the     *)
(* property's clauses that relate the quantities to each other).                               *)
Subsets(I) == 0..(I.N - 1)
Voxels(sys) == 1..sys.nv
SumOverSubsets(I, q(_)) == Sum([k \in 1..I.N |-> q(k - 1)])

(* "The 'gradient plus sensitivity' quantity exceeds the gradient by exactly the sensitivity"  *)
ThGradPlusSens(sys, I, m) ==
  \A s \in Subsets(I) \cup {-1} : \A v \in Voxels(sys) :
     GradPlusSens(sys, I, m, s, v) - Grad(sys, I, m, s, v) = Sens(sys, I, m, s, v)

(* "each quantity summed over all subsets equals its full-data counterpart"                    *)
ThSubsetsSum(sys, I, m) ==
  /\ \A v \in Voxels(sys) :
       /\ LET q(s) == Grad(sys, I, m, s, v) IN SumOverSubsets(I, q) = Grad(sys, I, m, -1, v)
       /\ LET q(s) == GradPlusSens(sys, I, m, s, v) IN SumOverSubsets(I, q) = GradPlusSens(sys, I, m, -1, v)
       /\ LET q(s) == Sens(sys, I, m, s, v) IN SumOverSubsets(I, q) = Sens(sys, I, m, -1, v)
       /\ LET q(s) == HessTimes(sys, I, m, s, v) IN SumOverSubsets(I, q) = HessTimes(sys, I, m, -1, v)
       /\ LET q(s) == ApproxHess(sys, I, m, s, v) IN SumOverSubsets(I, q) = ApproxHess(sys, I, m, -1, v)
       /\ (\A s \in Subsets(I) : ReportedSensDefined(sys, I, m, s, v)) =>
            LET q(s) == ReportedSens(sys, I, m, s, v) IN SumOverSubsets(I, q) = Sens(sys, I, m, -1, v)
  /\ LET q(s) == ValueA(sys, I, m, s) IN SumOverSubsets(I, q) = ValueA(sys, I, m, -1)
  /\ LET q(s) == ValueB(sys, I, m, s) IN SumOverSubsets(I, q) = ValueB(sys, I, m, -1)

(* consequences of the definitions that any correct Hessian must have: H is symmetric and      *)
(* negative semi-definite (L is concave); evaluated with a second vector z                     *)
HessWith(sys, I, m, z, s, v) ==
  LET mz == [m EXCEPT !.px = [b \in 1..NB(sys) |-> RowDot(sys.rows[b], z)]] IN HessTimes(sys, I, mz, s, v)
ThHessian(sys, I, m, z) ==
  \A s \in Subsets(I) \cup {-1} :
    /\ Sum([v \in Voxels(sys) |-> z[v] * HessTimes(sys, I, m, s, v)]) = Sum([v \in Voxels(sys) |-> I.x[v] * HessWith(sys, I, m, z, s, v)])
    /\ Sum([v \in Voxels(sys) |-> I.x[v] * HessTimes(sys, I, m, s, v)]) <= 0

(* the gradient vanishes on used bins exactly where the data equal the mean: with y = n d      *)
(* (r = n... only possible for n d^2 = y) - not needed; instead: bins that are not used        *)
(* (excluded segment, zeroed end plane) influence nothing                                      *)
ThUnusedIrrelevant(sys, I, m, J, mj) ==
  (\A b \in 1..NB(sys) : m.used[b] => (I.y[b] = J.y[b] /\ I.a[b] = J.a[b] /\ I.ef[b] = J.ef[b])) =>
     \A s \in Subsets(I) \cup {-1} : \A v \in Voxels(sys) :
        /\ Grad(sys, I, m, s, v) = Grad(sys, J, mj, s, v)
        /\ Sens(sys, I, m, s, v) = Sens(sys, J, mj, s, v)
        /\ HessTimes(sys, I, m, s, v) = HessTimes(sys, J, mj, s, v)
=============================================================================
