SPECIFICATION Spec
CONSTANTS MaxLen = 8 Variant = "doc"
INVARIANTS Inv Belief
CHECK_DEADLOCK FALSE
