SPECIFICATION Spec
CONSTANTS MaxLen = 10 Variant = "doc"
INVARIANTS Inv Belief Protocol
CHECK_DEADLOCK FALSE
