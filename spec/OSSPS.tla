-------------------------------- MODULE OSSPS --------------------------------
(* C08 - OSSPS sub-iterations follow the preconditioned relaxed update within bounds.          *)
(*                                                                                             *)
(*   "One OSSPS sub-iteration on subset S maps lambda to                                       *)
(*        clamp(lambda + zeta_n N grad_S Phi(lambda) / D, 0, upper bound),                     *)
(*    where Phi is the penalised objective, N the number of subsets, zeta_n = alpha/(1+gamma n)*)
(*    the relaxation for full iteration n, and D the strictly positive precomputed curvature   *)
(*    (minus the approximate log-likelihood Hessian applied to a uniform image, plus twice the *)
(*    prior's surrogate curvature).  Iterates therefore always lie within [0, upper bound].    *)
(*    With no prior or a quadratic prior, resuming from a saved iterate reproduces the         *)
(*    uninterrupted run."                                                                      *)
(*                                                                                             *)
(* Part 1  the ingredients of the law (relaxation, schedule, clamp) and the law in fixed point *)
(* Part 2  exact instances: gradient of the penalised objective and the denominator computed   *)
(*         from the explicit matrix P, the data, the prior's weights and kappa                 *)
(* Part 3  the implementation-shaped object: what OSSPSReconstruction keeps between calls      *)
(*         (the precomputed denominator it modifies, the absolute sub-iteration counter) as    *)
(*         functional actions on a state record; used by MC_OSSPS and by Trace_OSSPS           *)
(*                                                                                             *)
(* A reconstruction configuration is a record c with                                           *)
(*   N, startSubset           number of subsets, start subset                                  *)
(*   aN, aK, gN, gK           alpha = aN / 2^aK (relaxation parameter), gamma = gN / 2^gK       *)
(*   uInf, uN, uK             upper bound uN / 2^uK unless uInf (the class default: the largest *)
(*                            float)                                                           *)
(*   prior, dep               a prior is present; its surrogate curvature "depends on the      *)
(*                            argument" (OSSPS then recomputes the penalty term of the         *)
(*                            denominator at every sub-iteration instead of storing it)        *)
EXTENDS PoissonLL
Pr == INSTANCE Priors

Min2(a, b) == IF a <= b THEN a ELSE b
Max2(a, b) == IF a >= b THEN a ELSE b

-----------------------------------------------------------------------------
(* Part 1.  Relaxation, schedule, clamp, the step law.                                         *)

(* Sub-iterations are numbered from 1.  "zeta = alpha / (1 + gamma n) with n the (full)         *)
(* iteration number": the code computes n = subiteration_num div num_subsets.  With that       *)
(* reading the last sub-iteration of every full iteration already uses the next n (for N = 1:  *)
(* the first update uses n = 1).  The other reading, (k-1) div N, is named but not demanded:   *)
(* which one is meant is a documentation question (DESIGN.md section 10).                      *)
RelaxationIndex(k, N) == k \div N
IterationOfSubiteration(k, N) == (k - 1) \div N        \* the other reading (not used by the law below)

(* zeta_n = ZetaNum / ZetaDen, exactly *)
ZetaNum(c, n) == c.aN * 2^c.gK
ZetaDen(c, n) == 2^c.aK * (2^c.gK + c.gN * n)
RelaxationOk(c) == c.aN >= 1 /\ c.aK >= 0 /\ c.gN >= 0 /\ c.gK >= 0      \* alpha > 0, gamma >= 0 (set_up rejects others)

(* the subset of sub-iteration k (order not randomised; C06 decides the schedule itself) *)
SubsetOf(c, k) == (k + c.startSubset - 1) % c.N

(* upper bound in units 2^-kl; clamp(x, 0, U) *)
UpperFx(c, kl) == c.uN * 2^(kl - c.uK)
ClampU(c, x, kl) == LET y == IF x < 0 THEN 0 ELSE x IN IF c.uInf THEN y ELSE Min2(y, UpperFx(c, kl))

(* |t| 2^e / d by long division (TLC integers are 32 bit): << quotient truncated towards zero, *)
(* remainder >>; d > 0, 2 d < 2^31                                                             *)
RECURSIVE LongDiv(_, _, _, _)
LongDiv(q, r, e, d) == IF e = 0 THEN << q, r >> ELSE LongDiv(2 * q + (2 * r) \div d, (2 * r) % d, e - 1, d)
ScaledQuot(t, e, d) ==
  LET a == Abs(t)
      qr == LongDiv(a \div d, a % d, e, d)
  IN << IF t < 0 THEN -qr[1] ELSE qr[1], qr[2] >>

(* THE LAW, one voxel, in fixed point.                                                         *)
(*   lam   current value, units 2^-kl                                                          *)
(*   ng    N * (gradient of the penalised objective for subset S), units 2^-kg                 *)
(*   D     denominator, units 2^-kd, D > 0                                                     *)
(* zeta_n N g / D in units 2^-kl = ZetaNum ng 2^(kl-kg+kd) / (ZetaDen D)                       *)
Increment(c, n, ng, D, kl, kg, kd) == ScaledQuot(ZetaNum(c, n) * ng, kl - kg + kd, ZetaDen(c, n) * D)
StepValue(c, n, lam, ng, D, kl, kg, kd) == ClampU(c, lam + Increment(c, n, ng, D, kl, kg, kd)[1], kl)
(* on an exact instance the increment is an exact multiple of 2^-kl *)
StepExact(c, n, ng, D, kl, kg, kd) == Increment(c, n, ng, D, kl, kg, kd)[2] = 0

(* Tolerance of the comparison of a RECORDED new value with the law applied to the RECORDED    *)
(* previous value, gradient and denominator (encoding F: every record is within half a unit of  *)
(* the float it stands for):                                                                   *)
(*   1  truncation of the long division                                                        *)
(*   1  the two half units of the previous and the new value                                   *)
(*   S  half a unit of the gradient, amplified by zeta N / D                                   *)
(*   2|q|/D + 1   one and a half units of the denominator (data part + twice the curvature)    *)
(*   |q| / 2^16 + 1  single-precision rounding of the five float operations of the update      *)
StepTol(c, n, N, q, D, kl, kg, kd) ==
  4 + (ZetaNum(c, n) * N * 2^(kl - kg + kd)) \div (2 * ZetaDen(c, n) * D) + (2 * Abs(q)) \div D + Abs(q) \div 65536

(* float bit pattern (as a non-negative 32-bit integer) of the dyadic u = uN / 2^uK > 0: non-negative floats *)
(* are ordered like their bit patterns, so "lambda <= U" is a comparison of recorded bit patterns            *)
RECURSIVE Msb(_)
Msb(n) == IF n <= 1 THEN 0 ELSE 1 + Msb(n \div 2)
FloatBits(uN, uK) == IF uN = 0 THEN 0 ELSE LET m == Msb(uN) IN (m - uK + 127) * 8388608 + (uN - 2^m) * 2^(23 - m)
MaxFloatBits == 2139095039      \* 0x7F7FFFFF, the class default of the upper bound
(* (uShift: the bound additionally times 2^uShift - a power of two only moves the exponent) *)
UpperBits(c) == IF c.uInf THEN MaxFloatBits
                ELSE IF c.uN = 0 THEN 0
                ELSE FloatBits(c.uN, c.uK) + (IF "uShift" \in DOMAIN c THEN c.uShift ELSE 0) * 8388608
(* "Iterates therefore always lie within [0, upper bound]" on recorded bit patterns *)
WithinBounds(c, bits) == \A v \in 1..Len(bits) : bits[v] >= 0 /\ bits[v] <= UpperBits(c)

(* SCALE CLAUSE (a consequence of the law, no prior): multiply the data, the additive term, the image and the upper bound   *)
(* by 2^j - the gradient P_S^T(y/(P lambda + a) - 1) is unchanged, the denominator P^T((P 1)/y) is divided by 2^j, so the     *)
(* increment and the new image are multiplied by 2^j, exactly (a power of two only moves the exponent of a float).            *)
ScaledBits(bits, j) == [v \in 1..Len(bits) |-> IF bits[v] = 0 THEN 0 ELSE bits[v] + j * 8388608]
ScaledConfig(c1, c2, j) ==
  /\ ~c1.prior /\ ~c2.prior /\ c2.N = c1.N /\ c2.startSubset = c1.startSubset
  /\ << c2.aN, c2.aK, c2.gN, c2.gK >> = << c1.aN, c1.aK, c1.gN, c1.gK >>
  /\ c2.uInf = c1.uInf /\ (~c1.uInf => (c2.uK = c1.uK /\ c2.uN = c1.uN * 2^j))
(* EFFICIENCY SCALE CLAUSE (a consequence of the law, no prior): multiply the bin efficiencies by 2^-j and the image, the   *)
(* additive term and the upper bound by 2^j, data unchanged - the mean n (P lambda + a) of the data is unchanged, the        *)
(* gradient P_S^T n (y/ybar - 1) is multiplied by 2^-j, the denominator P^T (n^2 (P 1)/y) by 2^-2j, so the increment and the *)
(* new image are multiplied by 2^j, bit-exactly, for every j for which no number leaves the range of a float (here |j| <= 40)*)
(* - INSIDE THE THRESHOLD-FREE DOMAIN: every absolute threshold on sensitivities, denominators or image values in the       *)
(* implementation would break it.  The documented thresholds are relative (denominator: 1e-5 times its smallest positive     *)
(* element; quotients y/ybar: unchanged by the scaling) and voxels of sensitivity exactly 0 stay at 0, so exact instances    *)
(* with y/ybar in [1/4, 4] are inside the domain for every such j - except for ONE documented absolute number: the quotient   *)
(* clamp of divide_and_truncate ("set quotient to min(numerator/denominator, max_quotient)", max_quotient = 10^4), which the  *)
(* implementation applies to y/(P lambda + a) and to (P 1)/(y norm^2), i.e. to quotients WITHOUT the efficiencies: they are   *)
(* multiplied by 2^-j and 2^-2j.  On the exact instances y/(P lambda + a) <= 4 and (P 1)/y <= 1, so the domain is j >= -6     *)
(* (4 * 2^6 and 2^12 < 10^4); towards small efficiencies / large images (j > 0, the calibration-factor case) there is no limit. *)
EffScaleDomain == -6..40
ScaledConfigEff(c1, c2, j) ==
  /\ ~c1.prior /\ ~c2.prior /\ c2.N = c1.N /\ c2.startSubset = c1.startSubset
  /\ << c2.aN, c2.aK, c2.gN, c2.gK >> = << c1.aN, c1.aK, c1.gN, c1.gK >>
  /\ c2.uInf = c1.uInf /\ c2.uK = c1.uK /\ c2.uN = c1.uN /\ c2.uShift = c1.uShift + j
ScaledSeq(q1, q2, j) == Len(q1) = Len(q2) /\ \A i \in 1..Len(q1) : q2[i] = q1[i] * 2^j

-----------------------------------------------------------------------------
(* Part 2.  Exact instances on the explicit matrix (encoding E).                               *)
(*   X : lam (integers), yq (data in quarter units: y = yq/4), a (integers), N, zero, maxSeg   *)
(*   data are y_b = c_b (P 1)_b = q_b d_b with c_b, q_b powers of two, d = P lambda + a        *)
HK == 10               \* denominator: units 2^-10
GK == 4                \* gradient: units 1/16 (= SC of PoissonLL)
Ones(n) == [v \in 1..n |-> 1]

XMemo(sys, X) ==
  [ d    |-> [b \in 1..NB(sys) |-> RowDot(sys.rows[b], X.lam) + X.a[b]],          \* P lambda + a
    p1   |-> [b \in 1..NB(sys) |-> RowDot(sys.rows[b], Ones(sys.nv))],            \* P 1
    used |-> [b \in 1..NB(sys) |-> UsedBin(sys, X, b)] ]

(* exactness (and distance from the clamps of divide_and_truncate, which the property does not describe) *)
XInstanceOk(sys, X, m) ==
  /\ Len(X.lam) = sys.nv /\ Len(X.yq) = NB(sys) /\ Len(X.a) = NB(sys) /\ X.N >= 1
  /\ \A v \in 1..sys.nv : X.lam[v] \in 0..64
  /\ \A b \in 1..NB(sys) :
       /\ X.a[b] >= 0 /\ X.yq[b] >= 0 /\ X.yq[b] < 4000000 /\ m.d[b] <= 100000 /\ m.p1[b] <= 4000
       \* a bin with mean 0 sees no voxel and has no counts (it then contributes nothing anywhere)
       /\ IF m.d[b] = 0 THEN m.p1[b] = 0 /\ X.yq[b] = 0
          ELSE m.d[b] >= 1 /\ (4 * X.yq[b]) % m.d[b] = 0 /\ X.yq[b] \div m.d[b] < 1000       \* y/d in units 1/16 is an integer
       /\ m.p1[b] > 0 => (X.yq[b] > 0 /\ (4096 * m.p1[b]) % X.yq[b] = 0 /\ (4 * m.p1[b]) \div X.yq[b] < 1000)

(* gradient of the log-likelihood for subset s:  P_S^T (y/d - 1), units 1/16 *)
XGradLL(sys, X, m, s, v) == LET g(b) == IF m.d[b] > 0 THEN (4 * X.yq[b]) \div m.d[b] - 16 ELSE -16 IN Back(sys, X, m, g, s, v)
(* minus the approximate Hessian (ybar replaced by y) applied to the uniform image:             *)
(*   - (H~ 1)_v = SUM_b P_bv (P 1)_b / y_b     (all subsets), units 2^-HK                       *)
XDenData(sys, X, m, v) == LET h(b) == IF m.p1[b] > 0 THEN (4096 * m.p1[b]) \div X.yq[b] ELSE 0 IN Back(sys, X, m, h, -1, v)
(* no bin sees the voxel: its sensitivity is zero ("set all voxels to 0 that cannot be estimated") *)
XSensZero(sys, X, m, v) == LET one(b) == 1 IN Back(sys, X, m, one, -1, v) = 0

(* the quadratic prior (Priors.tla): gradient and surrogate curvature; p = <<>> stands for "no prior" *)
PriorGrad(p, x, v) == IF p = << >> THEN 0 ELSE Pr!QGrad(p, x, v)
(* "for the quadratic prior the surrogate curvature is independent of the image: only the       *)
(*  weights and the kappas": beta SUM_dr w_dr kappa_r kappa_{r+dr}                              *)
PriorCurv(p, v) == IF p = << >> THEN 0 ELSE Pr!QApproxTimes(p, Ones(Pr!NVox(p.dims)), v)
MakePrior(dims, w, kap, beta) ==
  LET wr == << 1, 1, 1 >>
      st == Pr!Stencil(wr, w)
  IN [dims |-> dims, wr |-> wr, st |-> st, nb |-> Pr!NbTable(dims, st), kappa |-> kap, beta |-> beta]
(* Gibbs weights: symmetric, no weight at the centre *)
WeightsOk(w) == Len(w) = 27 /\ Pr!SymmetricW(<< 1, 1, 1 >>, w) /\ Pr!CentreFree(<< 1, 1, 1 >>, w) /\ \A i \in 1..27 : w[i] >= 0

(* N * grad_S Phi = N * grad_S L - grad(prior)   (Phi = L - prior; the prior's share of a subset is 1/N), units 1/16 *)
XNGrad(sys, X, m, p, s, v) == X.N * XGradLL(sys, X, m, s, v) - 16 * PriorGrad(p, X.lam, v)
(* D = -(H~ 1) + 2 curvature, units 2^-HK *)
XDen(sys, X, m, p, v) == XDenData(sys, X, m, v) + 2 * 1024 * PriorCurv(p, v)

(* "strictly positive (thresholded)": where the sum above is not positive the implementation    *)
(* substitutes a small positive number whose size the property does not fix; the law is then    *)
(* only decided where the gradient vanishes (the value stays, up to the clamp)                  *)
ThresholdRegime(D) == D <= 0

-----------------------------------------------------------------------------
(* Part 3.  The object.  What an OSSPSReconstruction carries from call to call:                *)
(*   den    NoDen before the first set_up, otherwise the number of times the penalty term has  *)
(*          been added to the stored denominator (the data part itself is a function of the     *)
(*          data only); update_estimate "modifies *precomputed_denominator_ptr. So, you have to *)
(*          call set_up() before running a new reconstruction"                                  *)
(*   start, last, k   the sub-iterations to run and the next one (absolute numbers)             *)
(* variant: "doc" = documented behaviour; the others are defects the model must be able to see: *)
(*   "stale_den"         set_up keeps an existing denominator                                   *)
(*   "relative_index"    relaxation index counted from the start of the run                     *)
(*   "relative_subset"   subset schedule counted from the start of the run                      *)
(*   "no_prior_term"     the penalty term never reaches the denominator                          *)
(*   "refill_on_resume"  voxels without sensitivity are set to 0 at the first sub-iteration of   *)
(*                       EVERY run (also a resumed one) - finding C08-resume-nonidentifiable     *)
(*   "silent_rerun"      reconstruct on a used object without set_up runs instead of reporting  *)
(*                       an error - finding C08-reconstruct-without-setup                       *)
NoDen == -1
FreshObject == [den |-> NoDen, start |-> 0, last |-> 0, k |-> 0, ready |-> FALSE]
(* reconstruct WITHOUT set_up on an object whose run is over ("you have to call set_up() before running a new            *)
(* reconstruction"): an error, the object stays as it is - unless the defective variant lets it run                      *)
ObjRerunWithoutSetUp(o, variant) == IF variant = "silent_rerun" THEN [o EXCEPT !.k = o.start, !.ready = TRUE] ELSE o
RerunReportsError(variant) == variant # "silent_rerun"
ObjSetUp(o, start, last, variant) ==
  [o EXCEPT !.den = IF variant = "stale_den" /\ o.den # NoDen THEN o.den ELSE 0,
            !.start = start, !.last = last, !.k = start, !.ready = TRUE]
CanStep(o) == o.ready /\ o.k <= o.last
(* number of penalty terms in the denominator that sub-iteration o.k divides by *)
PenaltyTermsUsed(c, o, variant) ==
  IF ~c.prior \/ variant = "no_prior_term" THEN 0
  ELSE IF c.dep \/ o.k = o.start THEN o.den + 1 ELSE o.den
ObjStep(c, o, variant) ==
  [o EXCEPT !.den = IF c.prior /\ ~c.dep /\ o.k = o.start /\ variant # "no_prior_term" THEN o.den + 1 ELSE o.den,
            !.k = o.k + 1, !.ready = o.k < o.last]
(* Named deviation from the bare law: "set all voxels to 0 that cannot be estimated" (voxels of zero sensitivity) before the *)
(* first update of a FRESH reconstruction.  It must not be repeated when a reconstruction is resumed from a saved iterate:  *)
(* with a prior the penalty has moved those voxels away from 0, and zeroing them again makes the resumed run differ from   *)
(* the uninterrupted one ("resuming from a saved iterate reproduces the uninterrupted run").                                *)
FillApplies(k, start, variant) == IF variant = "refill_on_resume" THEN k = start ELSE (k = 1 /\ start = 1)
FillNonIdentifiable(img, zeroSens(_)) == [v \in 1..Len(img) |-> IF zeroSens(v) THEN 0 ELSE img[v]]
IndexUsed(c, o, variant) == IF variant = "relative_index" THEN RelaxationIndex(o.k - o.start + 1, c.N) ELSE RelaxationIndex(o.k, c.N)
SubsetUsed(c, o, variant) == IF variant = "relative_subset" THEN SubsetOf(c, o.k - o.start + 1) ELSE SubsetOf(c, o.k)
(* the denominator equals its definition exactly when the penalty term is in it once (with a prior) *)
DenominatorIsDefinition(c, terms) == terms = (IF c.prior THEN 1 ELSE 0)
=============================================================================
