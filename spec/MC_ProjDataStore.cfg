SPECIFICATION Spec
CONSTANTS Level = 1
INVARIANTS InvCoherent InvSize InvT1 InvT2 InvT3 InvRead InvSubset
CHECK_DEADLOCK FALSE
