SPECIFICATION Spec
CONSTANTS MaxLen = 8 NumGens = 3 Defect = "none"
INVARIANTS InvCache InvGet InvLast InvGen InvSetUp InvKey
VIEW View
CHECK_DEADLOCK FALSE
