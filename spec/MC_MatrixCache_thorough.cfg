SPECIFICATION Spec
CONSTANTS MaxLen = 7 NumGens = 3 Defect = "none" Impls = {"RayTracing", "Interpolation", "FromFile"}
INVARIANTS InvCache InvGet InvLast InvGen InvSetUp InvRefused InvKey
VIEW View
CHECK_DEADLOCK FALSE
