SPECIFICATION Spec
CONSTANTS MaxDepth = 2 MaxN = 2 MaxHistView = 0 HistClassIdx = {4, 5} Fault = "zero-inverted"
INVARIANTS InvStep InvAccumulated InvOutput
CHECK_DEADLOCK FALSE
