-------------------------------- MODULE Rebin --------------------------------
(***************************************************************************)
(* C15, part 1 - axial / azimuthal / TOF rebinning (stir::SSRB) over       *)
(* Geometry.tla.                                                           *)
(*                                                                         *)
(* Written from the documentation in SSRB.h / SSRB.cxx:                    *)
(*  "num_segments_to_combine how many segments will be combined into 1     *)
(*   output segment", "num_views_to_combine how many views will be         *)
(*   combined in the output (i.e. mashing)", "num_tangential_poss_to_trim  *)
(*   ... the range is from -(num_tangential_poss/2) to                     *)
(*   -(num_tangential_poss/2) + num_tangential_poss - 1.  The new          *)
(*   num_tangential_poss is simply set to old_num_tangential_poss -        *)
(*   num_tang_poss_to_trim ... if negative, more (zero) bins will be       *)
(*   added", "max_in_segment_num_to_process rebinned in_proj_data only     *)
(*   upto this segment.  Default value -1 means 'do all segments'",        *)
(*   "num_tof_bins_to_combine can be used to increase TOF mashing";        *)
(*   SSRB "moves data to the axial position ... such that z-resolution on  *)
(*   the axis of the scanner is preserved" (same m), "find number of       *)
(*   axial_poss in out_segment" from the m-range of the input segments,    *)
(*   TOF: "check if in_timing_pos_num is in the range for the out bin".    *)
(*                                                                         *)
(* c : input geometry (Geometry.tla record, odd span, not GE)              *)
(* p : [segComb, viewComb, trim, maxSegArg, tofComb]                       *)
(*                                                                         *)
(* Two independent descriptions of the output are given and proved equal   *)
(* by TLC (MC_Rebin, theorem G1):                                          *)
(*   - the construction documented for SSRB(ProjDataInfo...) : per output  *)
(*     segment the union of the ring-difference ranges of the combined     *)
(*     input segments and the number of axial positions from the m-range;  *)
(*   - the Geometry.tla configuration SSRBGeom(c, p) (span multiplied by   *)
(*     segComb, mashing by viewComb, TOF mashing by tofComb), whose BinOf  *)
(*     is "the bin that the output geometry assigns to a detector pair".   *)
(* The rebinning itself is SSRBMap (bin of the input -> bin of the output) *)
(* and the property is theorem Commute: for every detector pair with TOF   *)
(* index, SSRBMap(BinOf_in(pair)) = BinOf_out(pair) when covered.          *)
(***************************************************************************)
EXTENDS Geometry, FiniteSetsExt

(* ------------------------------ parameters ------------------------------ *)
NumTang(c) == c.maxTang - c.minTang + 1
NumViews(c) == NV(c) \div c.mash
IsTof(c) == c.tofMash > 0
\* "Default value -1 means 'do all segments'"
EffMaxSeg(c, p) == IF p.maxSegArg >= 0 THEN p.maxSegArg ELSE c.maxSeg
\* number of the last complete group of segComb input segments inside -EffMaxSeg..EffMaxSeg
OutMaxSeg(c, p) == (EffMaxSeg(c, p) - (p.segComb \div 2)) \div p.segComb
\* input segments combined into output segment so
InSegs(c, p, so) == (so * p.segComb - (p.segComb \div 2))..(so * p.segComb + (p.segComb \div 2))

\* parameter sets that SSRB must refuse ("needs to be odd", "is too large", "too large number of
\* tangential positions to trim", "needs to be at least 1")
\* (beyond the property's sentences: the parameter contract.  "rebinned in_proj_data only upto this segment":
\* when fewer than segComb \div 2 + 1 segments may be processed there is no complete group of segments, and the
\* source announces "max_in_segment_num_to_process %d is too small. No output segments")
TooFewSegments(c, p) == p.segComb >= 1 /\ p.segComb % 2 = 1 /\ p.maxSegArg <= c.maxSeg /\ EffMaxSeg(c, p) < p.segComb \div 2
SSRBRefuses(c, p) ==
  \/ p.segComb % 2 = 0
  \/ p.maxSegArg > c.maxSeg
  \/ NumTang(c) <= p.trim
  \/ p.tofComb < 1
  \/ TooFewSegments(c, p)
\* legal parameter sets (the quantifier of the property)
SSRBLegal(c, p) ==
  /\ ~c.ge                                   \* "cannot handle standard GE Advance data"
  \* even spans (segment 0 has span + 1 ring differences, the others span): "can only handle in_proj_data_info where all
  \* segments have identical 'num_segments_to_combine'": segments are kept (segComb = 1) or all go into segment 0
  /\ (c.span % 2 = 0 => (p.segComb = 1 \/ OutMaxSeg(c, p) = 0))
  /\ p.segComb >= 1 /\ p.segComb % 2 = 1
  /\ p.maxSegArg >= -1 /\ p.maxSegArg <= c.maxSeg
  /\ EffMaxSeg(c, p) >= p.segComb \div 2      \* at least one output segment
  /\ p.viewComb >= 1 /\ NumViews(c) % p.viewComb = 0
  /\ NumTang(c) - p.trim >= 1
  /\ p.tofComb >= 1
  /\ (IF IsTof(c) THEN /\ c.tofMash * p.tofComb <= c.maxT
                       /\ (c.maxT \div (c.tofMash * p.tofComb)) % 2 = 1   \* "Number of TOF bins should be an odd number"
      ELSE p.tofComb = 1)

(* ----------------- the documented construction of the output ------------ *)
\* m ("axial position" of the LOR midpoint) of a sinogram in QUARTER ring spacings, relative to the
\* centre of the scanner: ring1 + ring2 = SumOf, midpoint = SumOf / 2 rings
MQ(c, s, ax) == 2 * SumOf(c, s, ax) - 2 * (c.R - 1)
\* axial sampling of a segment in quarter ring spacings: "ring_spacing / 2 for axially compressed
\* segments, ring_spacing otherwise"
StepQ(c, s) == IF Compressed(c, s) THEN 2 ELSE 4
OutMinRD(c, p, so) == SegMinRD(c, so * p.segComb - (p.segComb \div 2))
OutMaxRD(c, p, so) == SegMaxRD(c, so * p.segComb + (p.segComb \div 2))
OutStepQ(c, p, so) == IF OutMinRD(c, p, so) # OutMaxRD(c, p, so) THEN 2 ELSE 4
MinOfSet(S) == CHOOSE x \in S : \A y \in S : x <= y
MaxOfSet(S) == CHOOSE x \in S : \A y \in S : y <= x
OutMinMQ(c, p, so) == MinOfSet({ MQ(c, s, 0) : s \in InSegs(c, p, so) })
OutMaxMQ(c, p, so) == MaxOfSet({ MQ(c, s, NumAx(c, s) - 1) : s \in InSegs(c, p, so) })
\* "number_of_ms = (max_m - min_m) / axial_sampling + 1" (must be an integer)
OutNumAx(c, p, so) == (OutMaxMQ(c, p, so) - OutMinMQ(c, p, so)) \div OutStepQ(c, p, so) + 1
OutNumAxIntegral(c, p, so) == (OutMaxMQ(c, p, so) - OutMinMQ(c, p, so)) % OutStepQ(c, p, so) = 0
\* tangential range after set_num_tangential_poss(n)
OutMinTang(c, p) == -((NumTang(c) - p.trim) \div 2)
OutMaxTang(c, p) == OutMinTang(c, p) + (NumTang(c) - p.trim) - 1

(* --------------- the output as a Geometry.tla configuration ------------- *)
SSRBGeom(c, p) ==
  LET oms == OutMaxSeg(c, p) IN
  \* span = number of ring differences of output segment 0 (= span * segComb unless the combined group is
  \* cut off by the maximum ring difference of the input, in which case segment 0 is the only output segment)
  \* (even spans with the segments kept: the even span itself - its segment 0 has span + 1 ring differences)
  [N |-> c.N, R |-> c.R, span |-> IF c.span % 2 = 0 /\ p.segComb = 1 THEN c.span ELSE OutMaxRD(c, p, 0) - OutMinRD(c, p, 0) + 1, ge |-> FALSE,
   maxDelta |-> SegMaxRD(c, oms * p.segComb + (p.segComb \div 2)),
   mash |-> c.mash * p.viewComb,
   tofMash |-> c.tofMash * p.tofComb, maxT |-> c.maxT,
   minTang |-> OutMinTang(c, p), maxTang |-> OutMaxTang(c, p),
   minSeg |-> -oms, maxSeg |-> oms]

\* G1: the documented construction IS that configuration (so that BinOf(SSRBGeom) is "the bin that
\* the output geometry assigns to the pair")
\* the tangential range may exceed the detector-pair range when bins are added (trim < 0)
LegalButTang(o) == LegalConfig([o EXCEPT !.minTang = 0, !.maxTang = 0]) /\ o.minTang <= o.maxTang
G1(c, p) ==
  LET o == SSRBGeom(c, p) IN
  /\ LegalButTang(o)
  /\ \A so \in Segs(o) :
       /\ SegMinRD(o, so) = OutMinRD(c, p, so) /\ SegMaxRD(o, so) = OutMaxRD(c, p, so)
       /\ OutNumAxIntegral(c, p, so)
       /\ NumAx(o, so) = OutNumAx(c, p, so)
       /\ MQ(o, so, 0) = OutMinMQ(c, p, so)
       /\ StepQ(o, so) = OutStepQ(c, p, so)
\* legal parameters whose output is a Michelogram of Geometry.tla (MC_Rebin: every legal parameter set
\* of the families checked)
Representable(c, p) == SSRBLegal(c, p) /\ G1(c, p)

(* ------------------------------ the rebinning --------------------------- *)
\* TOF.  "The bin that the output geometry assigns": a TOF bin of the input is the set of unmashed timing
\* positions that the input geometry maps to it; the rebinning must send it to the TOF bin to which the
\* output geometry maps all of them.  That is well defined only when the coarse TOF bins are unions of
\* fine ones (TofNests): always for odd tofComb and for unmashed input (theorem InvNest of MC_Rebin),
\* not for even tofComb on mashed input, where a fine bin straddles two coarse bins.
UnmashedOf(c, k) == { t \in (-(c.maxT))..c.maxT : TofBin(c, t) = k }
OutTofsOf(c, o, k) == { TofBin(o, t) : t \in UnmashedOf(c, k) }
TofNests(c, o) == ~IsTof(c) \/ \A k \in TofBins(c) : Cardinality(OutTofsOf(c, o, k)) = 1
TofMap(c, o, k) ==
  IF ~IsTof(c) THEN 0
  ELSE LET K == OutTofsOf(c, o, k) IN
       IF Cardinality(K) # 1 THEN 9998                                  \* straddles
       ELSE LET ko == CHOOSE x \in K : TRUE IN IF ko \in TofBins(o) THEN ko ELSE 9999
\* The implementation-shaped rule ("check if in_timing_pos_num is in the range for the out bin"): k in
\* HALF unmashed TOF-bin widths: the centre of bin k of data mashed by M is 2*M*k, its interval
\* [2*M*k - M, 2*M*k + M]; an input bin goes to the output bin whose interval contains its centre.
\* For odd tofComb no centre lies on an edge and the rule is TofMap (theorem InvTofK); for even tofComb a
\* centre can lie exactly on an edge and the rule leaves open which side it goes to (TofCands).
InTofIntervalClosed(o, ko, kq) == kq >= 2 * o.tofMash * ko - o.tofMash /\ kq <= 2 * o.tofMash * ko + o.tofMash
OnTofEdge(o, kq) == \E ko \in TofBins(o) : kq = 2 * o.tofMash * ko - o.tofMash \/ kq = 2 * o.tofMash * ko + o.tofMash
TofCands(c, o, k) == IF ~IsTof(c) THEN {0} ELSE { ko \in TofBins(o) : InTofIntervalClosed(o, ko, 2 * c.tofMash * k) }
\* the centre is strictly inside the interval of a bin of the output
TofCertain(c, o, k) == ~IsTof(c) \/ (TofCands(c, o, k) # {} /\ ~OnTofEdge(o, 2 * c.tofMash * k))

\* output segment whose ring-difference range contains the input segment's
OutSegOf(c, o, s) ==
  LET S == { so \in Segs(o) : SegMinRD(c, s) >= SegMinRD(o, so) /\ SegMaxRD(c, s) <= SegMaxRD(o, so) } IN
  IF S = {} THEN 9999 ELSE CHOOSE so \in S : TRUE
\* output axial position with the same m
OutAxOf(c, o, s, ax, so) ==
  LET A == { a \in 0..(NumAx(o, so) - 1) : MQ(o, so, a) = MQ(c, s, ax) } IN
  IF A = {} THEN 9999 ELSE CHOOSE a \in A : TRUE

\* the part of the rebinning that does not involve TOF (tof component 0)
SSRBMapS(c, o, p, b) ==
  LET so == OutSegOf(c, o, b.seg) IN
  IF so = 9999 THEN NoBin
  ELSE LET ao == OutAxOf(c, o, b.seg, b.ax, so) IN
       IF ao = 9999 \/ b.tang < o.minTang \/ b.tang > o.maxTang THEN NoBin
       ELSE Bin(so, ao, b.view \div p.viewComb, b.tang, 0)
SSRBMap(c, o, p, b) ==
  LET bs == SSRBMapS(c, o, p, b)
      ko == TofMap(c, o, b.tof) IN
  IF bs = NoBin \/ ko >= 9998 THEN NoBin ELSE [bs EXCEPT !.tof = ko]

\* number of input sinograms (ignoring TOF) that are added into an output sinogram, and the
\* divisor of the normalised variant ("normalise the output sinograms corresponding to how many input
\* sinograms contribute to them"; views: viewComb input views per output view)
NumInSinos(c, o, p, so, ao) ==
  Cardinality({ sa \in { x \in InSegs(c, p, so) \X (0..(2 * c.R)) : x[2] < NumAx(c, x[1]) } :
                  MQ(c, sa[1], sa[2]) = MQ(o, so, ao) })
NormDivisor(c, o, p, so, ao) == NumInSinos(c, o, p, so, ao) * p.viewComb

(* ------------------------ coverage of a detector pair ------------------- *)
\* pairs with EVERY unmashed timing position the scanner can deliver (also those outside the data)
AllPairsT(c) == { q \in (0..(c.N - 1)) \X Rings(c) \X (0..(c.N - 1)) \X Rings(c) \X
                         (IF IsTof(c) THEN (-(c.maxT))..c.maxT ELSE {0}) : q[1] # q[3] }
Covered(c, b) == b # NoBin /\ InTangRange(c, b) /\ b.tof \in TofBins(c)
\* nothing of the input is left out of the output
NothingTrimmed(c, p) ==
  /\ p.trim <= 0
  /\ OutMaxSeg(c, p) * p.segComb + (p.segComb \div 2) = c.maxSeg
  /\ (IsTof(c) => NumTof(SSRBGeom(c, p)) * p.tofComb = NumTof(c))


(***************************************************************************)
(* BEYOND THE PROPERTY'S SENTENCES: the other index maps of rebinning /     *)
(* resampling over Geometry.tla (DESIGN.md section 8).                      *)
(***************************************************************************)
(* ------------------------------ inverse_SSRB ---------------------------- *)
\* "inverse_SSRB will produce oblique sinograms by finding the sinogram that has the same 'm'-coordinate ...
\* if the output sinogram would lie 'half-way' 2 input sinograms, it will be set to the average of the 2 input
\* sinograms.  Note that any oblique segments in proj_data_3D are currently ignored."
\* c4: geometry of the output, c3: of the input (segment 0 used).  Weight, in HALVES, of input sinogram a of
\* segment 0 in output sinogram (s, ax):
InvW2(c4, c3, s, ax, a) ==
  LET d == Abs(MQ(c4, s, ax) - MQ(c3, 0, a)) IN
  IF d = 0 THEN 2 ELSE IF 2 * d = StepQ(c3, 0) THEN 1 ELSE 0
\* "Input and output projection data should have the same number of views and tangential positions" (and TOF bins)
InvCompatible(c4, c3) ==
  /\ c4.N = c3.N /\ c4.R = c3.R /\ c4.mash = c3.mash /\ c4.minTang = c3.minTang /\ c4.maxTang = c3.maxTang
  /\ c4.tofMash = c3.tofMash /\ c4.maxT = c3.maxT
\* every output sinogram has the same m as an input sinogram or lies half-way two of them
InvUnity(c4, c3) == \A s \in Segs(c4) : \A ax \in 0..(NumAx(c4, s) - 1) :
   FoldSet(LAMBDA a, acc : acc + InvW2(c4, c3, s, ax, a), 0, 0..(NumAx(c3, 0) - 1)) = 2
\* the parameter set that rebins everything into segment 0
AllIntoOne(c) == [segComb |-> 2 * c.maxSeg + 1, viewComb |-> 1, trim |-> 0, maxSegArg |-> -1, tofComb |-> 1]
\* InvAdjoint: on the geometry SSRB itself constructs, inverse_SSRB is the transpose of SSRB: output sinogram (s, ax)
\* takes (with weight 1) exactly the input sinogram into which SSRB adds it, i.e. <SSRB x, y> = <x, inverse_SSRB y>
InvAdjoint(c) ==
  LET pp == AllIntoOne(c)  o == SSRBGeom(c, pp) IN
  \A s \in Segs(c) : \A ax \in 0..(NumAx(c, s) - 1) : \A a \in 0..(NumAx(o, 0) - 1) :
     InvW2(c, o, s, ax, a) = (IF OutAxOf(c, o, s, ax, 0) = a THEN 2 ELSE 0)

(* --------------------- extend_segment (direct data) --------------------- *)
\* "Axially and tangentially, the segment is filled with the nearest existing value.  In view direction, the
\* function wraps around for ProjData that cover 180 or 360 degrees"; "if views cover 180 degrees, the tangential
\* positions need to be flipped"; "If the sinogram is not symmetric in tangential position, the values are
\* extrapolated by nearest neighbour known values."
\* d = [minAx, maxAx, nv (views 0..nv-1), minT, maxT]; source index of element (a, v, t) of the extended array
Clamp(x, lo, hi) == IF x < lo THEN lo ELSE IF x > hi THEN hi ELSE x
\* (tangentially the nearest existing position of that - possibly wrapped - row; a wrapped row holds the mirror
\* image of its source row, nearest known value where the mirror position is outside the data)
ExtWraps(d, v) == IF v < 0 THEN -((-v + d.nv - 1) \div d.nv) ELSE v \div d.nv     \* number of half turns
ExtSource(d, a, v, t) ==
  LET wraps == ExtWraps(d, v)
      vv == v - wraps * d.nv
      t0 == Clamp(t, d.minT, d.maxT)
      tt == IF wraps % 2 = 0 THEN t0 ELSE Clamp(-t0, d.minT, d.maxT)             \* LOR (phi + pi, s) = (phi, -s)
  IN << Clamp(a, d.minAx, d.maxAx), vv, tt >>
\* the mirror image of the (nearest existing) tangential position exists
ExtHasMirror(d, t) == LET t0 == Clamp(t, d.minT, d.maxT) IN -t0 >= d.minT /\ -t0 <= d.maxT

(* ------------- interpolate_projdata: index correspondence (direct sinograms) ------------- *)
\* "out_index * step + offset = in_index" along (axial position, view, tangential position) for data of the same scanner:
\* axially by m (quarter ring spacings), in views by phi in units of pi / N (half an unmashed view step; mashing by
\* k shifts the first view by (k - 1) units), tangentially the same positions.  The input is the extended segment
\* (extend_segment(segment, 5, 5, 5)); with linear B-splines the value is the (tri)linear interpolation.
PhiU(c, v) == 2 * c.mash * v + (c.mash - 1)
\* position of output sinogram (a, v) in input index units, as << numerator, denominator >>
InterpPosAx(ci, co, a) == << MQ(co, 0, a) - MQ(ci, 0, 0), StepQ(ci, 0) >>
InterpPosView(ci, co, v) == << PhiU(co, v) - PhiU(ci, 0), 2 * ci.mash >>
FloorDiv(x) == x[1] \div x[2]
FracNum(x) == x[1] % x[2]
\* value * (axial denominator * view denominator) of output element (a, v, t); E(a, v, t) = element of the extended input
LinInterp2(E(_, _, _), ci, co, a, v, t) ==
  LET xa == InterpPosAx(ci, co, a)  xv == InterpPosView(ci, co, v)
      ia == FloorDiv(xa)  fa == FracNum(xa)  iv == FloorDiv(xv)  fv == FracNum(xv) IN
    (xa[2] - fa) * ((xv[2] - fv) * E(ia, iv, t) + fv * E(ia, iv + 1, t))
  + fa * ((xv[2] - fv) * E(ia + 1, iv, t) + fv * E(ia + 1, iv + 1, t))

(* ------------- ScatterSimulation::downsample_scanner (integer maps) ------ *)
\* "downsampled scanner number of rings / of detectors per ring": span 1, all ring differences of the new scanner
\* (none if the template has a single segment), views = detectors / 2, number of tangential positions
\* ceil(num_tangential_poss * new_detectors / old_detectors) + 1 (as set_num_tangential_poss centres them)
CeilDiv(a, b) == (a + b - 1) \div b
DownsampleGeom(c, newR, newN) ==
  LET nt == CeilDiv(NumTang(c) * newN, c.N) + 1
      md == IF c.maxSeg = c.minSeg THEN 0 ELSE newR - 1 IN
  [N |-> newN, R |-> newR, span |-> 1, ge |-> FALSE, maxDelta |-> md, mash |-> 1, tofMash |-> 0, maxT |-> 0,
   minTang |-> -(nt \div 2), maxTang |-> -(nt \div 2) + nt - 1, minSeg |-> -md, maxSeg |-> md]

\* bins of a geometry whose tangential range may exceed the detector-pair range
AllBinsWide(o) == { b \in [seg : Segs(o), ax : 0..(2 * o.R), view : Views(o), tang : o.minTang..o.maxTang, tof : TofBins(o)] :
                      b.ax < NumAx(o, b.seg) }

(* ------------------- theorems checked by TLC (MC_Rebin) ------------------ *)
\* G2: every input sinogram of a combined segment has an output sinogram with the same m
G2(c, p) ==
  LET o == SSRBGeom(c, p) IN
  \A so \in Segs(o) : \A s \in InSegs(c, p, so) : \A ax \in 0..(NumAx(c, s) - 1) :
     /\ OutSegOf(c, o, s) = so
     /\ OutAxOf(c, o, s, ax, so) # 9999
\* Commute: "puts the counts of every detector pair into the bin that the output geometry assigns to
\* that pair" - bi / bo are the bins of the pair in the input / output geometry (tables binI, binO)
CommuteAt(c, o, p, bi, bo) ==
  Covered(c, bi) => SSRBMap(c, o, p, bi) = (IF Covered(o, bo) THEN bo ELSE NoBin)
\* the output covers nothing that the input does not (unless bins are added), "so histogramming at
\* the coarse sampling equals histogramming finely and then rebinning"
SubsetAt(c, o, p, bi, bo) == (p.trim >= 0 /\ Covered(o, bo)) => Covered(c, bi)
\* "total counts are conserved when no range is trimmed"
ConserveAt(c, o, p, bi, bo) == (NothingTrimmed(c, p) /\ Covered(c, bi)) => Covered(o, bo)
\* the interval rule is the rebinning wherever it is unambiguous
TofKAgrees(c, o) == \A k \in TofBins(c) : TofCertain(c, o, k) => (TofNests(c, o) => TofCands(c, o, k) = {TofMap(c, o, k)})
=============================================================================
