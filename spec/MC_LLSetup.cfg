SPECIFICATION Spec
CONSTANTS MaxLen = 6 Variant = "doc"
INVARIANTS Inv Belief Protocol
CHECK_DEADLOCK FALSE
