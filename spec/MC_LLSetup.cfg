SPECIFICATION Spec
CONSTANTS MaxLen = 5 Variant = "doc"
INVARIANTS Inv Belief
CHECK_DEADLOCK FALSE
