SPECIFICATION Spec
CONSTANTS Variant = "relative_subset" MaxLives = 1 Rich = FALSE
INVARIANTS InvBounds InvDenominator InvSchedule InvResume InvAscentDirection InvFixedPoint InvObject
CHECK_DEADLOCK FALSE
