--------------------------- MODULE Trace_ArrayND ---------------------------
(* Trace validation for C11 (Array<D,float>, D = 2..4): every line recorded  *)
(* from the real arrays must be a step of ArrayND.                           *)
(*   Config  D, K;  Init / Pre: observation;  Step: op, res, err, abort,     *)
(*   observation afterwards (abort = the call ended in a sanitizer report in *)
(*   the child process that tried it first; the objects are unchanged).      *)
(* Unexplained lines are collected in `bad' with their class: the signature  *)
(* of a known finding or "new".                                              *)
EXTENDS ArrayND, TraceLib
VARIABLES l, cur, bad

None == [none |-> TRUE]
DimOf(ty) == CASE ty = "N2" -> 2 [] ty = "N3" -> 3 [] ty = "N4" -> 4 [] OTHER -> 0

NInitOK(r) ==
  /\ NObsMatch(EmptyNode, r.post.s[1], FALSE) /\ NObsMatch(EmptyNode, r.post.s[2], FALSE)
  /\ r.post.blk = [c \in 1..r.K |-> 100 + c] /\ r.post.eq

Explains(r) ==
  CASE r.e = "Config" -> DimOf(r.ty) > 0
    [] r.e = "Init" -> NInitOK(r)
    [] r.e = "Pre" -> NStateOK(r.post)
    [] r.e = "Step" -> /\ cur # None /\ DimOf(r.ty) > 0 /\ r.op.k \in NKinds
                       /\ ~r.abort
                       /\ NStepOK(DimOf(r.ty), cur, r.op, r.res, r.err, r.post)
    [] OTHER -> FALSE

FullIterKinds == {"NIterAll", "NIotaAll", "NSapyb", "NXapyb", "NXapybM", "NXapybSM", "NSapybM", "NCopyTo", "NFillFrom"}
Classify(r) ==
  IF r.e # "Step" \/ cur = None \/ r.op.k \notin NKinds THEN "new"
  ELSE LET st == NStateOfObs(cur)
           X == st.s[r.op.t]
       IN
       \* C11-fulliter-emptyrow: full iteration (begin_all..end_all, also inside xapyb/sapyb) over an array with a
       \* sub-array without elements runs out of bounds
       IF r.abort /\ r.op.k \in FullIterKinds /\ HasEmptyRow(X) THEN "C11-fulliter-emptyrow"
       \* C11-contig-empty: is_contiguous() of an array without elements / with such a sub-array binds a reference to null
       ELSE IF r.abort /\ r.op.k = "NContig" /\ (SizeAll(X) = 0 \/ HasEmptyRow(X)) THEN "C11-contig-empty"
       \* C11-fullptr-empty: get_full_data_ptr() / get_const_full_data_ptr() of an array without elements (reached by read_data
       \* recursing into an empty sub-array, or directly) bind a reference to null
       ELSE IF r.abort /\ r.op.k \in {"NReadData", "NFullPtr", "NFullPtrW"} /\ (SizeAll(X) = 0 \/ HasEmptyRow(X)) THEN "C11-fullptr-empty"
       \* C11-regrow-stale: sub-arrays re-exposed by resize / grow / growing arithmetic keep earlier contents
       ELSE IF ~r.abort /\ ~r.err /\ r.op.k \in ({"NResize", "NGrow", "NVOpM"} \cup NVecOps) /\ NEnabled(DimOf(r.ty), st, r.op)
               /\ StaleOnly(X, NApply(DimOf(r.ty), st, r.op).st.s[r.op.t], r.post.s[r.op.t].t) THEN "C11-regrow-stale"
       ELSE "new"

Init == l = 1 /\ cur = None /\ bad = << >>
Next == /\ l <= Len(TraceLog)
        /\ LET r == TraceLog[l] IN
           /\ cur' = IF r.e \in {"Init", "Pre", "Step"} THEN r.post ELSE IF r.e = "Config" THEN None ELSE cur
           /\ bad' = IF Explains(r) THEN bad
                     ELSE IF Len(bad) < 200 THEN Append(bad, << l, Classify(r) >>) ELSE bad
        /\ l' = l + 1
Spec == Init /\ [][Next]_<< l, cur, bad >>

Done == l > Len(TraceLog) => (bad = << >> \/ PrintT(<< "UNEXPLAINED", bad >>))
Consumed == IF TLCGet("stats").diameter - 1 = Len(TraceLog) THEN TRUE
            ELSE PrintT(<< "REJECTED_AT", TLCGet("stats").diameter >>) /\ FALSE
=============================================================================
