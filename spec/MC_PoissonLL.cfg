SPECIFICATION Spec
CONSTANTS MaxLam = 2 NumPatterns = 2 MaxSubsets = 2 FullX = FALSE
INVARIANTS Inv1 Inv2 Inv3 Inv4 Inv5 Inv6
CHECK_DEADLOCK FALSE
