SPECIFICATION Spec
CONSTANTS MaxDepth = 3 Sel = "full" WNeg = 2 WHi = 2 K = 3 Full2 = FALSE
INVARIANTS Inv_StateOK Inv_Clauses Inv_Total
CHECK_DEADLOCK FALSE
