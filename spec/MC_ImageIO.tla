---------------------------- MODULE MC_ImageIO ----------------------------
(* Exhaustive check that the write / read maps of ImageIO.tla satisfy the   *)
(* property on a family of small images: one initial state per image (the   *)
(* geometry, value and exam-information aspects are varied one at a time,   *)
(* the maps being products), actions Write(type, scale), Truncate(length)   *)
(* for EVERY length below the announced one, Read.                          *)
EXTENDS ImageIO
CONSTANTS MaxAmp,      \* largest voxel value in the value family
          Deep         \* TRUE: larger families (thorough tier)
VARIABLES img, ty, user, file, res, phase, truncated

vars == << img, ty, user, file, res, phase, truncated >>

Env == [defPT |-> [rn |-> "^18^Fluorine", hlms |-> 6584040, brppm |-> 968600],
        defNM |-> [rn |-> "^99m^Technetium", hlms |-> 21624120, brppm |-> 885000],
        defOther |-> [rn |-> "Unknown", hlms |-> -1000, brppm |-> -1000000],
        db |-> << [mod |-> "PT", rn |-> "^11^Carbon", hlms |-> 1221660, brppm |-> 997500] >>]

Sizes == { << 1, 1, 1 >>, << 1, 2, 3 >>, << 2, 3, 1 >>, << 3, 1, 2 >>, << 2, 2, 2 >> } \cup (IF Deep THEN { << 3, 4, 5 >>, << 1, 5, 4 >> } ELSE { })
Mins == { << 0, 0, 0 >>, << -2, 1, -3 >>, << 1, -1, -1 >> } \cup (IF Deep THEN { << -7, -8, 5 >>, << 3, 0, -2 >> } ELSE { })
Orgs == { << 0, 0, 0 >>, << -5, 12, 7 >> } \cup (IF Deep THEN { << 1000, -333, 1 >> } ELSE { })
Voxs == { << 8, 8, 8 >>, << 20, 10, 17 >> } \cup (IF Deep THEN { << 1, 33, 4 >> } ELSE { })
Geos == { [min |-> mn, size |-> sz, org |-> og, vox |-> vx] : mn \in Mins, sz \in Sizes, og \in Orgs, vx \in Voxs }
Geo0 == [min |-> << -1, 0, -2 >>, size |-> << 1, 2, 3 >>, org |-> << 3, -4, 5 >>, vox |-> << 8, 10, 12 >>]

\* value distributions: all-zero, mixed signs, non-positive, non-negative, one-hot, negative constant, alternating extremes
Pats == 1..7
Vals(n, pat, A) == [i \in 1..n |->
  CASE pat = 1 -> 0
    [] pat = 2 -> ((i * 7) % (2 * A + 1)) - A
    [] pat = 3 -> -(i % (A + 1))
    [] pat = 4 -> i % (A + 1)
    [] pat = 5 -> IF i = 1 THEN A ELSE 0
    [] pat = 6 -> -A
    [] pat = 7 -> IF i % 2 = 0 THEN A ELSE -A]
Amps == { 1, 5, MaxAmp }

Exam0 == [mod |-> "PT", orient |-> 0, rot |-> 0, frames |-> << << 1000, 2000 >> >>, rn |-> "^11^Carbon", hlms |-> 1221660, brppm |-> 997500,
          lo8 |-> 2800, hi8 |-> 5200, cal4 |-> 10, startD |-> 0, startS |-> 0, startMs |-> 0]
Exams == { [mod |-> m, orient |-> o, rot |-> o + 2, frames |-> f, rn |-> n[1], hlms |-> n[2], brppm |-> n[3], lo8 |-> w[1], hi8 |-> w[2], cal4 |-> c,
               startD |-> st[1], startS |-> st[2], startMs |-> st[3]] :
             st \in { << 0, 0, 0 >>, << 14785, 54034, 0 >>, << 0, 86399, 250 >> },
             m \in { "PT", "NM", "Unknown", "MR" }, o \in { 0, 3 }, f \in { << >>, << << 125, 250 >> >>, << << 0, 1000 >>, << 1500, 125 >> >> },
             n \in { << "Unknown", -1000, -1000000 >>, << "Xx-99", 1234500, 750000 >>, << "^11^Carbon", 4321500, 500000 >> },
             w \in { << -8, -8 >>, << 0, 5200 >>, << -8, 5200 >>, << 2800, 5200 >> }, c \in { -4, 0, 10 } }

ImgOf(g, nd, pat, A, ex) == [geo |-> g, nd |-> nd, vals |-> [d \in 1..nd |-> Vals(NumVox(g), ((pat + d - 2) % 7) + 1, A)], exam |-> ex]
Images == { ImgOf(g, 1, 2, 5, Exam0) : g \in Geos }                                                   \* geometry aspect
     \cup { ImgOf(Geo0, nd, pat, A, Exam0) : nd \in 1..2, pat \in Pats, A \in Amps }                  \* value aspect
     \cup { ImgOf(Geo0, 1, 4, 5, ex) : ex \in Exams }                                                 \* exam aspect

\* small stand-ins for the integer types (magnitude bits) + a floating-point type
MTypes == { [int |-> TRUE, signed |-> TRUE, bits |-> 3, bytes |-> 1], [int |-> TRUE, signed |-> FALSE, bits |-> 3, bytes |-> 1],
            [int |-> TRUE, signed |-> TRUE, bits |-> 7, bytes |-> 1], [int |-> TRUE, signed |-> FALSE, bits |-> 8, bytes |-> 1],
            [int |-> TRUE, signed |-> FALSE, bits |-> 1, bytes |-> 2], [int |-> FALSE, signed |-> TRUE, bits |-> 24, bytes |-> 4] }
          \cup (IF Deep THEN { [int |-> TRUE, signed |-> TRUE, bits |-> 5, bytes |-> 2], [int |-> TRUE, signed |-> FALSE, bits |-> 6, bytes |-> 4],
                               [int |-> FALSE, signed |-> TRUE, bits |-> 53, bytes |-> 8] } ELSE { })
\* (all rational arithmetic stays below 2^31 for bits <= 8 and MaxAmp <= 800: TLC reports an overflow as an error)
Users == { << 0, 1 >>, << 1, 1 >>, << 2, 1 >>, << 1, 2 >>, << 8, 1 >> } \cup (IF Deep THEN { << 1, 4 >>, << 3, 1 >>, << 16, 1 >>, << 5, 3 >> } ELSE { })

Init == /\ img \in Images /\ ty = [int |-> FALSE, signed |-> TRUE, bits |-> 24, bytes |-> 4] /\ user = << 0, 1 >>
        /\ file = NoFile /\ res = [ok |-> FALSE] /\ phase = "fresh" /\ truncated = FALSE

Write == /\ phase = "fresh"
         /\ \E t \in MTypes, u \in Users :
              /\ ty' = t /\ user' = u /\ file' = WriteFile(img, t, u, Env)
         /\ phase' = "written" /\ UNCHANGED << img, res, truncated >>
\* fault: the data file is cut at ANY length below the announced one
TruncateAct == /\ phase = "written" /\ file.dlen = file.announced
               /\ \E len \in 0..(file.announced - 1) : file' = Truncate(file, len)
               /\ truncated' = TRUE /\ UNCHANGED << img, ty, user, res, phase >>
Read == /\ phase = "written"
        /\ res' = ReadFile(file, Env) /\ phase' = "done" /\ UNCHANGED << img, ty, user, file, truncated >>
Next == Write \/ TruncateAct \/ Read
Spec == Init /\ [][Next]_vars

\* the property
InvRoundTrip == (phase = "done" /\ ~truncated) => ModelRoundTripOK(img, ty, file, res, Env)
InvTruncated == (phase = "done" /\ truncated) => res = ReadError
\* the file announces what it contains; data sets are laid out back to back
InvFile == phase = "written" /\ ~truncated =>
             /\ file.announced = img.nd * NumVox(img.geo) * ty.bytes
             /\ \A d \in 1..img.nd : file.off[d] = (d - 1) * NumVox(img.geo) * ty.bytes
\* the user's scale is honoured when it suffices, and the scale actually used never overflows
InvScale == phase = "written" /\ ty.int =>
             \A d \in 1..img.nd :
               /\ (user[1] # 0 /\ RatLe(NeededScale(img.vals[d], ty.bits, ty.signed), user) => file.scale[d] = user)
               /\ RatLe(NeededScale(img.vals[d], ty.bits, ty.signed), file.scale[d])
=============================================================================
