SPECIFICATION FairSpec
CONSTANTS NT = 2 NI = 3 NK = 2 NC = 2 Bug = "none"
PROPERTY Termination
CHECK_DEADLOCK TRUE
