SPECIFICATION Spec
CONSTANTS Ns = {16} Rs = {3} Spans = {2, 4} MaxT = 2 Nppr = {2}
INVARIANTS Inv1 Inv2 Inv3 Inv4 Inv5 Inv6 Inv7
CHECK_DEADLOCK FALSE
