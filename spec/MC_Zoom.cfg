SPECIFICATION Spec
CONSTANTS
  MaxIn = 3
  MaxVal = 1
  MaxOut = 5
  OffR = 5
  Z3Idx = {2, 5}
INVARIANTS InvWhole InvMiddle InvSum InvCom InvComTight InvUniform InvShift InvRelabel InvSeparable InvSum3
CHECK_DEADLOCK FALSE
