SPECIFICATION Spec
CONSTANTS
  MaxIn = 3
  MaxVal = 2
  MaxOut = 5
  OffR = 5
  Z3Idx = {2, 5, 6}
INVARIANTS InvWhole InvMiddle InvSum InvCom InvUniform InvShift InvRelabel InvSeparable InvSum3
CHECK_DEADLOCK FALSE
