SPECIFICATION Spec
CONSTANTS
  MaxIn = 3
  MaxVal = 1
  MaxOut = 4
  OffR = 4
  Z3Idx = {2, 5}
INVARIANTS InvWhole InvMiddle InvSum InvCom InvComTight InvUniform InvShift InvRelabel InvSeparable InvSum3
CHECK_DEADLOCK FALSE
