----------------------------- MODULE MC_Subsets -----------------------------
(* Model check of Subsets.tla itself: for EVERY legal configuration (views, segment range,   *)
(* symmetry class) up to MaxViews and every number of subsets 1..views(+1) the theorems      *)
(* T1-T2 (per configuration, n = 0) and the partition / balance theorems T3-T5 (n >= 1)      *)
(* are evaluated.  Every (configuration, n) is an initial state; the single step Eval        *)
(* computes the verdicts into `res' (so that TLC's workers share the work); the invariants    *)
(* read `res'.                                                                                *)
EXTENDS Subsets
CONSTANTS MaxViews, MaxSeg
VARIABLES c, n, res

Configs == { x \in [views : 1 .. MaxViews, minSeg : -MaxSeg .. 0, maxSeg : 0 .. MaxSeg, s90 : BOOLEAN, s180 : BOOLEAN, sseg : BOOLEAN,
                    minTof : {0}, maxTof : {0}] : Legal(x) /\ (x.s90 => x.s180) }
\* why Legal demands a symmetric segment range for the swap-segment symmetry: the same configurations with a
\* range that is not symmetric (what reduce_segment_range(-2, 1) followed by a projector with that symmetry gives)
AsymSwap == { x \in [views : 1 .. MaxViews, minSeg : -MaxSeg .. 0, maxSeg : 0 .. MaxSeg, s90 : {FALSE}, s180 : {FALSE}, sseg : {TRUE},
                     minTof : {0}, maxTof : {0}] : x.minSeg # -x.maxSeg }

EvalCfg(x) == [kind |-> "cfg", t1 |-> T1(x), t2 |-> T2(x)]
EvalN(x, N) ==
  LET P == ProcessedTable(x, N)
      sz == [s \in 0 .. N - 1 |-> Cardinality(P[s])]
      ic == [s \in 0 .. N - 1 |-> ImplCount(x, s, N)] IN
  [kind |-> "n",
   part |-> IsPartition(P, N, AllVS(x)),          \* T3
   sizesAgree |-> sz = ic,                          \* T4: the implementation's count is the number of viewgrams processed
   bal |-> EqualSizes(sz, N),
   basicsSplit |-> UNION { SubsetVS(x, s, N) : s \in 0 .. N - 1 } = { vs \in AllVS(x) : IsBasic(x, vs) }]

Init == /\ c \in Configs \cup AsymSwap /\ n \in 0 .. MaxViews + 1 /\ n <= c.views + 1 /\ res = [kind |-> "todo"]
Eval == /\ res.kind = "todo"
        /\ res' = IF n = 0 THEN EvalCfg(c) ELSE EvalN(c, n)
        /\ UNCHANGED << c, n >>
Next == Eval
Spec == Init /\ [][Next]_<< c, n, res >>

InvT1 == (res.kind = "cfg" /\ c \in Configs) => res.t1
InvT2 == (res.kind = "cfg" /\ c \in Configs) => res.t2
\* "the groups processed for the different subsets are disjoint and together contain every (segment, view) exactly once"
InvPartition == (res.kind = "n" /\ c \in Configs) => res.part /\ res.basicsSplit
\* ... and a range that is not closed under the symmetries used is never partitioned (finding C06-asymseg at model level)
InvAsymSwapNeverPartition == (res.kind = "n" /\ c \in AsymSwap) => ~res.part
InvCount == (res.kind = "n" /\ c \in Configs) => res.sizesAgree
\* T5 (sanity of Balanced): without view symmetries the subsets are balanced exactly when num_subsets divides num_views
InvBalancedNoViewSym == (res.kind = "n" /\ ~c.s180) => (res.bal <=> c.views % n = 0)
\* with N = 1 always balanced; with more subsets than views never
InvBalancedEdges == (res.kind = "n" /\ c \in Configs) => ((n = 1 => res.bal) /\ (n > c.views => ~res.bal))
=============================================================================
