SPECIFICATION Spec
CONSTANTS NT = 2 NI = 3 NK = 2 NC = 3 Bug = "none"
INVARIANTS InvMutex InvUse InvFilledOnce InvFlagLast InvRules InvCache InvOneInsert InvNothingLost InvIO InvItems InvResult InvThisCallOnly InvLocksFree InvWhole InvGuard
CHECK_DEADLOCK TRUE
