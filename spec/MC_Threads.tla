----------------------------- MODULE MC_Threads -----------------------------
(* Exhaustive check of the process model Threads.tla for small constants:    *)
(* every interleaving of NT threads over NI work items and NK cache keys.    *)
(* MC_Threads.cfg / _thorough.cfg: safety (all invariants, deadlock check    *)
(* on); MC_Threads_live*.cfg: termination under weak fairness (FairSpec, no  *)
(* state constraint); MC_Threads_bug_*.cfg: one protection removed - each    *)
(* MUST violate an invariant.                                                *)
EXTENDS Threads
=============================================================================
