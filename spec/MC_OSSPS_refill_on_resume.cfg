SPECIFICATION Spec
CONSTANTS Variant = "refill_on_resume" MaxLives = 1 Rich = FALSE
INVARIANTS InvBounds InvDenominator InvSchedule InvResume InvAscentDirection InvFixedPoint InvObject
CHECK_DEADLOCK FALSE
