SPECIFICATION Spec
CONSTANTS Ns = {4, 32} Rs = {1, 2} Spans = {1, 3} MaxT = 3 Nppr = {2}
INVARIANTS Inv1 Inv2 Inv3 Inv4 Inv5 Inv6 Inv7
CHECK_DEADLOCK FALSE
