SPECIFICATION Spec
CONSTANTS Ns = {4, 32} MaxR = 2 MaxT = 3 Nppr = {2}
INVARIANTS Inv1 Inv2 Inv3 Inv4 Inv5
CHECK_DEADLOCK FALSE
