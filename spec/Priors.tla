------------------------------- MODULE Priors -------------------------------
(***************************************************************************)
(* C09 -- priors: value, gradient and Hessian are mutually consistent and  *)
(* convex.                                                                 *)
(*                                                                         *)
(* Images live on a grid dims = <<nz, ny, nx>>; voxels are numbered        *)
(* 1..nz*ny*nx, x fastest (the order of STIR's full iterators).  A Gibbs   *)
(* prior is given by neighbourhood weights w on a stencil of radii         *)
(* wr = <<rz, ry, rx>>, an optional kappa image and a penalisation factor  *)
(* beta.  "Voxels at the image border interact only with neighbours inside *)
(* the image" is the clipping in Nb.                                       *)
(*                                                                         *)
(* Part 1: quadratic prior, exact integer arithmetic (documented formulas  *)
(*         of QuadraticPrior.h; the Hessian is the Jacobian of the         *)
(*         documented gradient).                                           *)
(* Part 2: relative difference prior (epsilon > 0), derivatives of the     *)
(*         potential by the quotient rule, evaluated in fixed point.       *)
(* Part 3: relations between observations (all priors): tolerances and     *)
(*         predicates used by Trace_Priors.                                *)
(***************************************************************************)
EXTENDS Integers, Sequences, FiniteSets, FiniteSetsExt, TLC

Abs(a) == IF a < 0 THEN -a ELSE a
Max2(a, b) == IF a >= b THEN a ELSE b
Min2(a, b) == IF a <= b THEN a ELSE b
SumS(S, F(_)) == FoldSet(LAMBDA e, acc : acc + F(e), 0, S)

(***************************************************************************)
(* Geometry                                                                *)
(***************************************************************************)
NVox(d) == d[1] * d[2] * d[3]
Vox(d) == 1..NVox(d)
CZ(d, i) == (i - 1) \div (d[2] * d[3])
CY(d, i) == ((i - 1) \div d[3]) % d[2]
CX(d, i) == (i - 1) % d[3]
Idx(d, z, y, x) == (z * d[2] + y) * d[3] + x + 1
InGrid(d, z, y, x) == z >= 0 /\ z < d[1] /\ y >= 0 /\ y < d[2] /\ x >= 0 /\ x < d[3]

WLen(wr) == (2 * wr[1] + 1) * (2 * wr[2] + 1) * (2 * wr[3] + 1)
WIdx(wr, dz, dy, dx) == ((dz + wr[1]) * (2 * wr[2] + 1) + (dy + wr[2])) * (2 * wr[3] + 1) + (dx + wr[3]) + 1
Offsets(wr) == { <<dz, dy, dx>> : dz \in -wr[1]..wr[1], dy \in -wr[2]..wr[2], dx \in -wr[3]..wr[3] }
\* the stencil: offsets with a non-zero weight, <<dz, dy, dx, weight>>
Stencil(wr, w) == { <<o[1], o[2], o[3], w[WIdx(wr, o[1], o[2], o[3])]>> : o \in { q \in Offsets(wr) : w[WIdx(wr, q[1], q[2], q[3])] # 0 } }
\* Gibbs weights are symmetric, w(dr) = w(-dr), and the centre carries no weight
SymmetricW(wr, w) == \A o \in Offsets(wr) : w[WIdx(wr, o[1], o[2], o[3])] = w[WIdx(wr, -o[1], -o[2], -o[3])]
CentreFree(wr, w) == w[WIdx(wr, 0, 0, 0)] = 0
\* voxel j lies within the stencil radii of voxel i
Near(d, wr, i, j) == /\ Abs(CZ(d, i) - CZ(d, j)) <= wr[1]
                     /\ Abs(CY(d, i) - CY(d, j)) <= wr[2]
                     /\ Abs(CX(d, i) - CX(d, j)) <= wr[3]

(* A prior instance p: [dims, wr, st (= Stencil(wr, w)), nb (= NbTable(dims, st)), kappa (<<>> = none), beta, gamma, eps] *)
\* neighbours of voxel i INSIDE the image: <<voxel, weight>>
NbOf(d, st, i) ==
  LET z == CZ(d, i)  y == CY(d, i)  x == CX(d, i) IN
  { <<Idx(d, z + s[1], y + s[2], x + s[3]), s[4]>> : s \in { t \in st : InGrid(d, z + t[1], y + t[2], x + t[3]) } }
NbTable(d, st) == [i \in Vox(d) |-> NbOf(d, st, i)]
Nb(p, i) == p.nb[i]      \* memoised in the instance (TLC re-evaluates operator applications at every use)
K(p, i) == IF p.kappa = <<>> THEN 1 ELSE p.kappa[i]
KK(p, i, j) == K(p, i) * K(p, j)
Bump(x, i, h) == [x EXCEPT ![i] = @ + h]
Unit(d, i) == [j \in Vox(d) |-> IF j = i THEN 1 ELSE 0]

(***************************************************************************)
(* Part 1: quadratic prior.                                                *)
(*   f   = 1/4 sum_{r,dr} w_dr (x_r - x_{r+dr})^2 kappa_r kappa_{r+dr}     *)
(*   g_r = sum_dr w_dr (x_r - x_{r+dr}) kappa_r kappa_{r+dr}               *)
(* (QuadraticPrior.h), both times the penalisation factor.                 *)
(***************************************************************************)
QValue4(p, x) == p.beta * SumS(Vox(p.dims), LAMBDA i : SumS(Nb(p, i), LAMBDA n : n[2] * KK(p, i, n[1]) * (x[i] - x[n[1]]) * (x[i] - x[n[1]])))
QGrad(p, x, i) == p.beta * SumS(Nb(p, i), LAMBDA n : n[2] * KK(p, i, n[1]) * (x[i] - x[n[1]]))
\* Hessian = Jacobian of the gradient: H[i][j] = d g_i / d x_j
QHessDiag(p, i) == p.beta * SumS({ n \in Nb(p, i) : n[1] # i }, LAMBDA n : n[2] * KK(p, i, n[1]))
QHessRow(p, i) ==   \* sparse: set of <<j, value>>, value # 0
  LET off == { <<n[1], -(p.beta * n[2] * KK(p, i, n[1]))>> : n \in { m \in Nb(p, i) : m[1] # i /\ p.beta * m[2] * KK(p, i, m[1]) # 0 } }
      dg == QHessDiag(p, i) IN
  IF dg = 0 THEN off ELSE off \cup { <<i, dg>> }
QHess(p, i, j) == SumS({ e \in QHessRow(p, i) : e[1] = j }, LAMBDA e : e[2])
QHessTimes(p, v, i) == QHessDiag(p, i) * v[i] - p.beta * SumS({ n \in Nb(p, i) : n[1] # i }, LAMBDA n : n[2] * KK(p, i, n[1]) * v[n[1]])
\* "assumes that the hessian of the prior is 1 ... will return the weights multiplied by the input"
QApproxTimes(p, v, i) == p.beta * SumS(Nb(p, i), LAMBDA n : n[2] * KK(p, i, n[1]) * v[n[1]])

\* --- the clauses of the property, as theorems about the formulas (checked by MC_Priors)
\* "the gradient is the derivative of the value": exact central difference of a quadratic
QGradIsDerivative(p, x) == \A i \in Vox(p.dims) : QValue4(p, Bump(x, i, 1)) - QValue4(p, Bump(x, i, -1)) = 8 * QGrad(p, x, i)
\* "the Hessian-times-vector is the directional derivative of the gradient"
QHessIsDirectional(p, x, v) ==
  LET xv == [i \in Vox(p.dims) |-> x[i] + v[i]] IN
  \A i \in Vox(p.dims) : QGrad(p, xv, i) - QGrad(p, x, i) = QHessTimes(p, v, i)
\* "a single Hessian row equals the Hessian applied to the corresponding unit image"
QRowIsUnit(p) == \A i \in Vox(p.dims) : \A j \in Vox(p.dims) : QHess(p, i, j) = QHessTimes(p, Unit(p.dims, i), j)
\* row entry j of row i is the derivative of g_i with respect to x_j (in particular the gradient at i does
\* not change when a voxel outside the stencil of i changes)
QRowIsJacobian(p, x) == \A i \in Vox(p.dims) : \A j \in Vox(p.dims) : QGrad(p, Bump(x, j, 1), i) - QGrad(p, x, i) = QHess(p, i, j)
\* "The Hessian is symmetric"
QSymmetric(p) == \A i \in Vox(p.dims) : \A j \in Vox(p.dims) : QHess(p, i, j) = QHess(p, j, i)
\* "positive semi-definite for priors that declare themselves convex"
QPSD(p, v) == SumS(Vox(p.dims), LAMBDA i : v[i] * QHessTimes(p, v, i)) >= 0
\* "value, gradient and Hessian scale linearly with the penalisation factor"
QLinearBeta(p, x, b) ==
  LET pb == [p EXCEPT !.beta = b * p.beta] IN
  /\ QValue4(pb, x) = b * QValue4(p, x)
  /\ \A i \in Vox(p.dims) : QGrad(pb, x, i) = b * QGrad(p, x, i) /\ QHessRow(pb, i) = { <<e[1], b * e[2]>> : e \in QHessRow(p, i) }
\* "the gradient vanishes for uniform images"
QUniformZero(p, c) == LET u == [i \in Vox(p.dims) |-> c] IN \A i \in Vox(p.dims) : QGrad(p, u, i) = 0
\* "voxels ... interact only with neighbours inside the image": rows are supported on the (clipped) stencil
QLocalRows(p) == \A i \in Vox(p.dims) : \A e \in QHessRow(p, i) : e[1] \in Vox(p.dims) /\ Near(p.dims, p.wr, i, e[1])

(***************************************************************************)
(* Part 2: relative difference prior, epsilon > 0, non-negative images.    *)
(*   potential  phi(a,b) = 1/2 psi(a,b),                                   *)
(*   psi(a,b)   = (a-b)^2 / D,   D = a + b + gamma |a-b| + eps             *)
(*   value      = beta sum_{r,dr} w phi kappa kappa  (each pair twice)      *)
(*   gradient_r = beta sum_dr w psi_a(x_r, x_{r+dr}) kappa kappa           *)
(*   psi_a      = (a-b)(gamma|a-b| + a + 3b + 2 eps) / D^2   (quotient rule)*)
(*   psi_aa     = 2 (2b+eps)^2 / D^3,  psi_ab = -2 (2a+eps)(2b+eps) / D^3   *)
(* All as exact rationals num/den; the fixed-point values floor(num 2^k /  *)
(* den) are what TLC compares the implementation with.                     *)
(***************************************************************************)
RD(p, a, b) == a + b + p.gamma * Abs(a - b) + p.eps
PsiN(p, a, b) == (a - b) * (a - b)                                       \* over RD
Psi1N(p, a, b) == (a - b) * (p.gamma * Abs(a - b) + a + 3 * b + 2 * p.eps)   \* over RD^2
Psi20N(p, a, b) == 2 * (2 * b + p.eps) * (2 * b + p.eps)                  \* over RD^3
Psi11N(p, a, b) == -2 * (2 * a + p.eps) * (2 * b + p.eps)                 \* over RD^3
Cube(a) == a * a * a
Fix(num, den, k) == (num * 2^k) \div den           \* floor: exact value in [Fix, Fix + 1) units of 2^-k

KV == 14    \* value:    sum of psi terms in units of 2^-14 (= value in units of 2^-15)
KG == 16    \* gradient: units of 2^-16
KH == 16    \* Hessian:  units of 2^-16
RValueK(p, x) == p.beta * SumS(Vox(p.dims), LAMBDA i : SumS(Nb(p, i), LAMBDA n : n[2] * KK(p, i, n[1]) * Fix(PsiN(p, x[i], x[n[1]]), RD(p, x[i], x[n[1]]), KV)))
RGradK(p, x, i) == p.beta * SumS(Nb(p, i), LAMBDA n : n[2] * KK(p, i, n[1]) * Fix(Psi1N(p, x[i], x[n[1]]), RD(p, x[i], x[n[1]]) * RD(p, x[i], x[n[1]]), KG))
RHessDiagK(p, x, i) == p.beta * SumS({ n \in Nb(p, i) : n[1] # i }, LAMBDA n : n[2] * KK(p, i, n[1]) * Fix(Psi20N(p, x[i], x[n[1]]), Cube(RD(p, x[i], x[n[1]])), KH))
RHessOffK(p, x, i, n) == p.beta * n[2] * KK(p, i, n[1]) * Fix(Psi11N(p, x[i], x[n[1]]), Cube(RD(p, x[i], x[n[1]])), KH)
RHessTimesK(p, x, v, i) ==
  p.beta * SumS({ n \in Nb(p, i) : n[1] # i }, LAMBDA n : n[2] * KK(p, i, n[1]) *
            (Fix(Psi20N(p, x[i], x[n[1]]), Cube(RD(p, x[i], x[n[1]])), KH) * v[i] + Fix(Psi11N(p, x[i], x[n[1]]), Cube(RD(p, x[i], x[n[1]])), KH) * v[n[1]]))
\* weight of the floor errors: every term is below its exact value by less than one unit times its coefficient
WeightSum(p, i) == p.beta * SumS({ n \in Nb(p, i) : n[1] # i }, LAMBDA n : n[2] * KK(p, i, n[1]))
\* single-precision evaluation in the implementation (pow, sums of up to 124 single-precision terms):
\* relative 2^-16 of the sum of the absolute values of the terms, plus quantisation
Slack(abssum) == abssum \div 65536 + 2
\* observation o (round(v 2^k)) agrees with a fixed-point sum whose exact value lies in [lo, hi]
Within(o, lo, hi, abssum) == o >= lo - Slack(abssum) /\ o <= hi + Slack(abssum)

\* Exact instances: with gamma = 0 and a + b + eps a power of two (<= 32) for every pair of neighbours, every term
\* above is a dyadic rational with at most 15 fractional bits: Fix is exact (no floor error) and so is the
\* single/double precision arithmetic of the implementation; the specification then demands equality.
IsPow2(d) == d \in {1, 2, 4, 8, 16, 32}
RDyadic(p, x) == /\ p.gamma = 0
                 /\ \A i \in Vox(p.dims) : \A n \in Nb(p, i) : n[1] = i \/ IsPow2(RD(p, x[i], x[n[1]]))
\* Log-cosh prior, exact instances: on an image without differences between neighbours the value and the gradient
\* vanish (log cosh 0 = 0, tanh 0 = 0) and the Hessian is that of the quadratic prior (sech^2 0 = 1), whatever the scalar.
Flat(p, x) == \A i \in Vox(p.dims) : \A n \in Nb(p, i) : x[n[1]] = x[i]

\* --- theorems about the potential (MC_Priors): the derivative formulas are bracketed by unit
\* differences of the function they claim to differentiate (psi is convex in a for a, b >= 0;
\* psi_aa is monotone in a on either side of b).  Exact rational arithmetic by cross-multiplication.
\* psi(a,b) - psi(a-1,b) <= psi_a(a,b) <= psi(a+1,b) - psi(a,b)
RPsi1Bracket(p, a, b) ==
  LET D0 == RD(p, a, b)  Dp == RD(p, a + 1, b)  Dm == RD(p, a - 1, b) IN
  /\ (PsiN(p, a + 1, b) * D0 - PsiN(p, a, b) * Dp) * D0 >= Psi1N(p, a, b) * Dp
  /\ (a >= 1 => (PsiN(p, a, b) * Dm - PsiN(p, a - 1, b) * D0) * D0 <= Psi1N(p, a, b) * Dm)
\* psi_a(a+1,b) - psi_a(a,b) lies between psi_aa(a,b) and psi_aa(a+1,b)
RPsi20Bracket(p, a, b) ==
  LET D0 == RD(p, a, b)  D1 == RD(p, a + 1, b)
      lhs == Psi1N(p, a + 1, b) * D0 * D0 - Psi1N(p, a, b) * D1 * D1      \* over D0^2 D1^2
      h0 == Psi20N(p, a, b) * D1 * D1                                     \* psi_aa(a)   over D0^3 D1^2  -> times D0
      h1 == Psi20N(p, a + 1, b) * D0 * D0 IN                              \* psi_aa(a+1) over D1^3 D0^2  -> times D1
  /\ lhs * D0 * D1 >= Min2(h0 * D1, h1 * D0)
  /\ lhs * D0 * D1 <= Max2(h0 * D1, h1 * D0)
\* psi is homogeneous of degree one in (a + eps/2, b + eps/2): Euler's relation differentiated gives
\* (2a+eps) psi_aa + (2b+eps) psi_ab = 0, and psi_ab is symmetric
RPsi11Euler(p, a, b) == /\ (2 * a + p.eps) * Psi20N(p, a, b) + (2 * b + p.eps) * Psi11N(p, a, b) = 0
                        /\ Psi11N(p, a, b) = Psi11N(p, b, a) /\ RD(p, a, b) = RD(p, b, a)
\* the Hessian of one pair term is positive semi-definite: psi_aa psi_bb - psi_ab^2 >= 0, psi_aa >= 0
RPairPSD(p, a, b) == Psi20N(p, a, b) >= 0 /\ Psi20N(p, a, b) * Psi20N(p, b, a) - Psi11N(p, a, b) * Psi11N(p, a, b) >= 0

(***************************************************************************)
(* Part 3: relations between recorded observations (all four priors).      *)
(* Numbers are fixed point m = round(v 2^k) with k in the record.          *)
(***************************************************************************)
\* scaling with the penalisation factor by num/den: den * b = num * a up to rounding of the two
\* single-precision results and of the two quantisations
ScaleAgrees(a, b, num, den) == Abs(den * b - num * a) <= num + den + (num * Abs(a) + den * Abs(b)) \div 1048576

\* bound on the potential per unit weight on the domain of the recorded images (values in [0, 4];
\* quadratic t^2/4 <= 4, RDP t^2/(2D) <= 2, log-cosh log(cosh(s t))/(2 s^2) <= |t|/(2s) <= 4 for s >= 1/2)
PMax == 4
\* finite differences of the value: only the terms that involve the changed voxel differ, their total
\* weight is at most 2 wsum kmax^2 beta; each is evaluated in single precision (4 ulp allowed).
\* PLS: four penalty terms change; each is a single-precision square root of a difference of squares of
\* magnitude <= 64 (absolute error <= 2^-14 allowed per unit kappa^2 and beta in total).
\* In units of 2^-kv.
FDVTol(c, kv) ==
  LET cst == IF c.prior = "pls" THEN 64 * c.betaCeil * c.kmax2 ELSE PMax * c.betaCeil * c.wsum * c.kmax2 IN
  3 + (IF kv >= 20 THEN cst * 2^(kv - 20) ELSE cst \div 2^(20 - kv) + 1)
\* convexity along e_i: h g_i(x) <= V(x + h e_i) - V(x) <= h g_i(x + h e_i)
FDVBracket(c, r) ==
  LET tol == FDVTol(c, r.kv) + (Abs(r.g0) + Abs(r.g1)) \div 1048576 IN
  /\ r.kg = r.kv - r.hk
  /\ r.v1 - r.v0 >= r.g0 - tol
  /\ r.v1 - r.v0 <= r.g1 + tol

\* finite differences of the gradient against Hessian entries (units 2^-kg; kh = kg - hk so that
\* h * H is in the same units): the change of g_j lies between h H_ji at the two end points where H_ji
\* is monotone along the segment
FDGTol(g0, g1, h0, h1) == 3 + (Abs(g0) + Abs(g1)) \div 1048576 + (Abs(h0) + Abs(h1)) \div 65536
FDGBracket(g0, g1, h0, h1) ==
  /\ g1 - g0 >= Min2(h0, h1) - FDGTol(g0, g1, h0, h1)
  /\ g1 - g0 <= Max2(h0, h1) + FDGTol(g0, g1, h0, h1)
(***************************************************************************)
(* Part 4 (beyond the property): FilterRootPrior, the other registered     *)
(* GeneralisedPrior.  G_v = beta (lambda_v / F_v - 1), F the filtered      *)
(* image; the quotient is M sign(F) sign(lambda), M = 1000, unless         *)
(* |lambda| < M |F|.  lam, f: fixed point with the same number of          *)
(* fractional bits; g: 10 fractional bits; beta8 = 8 beta.                 *)
(***************************************************************************)
Sgn(a) == IF a >= 0 THEN 1 ELSE -1        \* as the implementation: sign(0) = +1
FRGradOk(beta8, filter, lam, f, g) ==
  IF beta8 = 0 \/ filter = "none" THEN g = 0
  ELSE IF Abs(lam) < 1000 * Abs(f)
       THEN LET q == ((lam - f) * 1024) \div f IN       \* floor((lambda/F - 1) 2^10)
            Abs(8 * g - beta8 * q) <= 2 * Abs(beta8) + 8 + Abs(8 * g) \div 262144
       ELSE 8 * g = beta8 * (1000 * Sgn(lam) * Sgn(f) - 1) * 1024

\* theorems (MC_Priors): on a uniform image filtered to itself only a (numerically) zero gradient is accepted, and
\* only a few neighbouring fixed-point values are accepted for any input
FRUniformOnlyZero(beta8, lam) == /\ FRGradOk(beta8, "median", lam, lam, 0)
                                 /\ \A g \in -40..40 : FRGradOk(beta8, "median", lam, lam, g) => 8 * Abs(g) <= 2 * Abs(beta8) + 8
FRCentre(beta8, lam, f) == IF Abs(lam) < 1000 * Abs(f) THEN (beta8 * (((lam - f) * 1024) \div f)) \div 8
                           ELSE (beta8 * (1000 * Sgn(lam) * Sgn(f) - 1) * 1024) \div 8
FRDeterminate(beta8, lam, f) ==
  LET c0 == FRCentre(beta8, lam, f) IN
  /\ Cardinality({ g \in (c0 - 60)..(c0 + 60) : FRGradOk(beta8, "scale", lam, f, g) }) \in 1..(Abs(beta8) \div 2 + 8 + Abs(c0) \div 65536)
  /\ ~FRGradOk(beta8, "scale", lam, f, c0 - 60) /\ ~FRGradOk(beta8, "scale", lam, f, c0 + 60)

(***************************************************************************)
(* Part 5 (beyond the property): the set-up protocol of GeneralisedPrior.  *)
(* State cc: ready (set_up done and not invalidated), kappaOk (the kappa   *)
(* image has the characteristics of the image of the calls).               *)
(***************************************************************************)
NotImplemented(prior, fn) == \/ prior = "pls" /\ fn \in {"hessian", "htimes", "happrox"}
                             \/ prior \in {"rdp", "logcosh"} /\ fn = "happrox"
\* RelativeDifferencePrior::set_weights / set_kappa_sptr reset the set-up flag (the other classes do not)
SetterInvalidates(prior) == prior = "rdp"
ProtoNext(cc, r) ==
  CASE r.e = "SetUp" -> [cc EXCEPT !.ready = (cc.ready \/ ~r.err)]
    [] r.e = "SetKappa" -> [cc EXCEPT !.kappaOk = r.match, !.ready = (cc.ready /\ ~SetterInvalidates(cc.prior))]
    [] r.e = "SetWeights" -> [cc EXCEPT !.ready = (cc.ready /\ ~SetterInvalidates(cc.prior))]
    [] OTHER -> cc
CallMustFail(cc, fn) == NotImplemented(cc.prior, fn) \/ ~cc.ready \/ ~cc.kappaOk
ProtoEvents == { [e |-> "SetUp", err |-> FALSE], [e |-> "SetUp", err |-> TRUE], [e |-> "SetKappa", match |-> TRUE], [e |-> "SetKappa", match |-> FALSE],
                 [e |-> "SetWeights"], [e |-> "SetBeta"] }
=============================================================================
