--------------------------- MODULE C03TraceCommon ---------------------------
(* Decoding of the geometry fields that the C03 drivers log (emit_geometry in *)
(* harness/common/c03_matrix_common.h) into the records of Symmetries.tla.    *)
EXTENDS Symmetries, Sequences
CfgOf(r) == [N |-> r.N, R |-> r.R, span |-> r.span, ge |-> r.ge, maxDelta |-> r.maxDelta, mash |-> r.mash,
             tofMash |-> r.tofMash, maxT |-> IF r.tofMash = 0 THEN 0 ELSE r.maxT, minTang |-> r.minTang, maxTang |-> r.maxTang,
             minSeg |-> r.minSeg, maxSeg |-> r.maxSeg,
             \* block geometry: axial crystals per block; uniform = no gap between axial blocks
             cpb |-> IF "cpb" \in DOMAIN r /\ r.cpb >= 1 THEN r.cpb ELSE 1, uniform |-> "gap" \notin DOMAIN r \/ r.gap = 0]
\* fixed-point observations of the grid (2^-10 ratios, 2^-12 mm) -> the grid record; the tolerances
\* are those of the implementation's own tests (1e-2 planes, 2e-3 mm voxel size, 1e-2 mm origin)
Near(x, unit, tol) == LET m == Mod(x + unit \div 2, unit) - unit \div 2 IN Abs(m) <= tol
RoundTo(x, unit) == (x + unit \div 2 - Mod(x + unit \div 2, unit)) \div unit
\* the interpolating matrix restricts x and y each to the part of the index range that is symmetric about 0
SymHalf(lo, hi) == Min2(-lo, hi)
SquareRange(r) == SymHalf(r.xmin, r.xmax) = SymHalf(r.ymin, r.ymax)
GridOf(r) == [zmin |-> r.zmin, zmax |-> r.zmax, nppr |-> RoundTo(r.nppr1024, 1024), oz |-> RoundTo(r.oz1024, 1024),
              \* square voxels (and, for the patched interpolating matrix, the same symmetrised index range in x and y)
              square |-> Abs(r.vx - r.vy) <= 8
                         /\ ~(InterpSquareFixApplied /\ "impl" \in DOMAIN r /\ r.impl = "Interpolation" /\ ~SquareRange(r)), xy0 |-> Abs(r.ox) <= 40 /\ Abs(r.oy) <= 40, tilt |-> r.tilt # 0, geom |-> r.geom,
              \* use_actual_detector_boundaries is honoured only for data without mashing and axial compression
              uadb |-> "uadb" \in DOMAIN r /\ r.uadb /\ r.impl = "RayTracing" /\ r.mash = 1 /\ r.span = 1]
SwOf(x) == [s90 |-> x[1] = 1, s180 |-> x[2] = 1, sseg |-> x[3] = 1, ss |-> x[4] = 1, sz |-> x[5] = 1]
BinOfList(x) == Bin(x[1], x[2], x[3], x[4], x[5])
\* the implementation's own description of the data must be the documented Michelogram (as in C01)
DataOk(r, cc) ==
  /\ LegalConfig(cc) /\ ~cc.ge
  /\ r.numViews = NumViews(cc) /\ r.minView = 0
  /\ r.minTof = MinTof(cc) /\ r.maxTof = MaxTof(cc)
  /\ Len(r.segs) = cc.maxSeg - cc.minSeg + 1
  /\ \A i \in 1..Len(r.segs) :
       LET s == r.segs[i][1] IN
       /\ s = cc.minSeg + i - 1
       /\ r.segs[i][2] = SegMinRD(cc, s) /\ r.segs[i][3] = SegMaxRD(cc, s)
       /\ r.segs[i][4] = 0 /\ r.segs[i][5] = NumAx(cc, s) - 1
GeometryOk(r) ==
  LET cc == CfgOf(r)  gg == GridOf(r) IN
  /\ DataOk(r, cc)
  /\ Near(r.nppr1024, 1024, 10) /\ Near(r.oz1024, 1024, 1) /\ GridOk(cc, gg)
  /\ ~TruncSingleRD(cc)
=============================================================================
