------------------------------ MODULE MC_Conv ------------------------------
(* Exhaustive check of the theorems of Conv.tla over families of small     *)
(* instances: one initial state per instance; the invariants are the       *)
(* theorems.  All identities are linear in the data (and in the kernel),   *)
(* so the data are unit impulses plus a few dense patterns, while index    *)
(* ranges - where the arithmetic can go wrong - are enumerated densely.    *)
EXTENDS Conv
CONSTANTS Deep,     \* FALSE: quick bounds, TRUE: thorough bounds
          Which     \* the instance families to check (subset of {1, 2, 3, 4, 5})
VARIABLES inst

Seqs(S, lens) == UNION { [1..m -> S] : m \in lens }
\* 1-D arrays (along axis 3) with every index range lo..lo+n-1 and every value pattern
Arrays1(los, lens, vals) == { Arr(<<0, 0, lo>>, <<1, 1, Len(v)>>, v) : lo \in los, v \in Seqs(vals, lens) }
Impulses(lo, n) == { Arr(lo, n, [q \in 1..Size(n) |-> IF q = i THEN 1 ELSE 0]) : i \in 1..Size(n) }
                     \cup { Arr(lo, n, [q \in 1..Size(n) |-> ((q * q) % 5) - 1]) }

MaxLen == IF Deep THEN 4 ELSE 3
\* (1) 1-D: boundary conditions, mean preservation
I1 == \E k \in Arrays1(-2..1, 0..MaxLen, {-1, 0, 2}), a \in Arrays1({-2, 0, 1}, 1..MaxLen, {1, 2}), s \in {-2, 0, 1}, m \in {1, 3, 6} :
        inst = [kind |-> "one", k |-> k, a |-> a, olo |-> <<0, 0, a.lo[3] + s>>, on |-> <<1, 1, m>>]
\* (2) 1-D: symmetric form
I1s == \E h \in Seqs({-1, 0, 2}, 0..MaxLen), a \in Arrays1({-2, 0, 3}, 1..(MaxLen + 1), {0, 1, 3}) :
        inst = [kind |-> "sym", h |-> h, a |-> a]
\* (3) 3-D separable
K1 == { [lo |-> lo, v |-> v, bc |-> bc] : lo \in (IF Deep THEN {-1, 0, 1} ELSE {-1, 1}),
                                          v \in {<<>>, <<2, -1>>, <<1, 0, 3>>}, bc \in {"zero", "constant"} }
Shapes3 == IF Deep THEN {<<2, 2, 2>>, <<1, 2, 3>>, <<3, 1, 2>>} ELSE {<<2, 2, 2>>, <<1, 2, 3>>}
\* quick bounds: the same boundary condition on the three axes; thorough: mixed
I2 == \E k1 \in K1, k2 \in K1, k3 \in K1, lo \in {<<0, 0, 0>>, <<-1, 2, 1>>}, n \in Shapes3 :
        /\ (Deep \/ (k1.bc = k2.bc /\ k2.bc = k3.bc))
        /\ (n = <<2, 2, 2>> \/ lo # <<0, 0, 0>>)
        /\ \E a \in Impulses(lo, n) : inst = [kind |-> "sep", ks |-> <<k1, k2, k3>>, a |-> a]
\* (4) periodic convolution with padding against the non-periodic one; unused axes have size 1, index 0
Pads == IF Deep THEN {<<1, 1, 2>>, <<1, 1, 4>>, <<1, 2, 4>>, <<1, 1, 8>>, <<2, 2, 2>>, <<1, 4, 2>>}
        ELSE {<<1, 1, 2>>, <<1, 1, 4>>, <<1, 2, 4>>, <<1, 1, 8>>}
Los(L, S) == { <<IF L[1] = 1 THEN 0 ELSE x, IF L[2] = 1 THEN 0 ELSE y, z>> : x \in S, y \in S, z \in S }
Dims(L) == Cardinality({ d \in Axes : L[d] > 1 })
Sub(L, m) == { n \in {<<a, b, c>> : a \in 1..L[1], b \in 1..L[2], c \in 1..L[3]} : Size(n) <= m }
I3 == \E L \in Pads :
        LET one == Dims(L) = 1 IN
        \E klo \in Los(L, IF one THEN {-(L[3] \div 2), 0, 1, -L[3]} ELSE {-1, 0}),
           alo \in Los(L, IF one THEN {-1, 0, 3} ELSE {-1, 2}), an \in Sub(L, IF one THEN 4 ELSE 2),
           olo \in Los(L, IF one THEN {-2, 0, 3} ELSE {-2, 1}),
           on \in (IF one THEN {<<1, 1, 1>>, <<1, 1, 2>>, <<1, 1, 5>>} ELSE { n \in Sub(L, 4) : Size(n) \in {1, 4} }) :
          \E k \in Impulses(klo, L), a \in Impulses(alo, an) :
             inst = [kind |-> "pad", k |-> k, a |-> a, olo |-> olo, on |-> on]

\* (5) beyond the property text: median / minimum of the in-image neighbourhood, wrapping of over-long data
I5 == \/ \E lo \in {<<0, 0, 0>>, <<-2, 1, 3>>}, n \in {<<1, 1, 4>>, <<2, 3, 1>>, <<2, 2, 3>>, <<3, 3, 3>>},
            r \in {<<0, 0, 0>>, <<1, 1, 1>>, <<0, 1, 0>>, <<1, 0, 2>>, <<2, 2, 2>>}, pat \in (IF Deep THEN 1..6 ELSE 1..2) :
            inst = [kind |-> "med", r |-> r, a |-> Arr(lo, n, [q \in 1..Size(n) |-> IF pat = 6 THEN 4 ELSE ((q * q * pat + pat) % 7) - 3])]
      \/ \E L \in {<<1, 1, 2>>, <<1, 1, 4>>, <<1, 2, 4>>, <<2, 2, 2>>}, lo \in {-5, -1, 0, 2}, n3 \in 1..(IF Deep THEN 11 ELSE 7), n2 \in 1..3 :
            inst = [kind |-> "wrap", L |-> L,
                    a |-> Arr(<<0, IF L[2] = 1 THEN 0 ELSE lo + 1, lo>>, <<1, IF L[2] = 1 THEN 1 ELSE n2, n3>>,
                              [q \in 1..((IF L[2] = 1 THEN 1 ELSE n2) * n3) |-> q])]

Init == \/ 1 \in Which /\ I1
        \/ 5 \in Which /\ I5
        \/ 2 \in Which /\ I1s
        \/ 3 \in Which /\ I2
        \/ 4 \in Which /\ I3
\* no actions: every instance is an initial state on which the theorems are evaluated as invariants
Next == FALSE /\ UNCHANGED inst
Spec == Init /\ [][Next]_inst

InvBoundary == inst.kind = "one" => ThBoundary(inst.k, inst.a, inst.olo, inst.on)
InvMean     == inst.kind = "one" => \A c \in {1, 2} : ThMean(inst.k, inst.a, c)
InvSym      == inst.kind = "sym" => ThSymmetric(inst.h, inst.a)
InvSep      == inst.kind = "sep" => ThSeparable(inst.ks, inst.a)
InvPad      == inst.kind = "pad" => (ThNoWrap(inst.k, inst.a, inst.olo, inst.on) /\ ThWrapped(inst.k, inst.a, inst.olo, inst.on))
InvMedian   == inst.kind = "med" => ThMedian(inst.a, inst.r)
InvWrap     == inst.kind = "wrap" => ThWrapTwice(inst.a, inst.L)
=============================================================================
