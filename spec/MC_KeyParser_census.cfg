SPECIFICATION Spec
CONSTANTS MaxFull = 2
INVARIANTS StoredAtIndex ScalarStored StartRequired ErrorIsFinal Bounded
CHECK_DEADLOCK FALSE
