SPECIFICATION Spec
CONSTANTS MaxDepth = 3 MaxN = 2 Fault = "none"
INVARIANTS InvTheorems InvStep InvAccumulated InvOutput
CHECK_DEADLOCK FALSE
