SPECIFICATION Spec
CONSTANTS MaxDepth = 3 MaxN = 2 MaxHistView = 0 HistClassIdx = {1, 5} Fault = "none"
INVARIANTS InvTheorems InvStep InvAccumulated InvOutput
CHECK_DEADLOCK FALSE
