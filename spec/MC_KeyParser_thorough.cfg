SPECIFICATION Spec
CONSTANTS MaxFull = 4
INVARIANTS FoldAgrees StoredAtIndex ScalarStored AliasResolves SpellingIgnored StartRequired ErrorIsFinal Bounded
CHECK_DEADLOCK FALSE
