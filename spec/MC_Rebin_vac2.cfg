SPECIFICATION Spec
CONSTANTS
  Ns = {4}
  Rs = {2}
  Spans = {1}
  Mashes = {1}
  Tofs = {93}
  TofN = 4
  TofR = 2
INVARIANTS InvNeverConserved
CHECK_DEADLOCK FALSE
