-------------------------- MODULE MC_ProjDataStore --------------------------
(* Exhaustive model check of ProjDataStore.tla: for every small geometry      *)
(* (segments with UNEQUAL numbers of axial positions, TOF and non-TOF), both  *)
(* storage orders and EVERY permutation of the segment sequence, pre-sized    *)
(* and growing streams:                                                       *)
(*  - theorems T1-T3 (position = declarative rank = bijection; container      *)
(*    indices are bijections; standard sequence);                             *)
(*  - all histories of <= d requests (d per geometry) through every access path  *)
(*    (in range and one past either end of every index): the implementation-  *)
(*    shaped stream procedures keep the stream coherent with the abstract     *)
(*    array after EVERY request, requests out of range change nothing.        *)
EXTENDS ProjDataStore
CONSTANTS Level         \* 1 = quick family of geometries / depths, 2 = thorough
VARIABLES g, L, fresh, posT, store, file, cnt, err

vars == << g, L, fresh, posT, store, file, cnt, err >>

\* d = number of requests per history for this geometry
Geo(minSeg, ax, nv, nt, nk, d) ==
  [minSeg |-> minSeg, maxSeg |-> minSeg + Len(ax) - 1, ax |-> ax, minView |-> 0, maxView |-> nv - 1,
   minTang |-> -(nt \div 2), maxTang |-> -(nt \div 2) + nt - 1, minTof |-> -(nk \div 2), maxTof |-> nk \div 2, d |-> d]
Geoms ==
  IF Level = 1 THEN
  { Geo(-1, << <<0, 0>>, <<0, 1>>, <<0, 0>> >>, 2, 2, 1, 2),          \* 3 segments, 1/2/1 axial positions
    Geo(0, << <<0, 1>> >>, 2, 3, 1, 2),                               \* a single segment
    Geo(-1, << <<0, 0>>, <<0, 1>>, <<0, 0>> >>, 2, 2, 3, 1) }         \* TOF, 3 bins
  ELSE
  { Geo(-1, << <<0, 0>>, <<0, 1>>, <<0, 0>> >>, 2, 2, 1, 2),
    Geo(0, << <<0, 1>> >>, 2, 3, 1, 3),
    Geo(-1, << <<0, 0>>, <<0, 1>>, <<0, 0>> >>, 2, 2, 3, 1),
    Geo(-1, << <<0, 1>>, <<0, 2>>, <<0, 0>> >>, 2, 2, 1, 1),        \* asymmetric axial sizes 2/3/1
    Geo(-1, << <<0, 1>>, <<0, 2>>, <<0, 1>>, <<0, 0>> >>, 2, 2, 1, 2),   \* 4 segments, asymmetric range -1..2, pairs of requests
    Geo(-2, << <<0, 0>>, <<0, 1>>, <<0, 2>>, <<0, 1>>, <<0, 0>> >>, 2, 1, 1, 1),  \* 5 segments: 120 permutations
    Geo(-1, << <<1, 1>>, <<0, 2>>, <<1, 1>> >>, 2, 2, 3, 1),        \* TOF, axial ranges not starting at 0
    Geo(0, << <<0, 1>>, <<0, 0>> >>, 2, 2, 3, 2),                   \* TOF, segments 0..1, pairs of requests
    Geo(0, << <<0, 1>> >>, 3, 2, 5, 2) }                            \* TOF, 5 bins, pairs of requests

Perms(S) == { q \in [1..Cardinality(S) -> S] : \A i, j \in 1..Cardinality(S) : i # j => q[i] # q[j] }
Layouts(gg) == { [byView |-> bv, seq |-> q] : bv \in BOOLEAN, q \in Perms(Segs(gg)) }
Depth == g.d

\* values: distinct per write and per element, never 0
Val(i) == (cnt + 1) * 100 + i
Vals(n) == [i \in 1..n |-> Val(i)]

Init == /\ g \in Geoms /\ L \in Layouts(g)
        /\ fresh \in (IF Len(g.ax) >= 4 THEN {FALSE} ELSE BOOLEAN)     \* (growing streams: geometries up to 3 segments)
        /\ posT = [b \in Bins(g) |-> Pos(g, L, b)]
        /\ store = [b \in Bins(g) |-> 0]
        /\ file = IF fresh THEN <<>> ELSE [i \in 1..NumBins(g) |-> 0]
        /\ cnt = -1 /\ err = FALSE      \* -1: the theorems T1-T3 are evaluated on the successor (cnt = 0), i.e. by the parallel workers

Did(s2, f2) == store' = s2 /\ file' = f2 /\ err' = FALSE /\ cnt' = cnt + 1 /\ UNCHANGED << g, L, fresh, posT >>
Refused == err' = TRUE /\ cnt' = cnt + 1 /\ UNCHANGED << g, L, fresh, posT, store, file >>

XS == (g.minSeg - 1)..(g.maxSeg + 1)
XV == (g.minView - 1)..(g.maxView + 1)
XK == (g.minTof - 1)..(g.maxTof + 1)
XA(s) == IF SegOk(g, s) THEN (MinAx(g, s) - 1)..(MaxAx(g, s) + 1) ELSE {0}
\* out-of-range single bins: exactly one index one past either end, from a corner bin of every segment
OORBins == UNION { LET b == << s, MinAx(g, s), g.minView, g.minTang, g.minTof >> IN
                   { [b EXCEPT ![1] = g.minSeg - 1], [b EXCEPT ![1] = g.maxSeg + 1],
                     [b EXCEPT ![2] = MinAx(g, s) - 1], [b EXCEPT ![2] = MaxAx(g, s) + 1],
                     [b EXCEPT ![3] = g.minView - 1], [b EXCEPT ![3] = g.maxView + 1],
                     [b EXCEPT ![4] = g.minTang - 1], [b EXCEPT ![4] = g.maxTang + 1],
                     [b EXCEPT ![5] = g.minTof - 1], [b EXCEPT ![5] = g.maxTof + 1] } : s \in Segs(g) }

SetBin == \E b \in Bins(g) \cup OORBins :
            IF InRange(g, b)
            THEN Did(Write(store, LAMBDA c : c = b, LAMBDA c : 1, << Val(1) >>), StreamSetBin(g, L, file, b, Val(1)))
            ELSE Refused
SetSino == \E s \in XS, k \in XK : \E a \in XA(s) :
            IF AxOk(g, s, a) /\ TofOk(g, k)
            THEN LET vals == Vals(NV(g) * NT(g)) IN
                 Did(Write(store, LAMBDA c : InSino(c, s, a, k), LAMBDA c : IdxSino(g, c), vals), StreamSetSino(g, L, file, s, a, k, vals))
            ELSE Refused
SetView == \E s \in XS, v \in XV, k \in XK :
            IF SegOk(g, s) /\ ViewOk(g, v) /\ TofOk(g, k)
            THEN LET vals == Vals(NA(g, s) * NT(g)) IN
                 Did(Write(store, LAMBDA c : InView(c, s, v, k), LAMBDA c : IdxView(g, c), vals), StreamSetView(g, L, file, s, v, k, vals))
            ELSE Refused
SetSegV == \E s \in XS, k \in XK :
            IF SegOk(g, s) /\ TofOk(g, k)
            THEN LET vals == Vals(NV(g) * NA(g, s) * NT(g)) IN
                 Did(Write(store, LAMBDA c : InSegment(c, s, k), LAMBDA c : IdxSegV(g, c), vals), StreamSetSegV(g, L, file, s, k, vals))
            ELSE Refused
SetSegS == \E s \in XS, k \in XK :
            IF SegOk(g, s) /\ TofOk(g, k)
            THEN LET vals == Vals(NV(g) * NA(g, s) * NT(g)) IN
                 Did(Write(store, LAMBDA c : InSegment(c, s, k), LAMBDA c : IdxSegS(g, c), vals), StreamSetSegS(g, L, file, s, k, vals))
            ELSE Refused
\* related viewgrams: (view, segment) together with (view, -segment) and the mirrored view, as the PET symmetries give
RECURSIVE StreamSetViews(_, _, _, _)
StreamSetViews(f, pairs, i, vals) ==
  IF i > Len(pairs) THEN f
  ELSE StreamSetViews(StreamSetView(g, L, f, pairs[i][2], pairs[i][1], pairs[i][3],
                                    Slice(vals, RelStart(g, pairs, i) + 1, NA(g, pairs[i][2]) * NT(g))), pairs, i + 1, vals)
SetRel == \E s \in Segs(g), v \in g.minView..g.maxView, k \in g.minTof..g.maxTof :
            LET mv == g.maxView - v + g.minView
                c1 == << << v, s, k >> >>
                c2 == IF s # 0 /\ SegOk(g, -s) THEN Append(c1, << v, -s, k >>) ELSE c1
                pairs == IF mv # v THEN Append(c2, << mv, s, k >>) ELSE c2
                vals == Vals(RelSize(g, pairs)) IN
            /\ PairsOk(g, pairs)
            /\ Did(Write(store, LAMBDA c : InRelated(c, pairs), LAMBDA c : IdxRelated(g, pairs, c), vals),
                   StreamSetViews(file, pairs, 1, vals))
Fill == Did([b \in Bins(g) |-> Val(0)], StreamFill(g, L, file, Val(0)))
FillFrom == LET vals == Vals(NumBins(g))
                std == StdLayout(g) IN
            Did(Write(store, LAMBDA c : TRUE, LAMBDA c : Pos(g, std, c) + 1, vals), StreamFillFrom(g, L, file, vals))

\* sapyb(a, y, b) (and, by the same route, the element-wise operators): read-modify-write of every segment; the operand y
\* is another array of the same geometry.  Needs the data to be there: pre-sized streams only.
OperandY == [c \in Bins(g) |-> 1 + (Tang(c) - g.minTang) + 2 * (View(c) - g.minView) + (Ax(c) - MinAx(g, Seg(c)))]
Sapyb == /\ ~fresh
         /\ Did(Xapyb(store, 2, OperandY, 3), StreamSapyb(g, L, file, 2, OperandY, 3))
\* fill(ProjData) from a source with one more segment at either end (one axial position each)
WideGeo == [g EXCEPT !.minSeg = g.minSeg - 1, !.maxSeg = g.maxSeg + 1, !.ax = << << 0, 0 >> >> \o g.ax \o << << 0, 0 >> >>]
FillWide == LET gs == WideGeo
                ls == StdLayout(gs)
                src == [c \in Bins(gs) |-> (cnt + 1) * 100 + Pos(gs, ls, c) + 1]
                vals == [i \in 1..NumBins(gs) |-> (cnt + 1) * 100 + i] IN
            /\ cnt = 0                      \* (as the first request of a history: keeps the model small)
            /\ g.minSeg = -g.maxSeg         \* (the standard sequence of the source is defined around segment 0)
            /\ SourceCovers(g, gs)
            /\ Did(FilledFromSource(g, gs, vals), StreamFillSource(g, L, file, src))

Start == cnt = -1 /\ cnt' = 0 /\ UNCHANGED << g, L, fresh, posT, store, file, err >>
\* the theorems are checked for EVERY permutation of the segment sequence; for 4 and more segments the histories are explored
\* for four of them (as is, reversed, the standard sequence, rotated by one)
NSeg == g.maxSeg - g.minSeg + 1
HistoryLayout == \/ NSeg < 4
                 \/ L.seq \in { [i \in 1..NSeg |-> g.minSeg + i - 1], [i \in 1..NSeg |-> g.maxSeg - i + 1], StdSeq(g),
                                [i \in 1..NSeg |-> g.minSeg + (i % NSeg)] }
Next == \/ Start
        \/ /\ cnt >= 0 /\ cnt < Depth /\ HistoryLayout
           /\ (SetBin \/ SetSino \/ SetView \/ SetSegV \/ SetSegS \/ SetRel \/ Fill \/ FillFrom \/ Sapyb \/ FillWide)
Spec == Init /\ [][Next]_vars

\* "no other bin changes ... whatever the storage order, segment order in the stream ... or backing store",
\* "visible to an independent reader of the file as soon as each write call returns"
InvCoherent == Coherent(store, posT, file)
\* a stream never grows beyond the array, a pre-sized stream keeps its size
InvSize == Len(file) <= NumBins(g) /\ (~fresh => Len(file) = NumBins(g))
\* "Requests outside the index ranges are reported as errors instead of touching other data": by construction of
\* Refused; what is CHECKED is that every in-range request is accepted and only those
InvT1 == cnt = 0 => T1(g, L)
InvT2 == cnt = 0 => T2(g)
InvT3 == cnt = 0 => T3(g)
\* get_subset: the geometry of a subset of the views (here: the last view alone; all views) is again an array whose standard
\* layout is a bijection, so SubsetOk determines the result completely
InvSubset == cnt = 0 =>
  \A views \in { << g.maxView >>, [i \in 1..NV(g) |-> g.maxView - i + 1] } :
     LET gs == SubsetGeo(g, views) IN T1(gs, StdLayout(gs))
\* reading back through every other path (projections of the store are total and well indexed)
InvRead == cnt = Depth =>
  \A s \in Segs(g), k \in g.minTof..g.maxTof :
     LET segV == [j \in 1..(NV(g) * NA(g, s) * NT(g)) |-> store[CHOOSE b \in Bins(g) : InSegment(b, s, k) /\ IdxSegV(g, b) = j]] IN
     ReadOk(store, LAMBDA c : InSegment(c, s, k), LAMBDA c : IdxSegS(g, c), TransposeVS(g, s, segV), NV(g) * NA(g, s) * NT(g))
=============================================================================
