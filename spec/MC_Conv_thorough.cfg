SPECIFICATION Spec
CONSTANTS Deep = TRUE Which = {1, 2, 3, 4}
INVARIANTS InvBoundary InvMean InvSym InvSep InvPad
CHECK_DEADLOCK FALSE
