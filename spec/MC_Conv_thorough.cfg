SPECIFICATION Spec
CONSTANTS Deep = TRUE
INVARIANTS InvBoundary InvMean InvSym InvSep InvPad
CHECK_DEADLOCK FALSE
