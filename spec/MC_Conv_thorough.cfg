SPECIFICATION Spec
CONSTANTS Deep = TRUE Which = {1, 2, 3, 4, 5}
INVARIANTS InvBoundary InvMean InvSym InvSep InvPad InvMedian InvWrap
CHECK_DEADLOCK FALSE
