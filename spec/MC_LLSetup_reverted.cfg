SPECIFICATION Spec
CONSTANTS MaxLen = 6 Variant = "reverted"
INVARIANTS Inv Belief Protocol
CHECK_DEADLOCK FALSE
