SPECIFICATION Spec
CONSTANTS MaxLen = 5 Variant = "reverted"
INVARIANTS Inv Belief
CHECK_DEADLOCK FALSE
