---------------------------- MODULE MC_IterEvents ----------------------------
(* Model check of the event schedule of IterSchedule.tla (which sub-iterations trigger which    *)
(* filter / report / file): the theorems EvTheorems for every small event configuration.        *)
EXTENDS TLC, Integers, Sequences, FiniteSets
CONSTANTS MaxN, MaxK, MaxI
VARIABLES h, res
IS == INSTANCE IterSchedule WITH g <- [N |-> 1], subiter <- 1, perm <- << >>, block <- << >>, hist <- << >>, crashed <- FALSE
Hs == { x \in [algo : {"OSMAPOSL", "OSSPS"}, N : 1 .. MaxN, startSubset : {0}, startSubiter : 1 .. MaxK, numSubiters : 1 .. MaxK,
               randomise : {FALSE}, save : 1 .. MaxK, iuInt : 0 .. MaxI, hasIU : BOOLEAN, iiInt : 0 .. MaxI, hasII : BOOLEAN, hasPF : BOOLEAN,
               report : 0 .. MaxI, writeUpdate : BOOLEAN, disableOutput : BOOLEAN] :
          /\ ~IS!SetupMustFail(x)
          /\ (x.iuInt = 0 => ~x.hasIU) /\ (x.iiInt = 0 => ~x.hasII) /\ (x.algo = "OSSPS" => (x.iuInt = 0 /\ ~x.hasIU)) }
Init == h \in Hs /\ res = "todo"
Next == res = "todo" /\ res' = (IF IS!EvTheorems(h) THEN "holds" ELSE "fails") /\ UNCHANGED h
Spec == Init /\ [][Next]_<< h, res >>
InvEvents == res # "fails"
=============================================================================
