---------------------------- MODULE Trace_MLNorm ----------------------------
(* Trace validation / replay for C20: every line recorded from the real      *)
(* stir/ML_norm.h functions must be explained by MLNorm.tla.  Fan data live   *)
(* in named registers (the driver's FanProjData objects); a line names its    *)
(* source registers and logs its result, so every line is an independent      *)
(* check "result = F(registers, arguments)".  Unexplained lines are collected *)
(* in `bad' (known findings are told from new violations by Classify).        *)
EXTENDS MLNorm, TraceLib
VARIABLES l, g, memo, regs, prov, kl, mle, bad

vars == << l, g, memo, regs, prov, kl, mle, bad >>
NoCfg == [N |-> 0]
NoMemo == [none |-> TRUE]
HasMemo == "cells" \in DOMAIN memo
CfgOf(r) == [N |-> r.N, R |-> r.R, pbT |-> r.pbT, vT |-> r.vT, pbA |-> r.pbA, vA |-> r.vA,
             maxSeg |-> r.maxSeg, minTang |-> r.minTang, maxTang |-> r.maxTang]
GeoOf(r) == [PA |-> r.geoPA, PT |-> r.geoPT]

V(mm, ee) == [m |-> mm, e |-> ee]
SameShape(a, n) == Len(a.m) = n /\ Len(a.e) = n

\* the implementation's own description of scanner and data must be a legal configuration
ConfigBasics(r) ==
  LET c == CfgOf(r) IN
  /\ r.minSeg = -r.maxSeg /\ r.numViews = r.N \div 2
  /\ LegalFanConfig(c)
  /\ r.nbT = NbT(c) /\ r.nbA = NbA(c)
  /\ (r.geo => LegalGeo(FanGeomOf(c), GeoOf(r)))
  /\ (r.block => LegalFanGeom(BlockGeomOf(c)))

MemoOf(r) ==
  LET c == CfgOf(r)
      fg == FanGeomOf(c)
      cells == CellSeq(fg)
      raOff == RaOff(fg)
      segOff == SegOff(c)
      bins == BinSeq(c)
      gp == GeoOf(r)
      slotOff == IF r.geo THEN SlotOff(fg, gp) ELSE << >>
      slots == IF r.geo THEN SlotSeq(fg, gp) ELSE << >>
      bg == BlockGeomOf(c)
  IN [fg |-> fg, cells |-> cells, raOff |-> raOff, segOff |-> segOff, bins |-> bins, numBins |-> Len(bins),
      binIdx |-> [ i \in 1..Len(cells) |-> LET b == BinOfCell(c, cells[i]) IN IF b = NoBin THEN 0 ELSE BinIndex(c, segOff, b) ],
      cellIdx |-> [ j \in 1..Len(bins) |->
                      IF ~UsedBin(c, bins[j]) THEN -1
                      ELSE IF IsGapPair(c, PairOfBin(c, bins[j])) THEN 0
                      ELSE IF IsCell(fg, CellOfBin(c, bins[j])) THEN CellIndex(fg, raOff, CellOfBin(c, bins[j])) ELSE -2 ],
      swapIdx |-> [ i \in 1..Len(cells) |-> CellIndex(fg, raOff, SwapCell(cells[i])) ],
      once |-> [ i \in 1..Len(cells) |-> PairOnce(cells[i]) ],
      stored |-> [ i \in 1..Len(cells) |-> Stored(cells[i]) ],
      gp |-> gp, slots |-> slots, slotOff |-> slotOff,
      slotsOf |-> IF r.geo THEN [ i \in 1..Len(cells) |-> SlotsOfCell(fg, gp, slotOff, cells[i]) ] ELSE << >>,
      cellsOf |-> IF r.geo THEN [ n \in 1..Len(slots) |-> CellsOfSlot(fg, gp, raOff, slots[n]) ] ELSE << >>,
      \* without gap removal: the entries of every crystal (virtual ones included) and their bins
      fgFull |-> FullFanGeomOf(c), raOffFull |-> RaOff(FullFanGeomOf(c)),
      binIdxFull |-> LET cf == CellSeq(FullFanGeomOf(c)) IN
                     [ i \in 1..Len(cf) |-> LET b == BinOfCell(NoGaps(c), cf[i]) IN IF b = NoBin THEN 0 ELSE BinIndex(c, segOff, b) ],
      bg |-> bg,
      bcells |-> IF r.block THEN CellSeq(bg) ELSE << >>,
      blkOff |-> IF r.block THEN RaOff(bg) ELSE << >>]
\* the tables of the memo are sound and complete w.r.t. the declarative maps of MLNorm.tla (theorems
\* M2, M3 re-checked on this very configuration: every used bin without virtual crystal has an entry,
\* an entry that claims a bin is that bin's entry or the exchanged one, and none is missed)
MemoOk(mm) ==
  /\ \A j \in 1..Len(mm.bins) : mm.cellIdx[j] # -2
  /\ \A i \in 1..Len(mm.cells) : mm.binIdx[i] > 0 =>
        /\ mm.cellIdx[mm.binIdx[i]] > 0
        /\ mm.cellIdx[mm.binIdx[i]] \in { i, mm.swapIdx[i] }
  /\ Cardinality({ i \in 1..Len(mm.cells) : mm.binIdx[i] > 0 }) = 2 * Cardinality({ j \in 1..Len(mm.bins) : mm.cellIdx[j] > 0 })

Reg(n) == regs[n]
HasReg(n) == n \in DOMAIN regs
NCells == Len(memo.cells)
\* a register that holds fan data of the current configuration
FanReg(n) == HasReg(n) /\ SameShape(Reg(n), NCells)

(* ----------------------------- conversions ----------------------------- *)
\* "each entry is the value of the bin that the geometry assigns to that detector pair" (entries
\* without a used bin keep the 0 the fan data is created with); size of the fan data
MakeFanOk(r) ==
  LET D == V(r.dm, r.de)  out == V(r.m, r.ex) IN
  /\ r.fanR = memo.fg.R /\ r.fanN = memo.fg.N /\ r.fanMd = memo.fg.md
  /\ r.fanMinB0 = memo.fg.N \div 2 - memo.fg.h /\ r.fanMaxB0 = memo.fg.N \div 2 + memo.fg.h
  /\ SameShape(D, memo.numBins) /\ SameShape(out, NCells)
  /\ \A i \in 1..NCells :
        ValAt(out, i) = (IF memo.binIdx[i] = 0 THEN Zero ELSE ValAt(D, memo.binIdx[i]))
\* "... and back is lossless ... and gaps are filled as requested" (bins outside the used
\* tangential range -Hfs..Hfs are not part of the fan representation: not constrained)
SetFanOk(r) ==
  LET F == Reg(r.src)  out == V(r.m, r.ex)  gap == << r.gm, r.ge >> IN
  /\ FanReg(r.src) /\ SameShape(out, memo.numBins)
  /\ \A j \in 1..memo.numBins :
        CASE memo.cellIdx[j] > 0 -> ValAt(out, j) = ValAt(F, memo.cellIdx[j])
          [] memo.cellIdx[j] = 0 -> ValAt(out, j) = gap
          [] OTHER -> TRUE

(* ------------------------------- apply --------------------------------- *)
\* un-applying with the factors that were applied "restores the data": when the source register is
\* the result of applying the same factors to register s0, the result must equal s0
RestoresOk(r, op, arg, out) ==
  (r.src \in DOMAIN prov /\ prov[r.src].op = op /\ prov[r.src].arg = arg /\ ~r.apply) =>
     out = prov[r.src].orig
ApplyEffOk(r) ==
  LET out == V(r.m, r.ex) IN
  /\ FanReg(r.src) /\ SameShape(out, NCells) /\ Len(r.x) = memo.fg.R * memo.fg.N
  /\ \A i \in 1..NCells : ValAt(out, i) = ApplyEffAt(memo.fg, memo.cells, Reg(r.src), r.x, IF r.apply THEN 1 ELSE -1, i)
  /\ RestoresOk(r, "eff", r.x, out)
ApplyGeoOkT(r) ==
  LET out == V(r.m, r.ex)  G == V(r.gm, r.ge) IN
  /\ FanReg(r.src) /\ SameShape(out, NCells) /\ SameShape(G, Len(memo.slots))
  /\ ApplyGeoOk(Reg(r.src), G, memo.slotsOf, out, r.apply)
  /\ RestoresOk(r, "geo", G, out)
ApplyBlockOkT(r) ==
  LET out == V(r.m, r.ex)  B == V(r.bm, r.be) IN
  /\ FanReg(r.src) /\ SameShape(out, NCells) /\ SameShape(B, Len(memo.bcells))
  /\ ApplyBlockOk(g, memo.cells, memo.blkOff, Reg(r.src), B, out, r.apply)
  /\ RestoresOk(r, "block", B, out)

(* ----------------------------- iterations ------------------------------ *)
FanSumsOkT(r) ==
  LET S == V(r.m, r.ex) IN
  /\ FanReg(r.src) /\ SameShape(S, memo.fg.R * memo.fg.N)
  /\ FanSumsOk(memo.fg, memo.raOff, Reg(r.src), S)
\* "For data generated exactly from a model, the model parameters are a fixed point of the
\* maximum-likelihood iterations".  The hypothesis is verified here, not assumed: the fan sums given
\* to the iteration must be those of model * eff * eff.
IterEffOk(r) ==
  LET out == V(r.m, r.ex)  S == V(r.sm, r.se)  n == memo.fg.R * memo.fg.N
  IN /\ FanReg(r.model) /\ SameShape(out, n) /\ SameShape(S, n) /\ Len(r.x) = n
     \* hypothesis (else the line is not explained): S = fan sums of model * eff * eff
     /\ FanSumsOkF(memo.fg, memo.raOff, LAMBDA i : ApplyEffAt(memo.fg, memo.cells, Reg(r.model), r.x, 1, i), S)
     /\ out = EffOfExp(r.x)                                      \* fixed point (theorem F1: the update relation returns it)
\* geometric factors: data = model * factor(class) with factors constant on classes; the update
\* (make_geo_data of the data, then iterate_geo_norm against the model) returns the factor for every
\* slot that is itself an entry of the fan data and whose class has only non-zero model entries
IterGeoOk(r) ==
  LET out == V(r.m, r.ex)  G == V(r.gm, r.ge)  M == Reg(r.model)  D == Reg(r.data) IN
  /\ FanReg(r.model) /\ FanReg(r.data) /\ SameShape(out, Len(memo.slots)) /\ SameShape(G, Len(memo.slots))
  /\ ClassConsistent(G, memo.slotsOf)                             \* hypotheses
  /\ SameShape(D, NCells) /\ \A i \in 1..NCells : ValAt(D, i) = ApplyGeoAt(M, G, memo.slotsOf, i)
  /\ \A n \in 1..Len(memo.slots) :
        (IsCell(memo.fg, memo.slots[n]) /\ \A i \in memo.cellsOf[n] : M.m[i] # 0) => ValAt(out, n) = ValAt(G, n)
\* block factors: the same with the block pairs (factors symmetric in the two blocks)
IterBlockOk(r) ==
  LET out == V(r.m, r.ex)  B == V(r.bm, r.be)  M == Reg(r.model)  D == Reg(r.data)  nb == Len(memo.bcells) IN
  /\ FanReg(r.model) /\ FanReg(r.data) /\ SameShape(out, nb) /\ SameShape(B, nb)
  /\ BlockSymmetric(memo.bcells, memo.blkOff, memo.bg, B)         \* hypotheses
  /\ SameShape(D, NCells) /\ \A i \in 1..NCells : ValAt(D, i) = ApplyBlockAt(g, memo.cells, memo.blkOff, M, B, i)
  /\ \A n \in 1..nb :
        LET cs == { i \in 1..NCells : BlockOfCell(g, memo.cells[i]) \in { memo.bcells[n], SwapCell(memo.bcells[n]) } } IN
        (cs # {} /\ \A i \in cs : M.m[i] # 0) => ValAt(out, n) = ValAt(B, n)

(* ------------------------------ KL descent ----------------------------- *)
\* "every efficiency iteration leaves the Kullback-Leibler distance between symmetric data and the
\* product model no larger than before".  r.cells: KL(data, model) of every entry (fixed point 2^-16,
\* recorded from the library's scalar KL); TLC sums them with every detector pair counted once.
\* r.lib: the library's own KL(FanProjData, FanProjData) (fixed point 2^-18).
KLStartOk(r) ==
  LET Y == Reg(r.data)  M == Reg(r.model) IN
  /\ FanReg(r.data) /\ FanReg(r.model)
  /\ \A i \in 1..NCells : ValAt(Y, i) = ValAt(Y, memo.swapIdx[i])          \* symmetric data
  /\ \A i \in 1..NCells : M.m[i] = 0 => Y.m[i] = 0
OnceSum(r) == SumMasked(r.cells, memo.once, 1, Len(r.cells))
StoredSum(r) == SumMasked(r.cells, memo.stored, 1, Len(r.cells))
NOnce == Cardinality({ i \in 1..NCells : memo.once[i] })
KLShape(r) == Len(r.cells) = NCells /\ r.fx = 16 /\ r.libfx = 18 /\ \A i \in 1..NCells : r.cells[i] >= 0
KLOnceOk(r) == kl.has => OnceSum(r) <= kl.once + KLTol(NOnce, 16)
KLLibOk(r) == kl.has => r.lib <= kl.lib + KLTol(2 * NOnce, 18)
\* what the library's KL sums: every stored value, i.e. the pairs inside one ring twice
KLLibIsStoredSum(r) == Abs(r.lib - 4 * StoredSum(r)) <= 4 * (2 * NOnce) + 4
KLStepOk(r) == KLShape(r) /\ KLOnceOk(r) /\ KLLibOk(r)

\* fan sums straight from the projection data: for every crystal (virtual ones included) the sum of the
\* used bins that contain it
ProjFanSumsOk(r) ==
  LET S == V(r.m, r.ex)  D == Reg(r.pd)  n == g.R * g.N IN
  /\ HasReg(r.pd) /\ SameShape(S, n) /\ SameShape(D, memo.numBins)
  /\ FanSumsOkF(memo.fgFull, memo.raOffFull,
                LAMBDA i : IF memo.binIdxFull[i] = 0 THEN Zero ELSE << D.m[memo.binIdxFull[i]], D.e[memo.binIdxFull[i]] >>, S)
\* fan sums of the efficiencies alone (model 1 on every entry of the fan), and their fixed point
EffSumsHyp(r, S) ==
  /\ r.md = memo.fg.md /\ r.h = memo.fg.h /\ Len(r.x) = memo.fg.R * memo.fg.N /\ SameShape(S, memo.fg.R * memo.fg.N)
  /\ FanSumsOkF(memo.fg, memo.raOff,
                LAMBDA i : << 1, r.x[EffIdx(memo.fg, memo.cells[i][1], memo.cells[i][2])] + r.x[EffIdx(memo.fg, memo.cells[i][3], memo.cells[i][4])] >>, S)
EffFanSumsOk(r) == EffSumsHyp(r, V(r.m, r.ex))
IterEffNoModelOk(r) == EffSumsHyp(r, V(r.sm, r.se)) /\ V(r.m, r.ex) = EffOfExp(r.x)
\* the 2D interface
DetPairOk(r) ==
  LET out == V(r.m, r.ex)  D == Reg(r.pd)  w == 2 * H2(g) + 1 IN
  /\ HasReg(r.pd) /\ SameShape(D, memo.numBins)
  /\ r.seg \in 0..g.maxSeg /\ r.ax \in 0..(NAx(g, r.seg) - 1)
  /\ r.n = g.N /\ r.minA = 0 /\ r.maxA = g.N - 1 /\ r.minB0 = g.N \div 2 - H2(g) /\ r.maxB0 = g.N \div 2 + H2(g)
  /\ SameShape(out, g.N * w)
  /\ \A i \in 1..(g.N * w) :
        LET a == (i - 1) \div w  b == (a + g.N \div 2 + ((i - 1) % w) - H2(g)) % g.N
            bin == DetPairBin(g, r.seg, r.ax, a, b)
        IN /\ bin.seg # 9998
           /\ ValAt(out, i) = (IF bin = NoBin THEN Zero ELSE ValAt(D, BinIndex(g, memo.segOff, bin)))
SetDetPairOk(r) ==
  LET dp == V(r.dm, r.de)  pos == V(r.pm, r.pe)  neg == V(r.nm, r.ne)  nt == NTang(g)  nv == g.N \div 2 IN
  /\ SameShape(dp, g.N * (2 * H2(g) + 1)) /\ SameShape(pos, nv * nt) /\ SameShape(neg, nv * nt)
  /\ \A j \in 1..(nv * nt) :
        LET d == VT2D(g.N, (j - 1) \div nt, g.minTang + ((j - 1) % nt)) IN
        /\ ValAt(pos, j) = ValAt(dp, DetPairEntryIndex(g, d[1], d[2]))
        /\ ValAt(neg, j) = (IF r.seg = 0 THEN ValAt(pos, j) ELSE ValAt(dp, DetPairEntryIndex(g, d[2], d[1])))
(* -------- the whole estimation: ML_estimate_component_based_normalisation -------- *)
\* An MLE line describes one call (measured data, model, options); the MLEStep lines that follow give, for the
\* state after every component step (each efficiency iteration, the geometric step, the block step of every outer
\* iteration), what the function wrote (read back by the library's readers).
\* exact instance: measured = 4^k * model, i.e. data generated exactly from the product model with efficiencies 2^k
\* and geometric / block factors 1 - the parameters the function starts from; "the model parameters are a fixed
\* point of the maximum-likelihood iterations": every written estimate is that parameter.
CrystalHasData(M, n) == \E i \in FanLo(memo.fg, memo.raOff, (n - 1) \div memo.fg.N, (n - 1) % memo.fg.N)..FanHi(memo.fg, memo.raOff, (n - 1) \div memo.fg.N, (n - 1) % memo.fg.N) : M.m[i] # 0
MLEOk(r) ==
  /\ ~r.thr
  /\ FanReg(r.data) /\ FanReg(r.model) /\ g # NoCfg /\ Len(memo.slots) > 0 /\ BlockLegal(g)
  /\ r.niter >= 1 /\ r.neff >= 1
  /\ (r.exact => \A i \in 1..NCells : ValAt(Reg(r.data), i) = Shift(ValAt(Reg(r.model), i), 2 * r.k))      \* hypothesis
MLEExactOk(r) ==
  LET M == Reg(mle.model)  out == V(r.m, r.ex) IN
  CASE r.kind = "eff" ->
         /\ SameShape(out, memo.fg.R * memo.fg.N)
         /\ \A n \in 1..(memo.fg.R * memo.fg.N) : ValAt(out, n) = (IF CrystalHasData(M, n) THEN << 1, mle.k >> ELSE Zero)
    [] r.kind = "geo" ->
         /\ SameShape(out, Len(memo.slots))
         /\ \A n \in 1..Len(memo.slots) :
               (IsCell(memo.fg, memo.slots[n]) /\ \A i \in memo.cellsOf[n] : M.m[i] # 0) => ValAt(out, n) = << 1, 0 >>
    [] r.kind = "block" ->
         /\ SameShape(out, Len(memo.bcells))
         /\ \A n \in 1..Len(memo.bcells) :
               LET cs == { i \in 1..NCells : BlockOfCell(g, memo.cells[i]) \in { memo.bcells[n], SwapCell(memo.bcells[n]) } } IN
               (cs # {} /\ \A i \in cs : M.m[i] # 0) => ValAt(out, n) = << 1, 0 >>
    [] OTHER -> FALSE
\* dyadic data: distance after every component step from the recorded KL of every entry.
\*  - an efficiency iteration leaves the distance with every pair counted once no larger, as long as the model it
\*    works with is symmetric in the two crystals (first outer iteration: factors 1; or no geometric / block step);
\*  - the block step sets every stored block factor to (sum of the data) / (sum of the model) over the stored entries
\*    it applies to: the exact maximiser for the likelihood whose terms are the STORED entries, so the distance over
\*    the stored entries gets no larger.  (No such statement for the geometric step: not demanded.)
\* Tolerance: fixed-point rounding of the recorded values + the 6 significant digits of the result files
\* (relative 2^-14 of (sum of data + sum of model), r.tot) + single precision.
MLETol(r) == KLTol(NCells, 16) + 4 * r.tot
MLEApproxOk(r) ==
  /\ Len(r.cells) = NCells /\ r.fx = 16 /\ r.tot >= 0 /\ r.tot < 100000 /\ \A i \in 1..NCells : r.cells[i] >= 0
  /\ (mle.has /\ r.kind = "eff" /\ (r.it = 1 \/ (~mle.doGeo /\ ~mle.doBlock))) => OnceSum(r) <= mle.once + MLETol(r)
  /\ (mle.has /\ r.kind = "block") => StoredSum(r) <= mle.stored + MLETol(r)
\* the steps come in the order the function performs them
MLEOrderOk(r) ==
  /\ mle.on
  /\ r.kind \in {"eff", "geo", "block"}
  /\ << r.it, r.kind, r.j >> = mle.next
MLENext(r) == IF r.kind = "eff" THEN (IF r.j < mle.neff THEN << r.it, "eff", r.j + 1 >> ELSE << r.it, "geo", 0 >>)
              ELSE IF r.kind = "geo" THEN << r.it, "block", 0 >>
              ELSE << r.it + 1, "eff", 1 >>
MLEStepOk(r) == MLEOrderOk(r) /\ r.it <= mle.niter /\ (IF mle.exact THEN MLEExactOk(r) ELSE MLEApproxOk(r))

\* BinNormalisationPETFromComponents: "the detection efficiency of a crystal pair is modelled as eff_i eff_j g_ij B_ij";
\* bins with a virtual crystal have efficiency 0.  Whatever the object's history (allocated for another geometry,
\* factors changed through the accessors between set_ups), after set_up the efficiency of every bin is the product
\* of the CURRENT factors.
NormEffOk(r) ==
  LET out == V(r.m, r.ex)
      G == IF r.hasGeo THEN V(r.gm, r.ge) ELSE << >>
      B == IF r.hasBlock THEN V(r.bm, r.be) ELSE << >>
  IN /\ SameShape(out, memo.numBins) /\ Len(r.x) = memo.fg.R * memo.fg.N
     /\ (r.hasGeo => Len(memo.slots) > 0 /\ SameShape(G, Len(memo.slots)) /\ ClassConsistent(G, memo.slotsOf))
     /\ (r.hasBlock => BlockLegal(g) /\ SameShape(B, Len(memo.bcells)) /\ Len(memo.bcells) > 0 /\ BlockSymmetric(memo.bcells, memo.blkOff, memo.bg, B))
     /\ \A j \in 1..memo.numBins :
           CASE memo.cellIdx[j] > 0 ->
                  LET i == memo.cellIdx[j]
                      v1 == IF r.hasBlock THEN ValAt(B, CellIndex(memo.bg, memo.blkOff, BlockOfCell(g, memo.cells[i]))) ELSE << 1, 0 >>
                      v2 == Shift(v1, r.x[EffIdx(memo.fg, memo.cells[i][1], memo.cells[i][2])] + r.x[EffIdx(memo.fg, memo.cells[i][3], memo.cells[i][4])])
                      v3 == IF r.hasGeo THEN Times(v2, ValAt(G, CHOOSE s \in memo.slotsOf[i] : TRUE)) ELSE v2
                  IN ValAt(out, j) = v3
             [] memo.cellIdx[j] = 0 -> ValAt(out, j) = Zero
             [] OTHER -> TRUE

\* a call that is announced must return (the line after the announcement is its record)
BeginOk(r) == l < Len(TraceLog) /\ TraceLog[l + 1].e = r.what

Explains(r) ==
  CASE r.e = "Config" -> ConfigBasics(r)
    [] r.e = "ConfigRejected" -> FALSE
    [] r.e = "Load" -> SameShape(V(r.m, r.ex), NCells)      \* a register filled by the driver (an input)
    [] r.e = "Begin" -> BeginOk(r)
    [] r.e = "MakeFan" -> MakeFanOk(r)
    [] r.e = "SetFan" -> SetFanOk(r)
    [] r.e = "ProjFanSums" -> ProjFanSumsOk(r)
    [] r.e = "DetPair" -> DetPairOk(r)
    [] r.e = "SetDetPair" -> SetDetPairOk(r)
    [] r.e = "ApplyEff" -> ApplyEffOk(r)
    [] r.e = "ApplyGeo" -> ApplyGeoOkT(r)
    [] r.e = "ApplyBlock" -> ApplyBlockOkT(r)
    [] r.e = "FanSums" -> FanSumsOkT(r)
    [] r.e = "EffFanSums" -> EffFanSumsOk(r)
    [] r.e = "IterEff" -> IterEffOk(r)
    [] r.e = "IterEffNoModel" -> IterEffNoModelOk(r)
    [] r.e = "IterGeo" -> IterGeoOk(r)
    [] r.e = "IterBlock" -> BlockLegal(g) /\ IterBlockOk(r)
    [] r.e = "KLStart" -> KLStartOk(r)
    [] r.e = "KLStep" -> KLStepOk(r)
    [] r.e = "Reuse" -> TRUE        \* history marker: the object filled next held other data before (nothing to judge)
    [] r.e = "NormEff" -> NormEffOk(r)
    [] r.e = "MLE" -> MLEOk(r)
    [] r.e = "MLEStep" -> MLEStepOk(r)
    [] OTHER -> FALSE

\* known finding C20-kl-inplane: KL(FanProjData, FanProjData) counts the detector pairs inside one
\* ring twice, so with more than one ring it is not the distance the efficiency update descends and
\* can increase although the distance with every pair counted once does not
\* known finding C20-block-samepair: block data (dimensioned as ML_estimate_component_based_normalisation does:
\* all OTHER blocks) has no entry for two crystals of the same block; when the fan is wide enough to contain such
\* pairs apply_block_norm reads outside the block data (the call does not return under the sanitizer, or
\* multiplies by whatever it read)
Classify(r) ==
  IF g = NoCfg \/ ~HasMemo THEN "new"
  ELSE IF r.e = "KLStep" THEN
     (IF KLShape(r) /\ KLOnceOk(r) /\ ~KLLibOk(r) /\ memo.fg.R > 1 /\ KLLibIsStoredSum(r) THEN "C20-kl-inplane" ELSE "new")
  ELSE IF (r.e = "ApplyBlock" \/ (r.e = "Begin" /\ r.what = "ApplyBlock")) /\ ~BlockLegal(g) THEN "C20-block-samepair"
  \* the process ended inside the announced call
  ELSE IF r.e = "Abort" /\ l > 1 /\ TraceLog[l - 1].e = "Begin" /\ TraceLog[l - 1].what = "ApplyBlock" /\ ~BlockLegal(g) THEN "C20-block-samepair"
  ELSE "new"

Init == l = 1 /\ g = NoCfg /\ memo = NoMemo /\ regs = << >> /\ prov = << >> /\ kl = [has |-> FALSE] /\ mle = [on |-> FALSE] /\ bad = << >>
Writes(r) == r.e \in {"MakeFan", "ApplyEff", "ApplyGeo", "ApplyBlock", "Load"}
Next ==
  /\ l <= Len(TraceLog)
  /\ LET r == TraceLog[l]
         isCfg == r.e = "Config"
         cfgOk == isCfg /\ ConfigBasics(r)
         mm == IF cfgOk THEN MemoOf(r) ELSE NoMemo
         okr == IF isCfg THEN cfgOk /\ MemoOk(mm)
                ELSE IF g = NoCfg \/ ~HasMemo THEN FALSE ELSE Explains(r)
         cls == IF okr THEN "ok" ELSE IF isCfg THEN "new" ELSE Classify(r)
     IN /\ g' = IF isCfg THEN (IF cfgOk THEN CfgOf(r) ELSE NoCfg) ELSE g
        /\ memo' = IF isCfg THEN mm ELSE memo
        \* the registers take the LOGGED results, so that a wrong line does not make the following ones wrong
        /\ regs' = IF isCfg THEN << >>
                   ELSE IF r.e = "MakeFan" /\ HasMemo THEN (r.dst :> V(r.m, r.ex)) @@ (r.pd :> V(r.dm, r.de)) @@ regs
                   ELSE IF Writes(r) /\ HasMemo THEN (r.dst :> V(r.m, r.ex)) @@ regs
                   ELSE regs
        /\ prov' = IF isCfg THEN << >>
                   ELSE IF ~Writes(r) \/ ~HasMemo THEN prov
                   ELSE IF r.e = "ApplyEff" /\ r.apply /\ HasReg(r.src) THEN (r.dst :> [op |-> "eff", arg |-> r.x, orig |-> Reg(r.src)]) @@ prov
                   ELSE IF r.e = "ApplyGeo" /\ r.apply /\ HasReg(r.src) THEN (r.dst :> [op |-> "geo", arg |-> V(r.gm, r.ge), orig |-> Reg(r.src)]) @@ prov
                   ELSE IF r.e = "ApplyBlock" /\ r.apply /\ HasReg(r.src) THEN (r.dst :> [op |-> "block", arg |-> V(r.bm, r.be), orig |-> Reg(r.src)]) @@ prov
                   ELSE (r.dst :> [op |-> "none"]) @@ prov
        /\ kl' = IF isCfg \/ r.e = "KLStart" THEN [has |-> FALSE]
                 ELSE IF r.e = "KLStep" /\ HasMemo /\ Len(r.cells) = Len(memo.cells) THEN [has |-> TRUE, once |-> OnceSum(r), lib |-> r.lib]
                 ELSE kl
        /\ mle' = IF isCfg THEN [on |-> FALSE]
                  ELSE IF r.e = "MLE" THEN (IF HasMemo /\ g # NoCfg /\ MLEOk(r) THEN [on |-> TRUE, has |-> FALSE, exact |-> r.exact, k |-> r.k, model |-> r.model, doGeo |-> r.doGeo,
                                                                       doBlock |-> r.doBlock, niter |-> r.niter, neff |-> r.neff, next |-> << 1, "eff", 1 >>]
                                            ELSE [on |-> FALSE])
                  ELSE IF r.e = "MLEStep" /\ mle.on /\ HasMemo /\ r.kind \in {"eff", "geo", "block"}
                       THEN IF mle.exact \/ Len(r.cells) # NCells THEN [mle EXCEPT !.next = MLENext(r)]
                            ELSE [once |-> OnceSum(r), stored |-> StoredSum(r)] @@ [mle EXCEPT !.next = MLENext(r), !.has = TRUE]
                  ELSE mle
        /\ bad' = IF okr THEN bad
                  ELSE IF cls = "new" THEN (IF Len(SelectSeq(bad, LAMBDA z : z[2] = "new")) < 200 THEN Append(bad, << l, cls >>) ELSE bad)
                  ELSE (IF Len(SelectSeq(bad, LAMBDA z : z[2] = cls)) < 20 THEN Append(bad, << l, cls >>) ELSE bad)
  /\ l' = l + 1
Spec == Init /\ [][Next]_vars

Done == l > Len(TraceLog) => (bad = << >> \/ PrintT(<< "UNEXPLAINED", bad >>))
Consumed == IF TLCGet("stats").diameter - 1 = Len(TraceLog) THEN TRUE
            ELSE PrintT(<< "REJECTED_AT", TLCGet("stats").diameter >>) /\ FALSE
=============================================================================
