------------------------------ MODULE OSMAPOSL ------------------------------
(* C07 - OSMAPOSL sub-iterations follow the EM / one-step-late update and    *)
(* are restartable.                                                          *)
(*                                                                           *)
(* One sub-iteration on subset S maps the image lambda to                    *)
(*                                                                           *)
(*    lambda'_v = 0                                     if s_S(v) = 0        *)
(*              = lambda_v * G_S(v) / D_S(v)            otherwise            *)
(*                                                                           *)
(*    G_S = P_S^T ( y / (P lambda + a) )     ("gradient plus sensitivity",   *)
(*                                            PoissonLL.tla)                 *)
(*    s_S = what the objective function reports as sensitivity of subset S:  *)
(*          P_S^T n, or P^T n / num_subsets when use_subset_sensitivities    *)
(*          is off (the documented approximation for balanced subsets)       *)
(*    D_S = s_S                                          without prior       *)
(*        = clamp(s_S + g/num_subsets, s_S/10, 10 s_S)   MAP_model additive  *)
(*        = s_S * clamp(1 + g, 1/10, 10)           MAP_model multiplicative  *)
(*    g   = gradient of the prior at lambda (the CURRENT image: one step     *)
(*          late), penalisation factor included                              *)
(*                                                                           *)
(* (OSMAPOSLReconstruction.cxx/.h: "lambda_new = lambda / (p_v + beta*prior_ *)
(*  gradient/num_subsets) * sum_subset backproj(measured/forwproj(lambda))   *)
(*  with p_v = sum_{b in subset} p_bv; actually, we restrict 1 + beta*prior_ *)
(*  gradient/num_subsets/p_v between .1 and 10"; multiplicative: "lambda /   *)
(*  (p_v*(1 + beta*prior_gradient)) ... we restrict 1 + beta*prior_gradient  *)
(*  between .1 and 10".)                                                     *)
(*                                                                           *)
(* P, a, n = 2^ef and y are the integers of PoissonLL.tla; images are fixed  *)
(* point numbers with IK fractional bits, prior gradients with GK.  All      *)
(* arithmetic is exact integer arithmetic with explicit floors (ShlDiv,      *)
(* MulShr) arranged so that every intermediate stays below 2^31; the error   *)
(* of the floors and of the fixed-point records of the inputs is bounded by  *)
(* the second components below (first order, doubled in StepVoxel).          *)
(*                                                                           *)
(*   sys : the system (PoissonLL.tla)                                        *)
(*   I   : [N, startSubset, uss, a, ef, prior (0 none, 1 quadratic, 2 RDP),  *)
(*          mult, iuf, iif, zero (zero_seg0_end_planes), maxSeg (resolved    *)
(*          max_segment_num_to_process)]                                     *)
(*   st  : SensTab(sys, I), memoised by the caller                           *)
(*   prev: image before the sub-iteration, scale 2^IK; el: bound on the      *)
(*         error of each of its elements (0 for an exact integer image)      *)
(*   y   : data (integers);  g: prior gradient at prev, scale 2^GK;          *)
(*   eg  : bound on the error of its elements                                *)
EXTENDS PoissonLL, TLC

IK == 12
GK == 8
LK == 10
P2IK == 4096
P2GK == 256
QMax == 128              \* the law is only evaluated where y_b / d_b <= QMax (far below the 10^4 clamp of divide_and_truncate)
ImgMax == 16777216       \* 2^24: images up to 4096
GradMax == 4194304       \* 2^22: prior gradients up to 16384
Huge == 1073741824       \* 2^30: saturation value

Min2(a, b) == IF a <= b THEN a ELSE b
Max2(a, b) == IF a >= b THEN a ELSE b

(* floor(a * 2^n / d)  for a >= 0, 0 < d < 2^28 (three bits at a time: (a % d) * 8 < 2^31) *)
RECURSIVE ShlDiv(_, _, _)
ShlDiv(a, d, n) ==
  IF n = 0 THEN a \div d
  ELSE LET s == IF n >= 3 THEN 3 ELSE n IN
       (a \div d) * 2^n + ShlDiv((a % d) * 2^s, d, n - s)

(* the same, saturating at Huge instead of overflowing when the result would be >= 2^30 *)
ShlDivSat(a, d, n) == IF a \div d >= 2^(30 - n) THEN Huge ELSE ShlDiv(a, d, n)
MulSat(x, c) == IF x >= Huge \div c THEN Huge ELSE x * c
Sat(x) == Min2(x, Huge - 1)

(* floor(a * b / 2^20) (at most 2 below it) for 0 <= a < 2^24, 0 <= b < 2^30, by 15-bit limbs; saturates at Huge *)
MulShr20(a, b) ==
  LET a1 == a \div 32768  a0 == a % 32768
      b1 == b \div 32768  b0 == b % 32768
  IN IF a1 * b1 >= 524288 THEN Huge
     ELSE a1 * b1 * 1024 + (a1 * b0 + a0 * b1) \div 32 + (a0 * b0) \div 1048576

-----------------------------------------------------------------------------
(* The schedule (IterativeReconstruction.h: "subset_num = (subiteration_num + start_subset_num - 1) % num_subsets"     *)
(* when the order is not randomised).                                                                                  *)
SubsetAt(I, k) == (k + I.startSubset - 1) % I.N
(* "subiteration interval at which to apply inter-update filters" / inter-iteration filters                            *)
IufFires(I, k) == I.iuf > 0 /\ k % I.iuf = 0
IifFires(I, k) == I.iif > 0 /\ k % I.iif = 0
Filtered(I, k) == IufFires(I, k) \/ IifFires(I, k)

(* OSMAPOSL refuses subsets that are not balanced ("OSMAPOSL cannot handle this"); with the trivial symmetries of the   *)
(* explicit matrix subset s holds the views minView + s, minView + s + N, ...                                          *)
Balanced(sys, N) == N >= 1 /\ N <= sys.numViews /\ sys.numViews % N = 0

(* sensitivities in units of 1/SC: st[1] = total, st[s + 2] = subset s; only the bins PoissonLL.tla calls used take     *)
(* part (max_segment_num_to_process = I.maxSeg, zero_seg0_end_planes = I.zero)                                         *)
UsedTab(sys, I) == [used |-> [b \in 1..NB(sys) |-> UsedBin(sys, I, b)]]
SensTab(sys, I) == LET m == UsedTab(sys, I) IN [si \in 1..(I.N + 1) |-> [v \in 1..sys.nv |-> Sens(sys, I, m, si - 2, v)]]
(* subset sensitivity as reported: s_S = SensNum / (SC * SensDiv) *)
SensNum(I, st, s, v) == IF I.uss THEN st[s + 2][v] ELSE st[1][v]
SensDiv(I) == IF I.uss THEN 1 ELSE I.N

-----------------------------------------------------------------------------
(* per-bin terms of a sub-iteration *)
RowSumW(sys, b) == Sum([i \in 1..Len(sys.rows[b]) |-> sys.rows[b][i][2]])
DFx(sys, I, prev, b) == RowDot(sys.rows[b], prev) + I.a[b] * P2IK               \* (P lambda + a)_b, scale 2^IK
QFx(sys, I, prev, y, b) ==                                                       \* y_b / d_b, scale 2^IK
  IF y[b] = 0 THEN 0 ELSE ShlDiv(y[b], DFx(sys, I, prev, b), 2 * IK)
(* the bins the law needs are inside its domain: counts only where the mean is positive, quotient <= QMax *)
BinInDomain(sys, I, prev, y, b) ==
  y[b] = 0 \/ (LET d == DFx(sys, I, prev, b) IN d > 0 /\ d < 268435456 /\ y[b] < 65536 /\ y[b] * (P2IK \div QMax) <= d)
(* error bound of QFx given a bound el on the error of every element of prev (plus floor and float rounding) *)
EQFx(sys, I, prev, y, el, b) ==
  IF y[b] = 0 THEN 0
  ELSE LET d == DFx(sys, I, prev, b)
           ed == el * RowSumW(sys, b)
           \* the floor in QFx loses nothing when d is an integer that divides y (exact instances)
           fl == IF d % P2IK = 0 /\ y[b] % (d \div P2IK) = 0 THEN 0 ELSE 1
       IN (QFx(sys, I, prev, y, b) * ed) \div (d - ed) + fl

InS(sys, I, b, s) == UsedBin(sys, I, b) /\ (View(sys, b) - sys.minView) % I.N = s          \* bin b takes part in subset s
(* the whole step is within the range of this arithmetic ... *)
StepInDomain(sys, I, prev, y, g, s) ==
  /\ \A v \in 1..sys.nv : prev[v] >= 0 /\ prev[v] < ImgMax
  /\ (I.prior # 0 => \A v \in 1..sys.nv : Abs(g[v]) < GradMax)
  /\ \A b \in 1..NB(sys) : RowSumW(sys, b) <= 12 /\ y[b] >= 0
(* ... and so are the bins voxel v depends on.  (A bin with counts but mean 0 - every voxel it sees is 0 and there is   *)
(* no additive term - is met by the quotient clamp of divide_and_truncate; it only contributes to voxels that are 0     *)
(* and stay 0, see VoxelVerdict.)                                                                                      *)
VoxelInDomain(sys, I, prev, y, s, v) ==
  \A i \in 1..Len(sys.cols[v]) : LET b == sys.cols[v][i][1] IN InS(sys, I, b, s) => BinInDomain(sys, I, prev, y, b)

(* G_S(v), scale 2^IK, and its error bound *)
GFx(sys, I, prev, y, s, v) ==
  Sum([i \in 1..Len(sys.cols[v]) |->
         LET b == sys.cols[v][i][1] IN IF InS(sys, I, b, s) THEN sys.cols[v][i][2] * QFx(sys, I, prev, y, b) ELSE 0])
EGFx(sys, I, prev, y, el, s, v) ==
  Sum([i \in 1..Len(sys.cols[v]) |->
         LET b == sys.cols[v][i][1] IN IF InS(sys, I, b, s) THEN sys.cols[v][i][2] * EQFx(sys, I, prev, y, el, b) ELSE 0])

-----------------------------------------------------------------------------
(* The multiplicative update G/D of a voxel, scale 2^RK: <<value, error bound>> (Huge: 1024 or more).                  *)
(* sn, sd: s_S = sn / (SC sd); G, eG as above (scale 2^IK); gv = prior gradient (scale 2^GK), eg its error bound.       *)
(* RK - IK = 8 extra bits:  G/D * 2^RK = G * 2^8 / D                                                                    *)
EMRatio(sn, sd, G, eG) ==
  << MulSat(ShlDivSat(G, sn, 12), sd), MulSat(ShlDivSat(eG, sn, 12) + 1, sd) + 1 >>

(* additive MAP model.  In units of 1/U, U = SC * N * 2^GK (sd is 1 or N):                                              *)
(*    s_S = sN = sn * (N / sd) * 2^GK,     s_S + g/N = Dn = sN + gv * SC,     G/D = G * U / Dn                          *)
AddRatio(I, sn, sd, G, eG, gv, eg) ==
  LET sN == sn * (I.N \div sd) * P2GK
      Dn == sN + gv * SC
      eDn == eg * SC
      \* the clamp is continuous: where the recorded gradient puts D within its error of a bound, the true D may be on the
      \* other side of it, which moves G/D by at most R eDn / D
      near(R, bound) == IF eDn > 0 /\ Abs(Dn - bound) <= eDn + 1 THEN Sat(MulSat(R \div Max2(bound - eDn, 1) + 1, eDn + 1)) ELSE 0
  IN IF Dn <= (sN - 1) \div 10                                      \* s_S + g/N < s_S/10:  D = s_S/10
       THEN LET R == MulSat(ShlDivSat(G, sn, 12), sd * 10)
            IN << R, Sat(MulSat(ShlDivSat(eG, sn, 12) + 1, sd * 10)) + near(Sat(R), sN \div 10) + 1 >>
     ELSE IF Dn > 10 * sN                                           \* s_S + g/N > 10 s_S:  D = 10 s_S
       THEN LET R == MulSat(ShlDivSat(G, sn * 10, 12), sd)
            IN << R, Sat(MulSat(ShlDivSat(eG, sn * 10, 12) + 1, sd)) + near(Sat(R), 10 * sN) + 1 >>
     ELSE LET R == MulSat(ShlDivSat(G, Dn, 12 + GK), I.N)
          IN << R, Sat(IF Dn > 2 * eDn THEN MulSat(Sat(R) \div (Dn - eDn) + 1, eDn + 1) ELSE Huge)
                   + Sat(MulSat(ShlDivSat(eG, Dn, 12 + GK) + 1, I.N)) + 1 >>

(* multiplicative MAP model: D = s_S * m,  m = 1 + g restricted to [1/10, 10];  M = m * 2^GK *)
MultRatio(I, sn, sd, G, eG, gv, eg) ==
  LET M == P2GK + gv
      near(R, bound) == IF eg > 0 /\ Abs(M - bound) <= eg + 1 THEN Sat(MulSat(R \div Max2(bound - eg, 1) + 1, eg + 1)) ELSE 0
  IN
  IF M <= (P2GK - 1) \div 10
    THEN LET R == MulSat(ShlDivSat(G, sn, 12), sd * 10)
         IN << R, Sat(MulSat(ShlDivSat(eG, sn, 12) + 1, sd * 10)) + near(Sat(R), P2GK \div 10) + 1 >>
  ELSE IF M > 10 * P2GK
    THEN LET R == MulSat(ShlDivSat(G, sn * 10, 12), sd)
         IN << R, Sat(MulSat(ShlDivSat(eG, sn * 10, 12) + 1, sd)) + near(Sat(R), 10 * P2GK) + 1 >>
  ELSE LET R == MulSat(ShlDivSat(G, sn * M, 12 + GK), sd)
       IN << R, Sat(MulSat(Sat(R) \div (M - eg) + 1, eg + 1)) + Sat(MulSat(ShlDivSat(eG, sn * M, 12 + GK) + 1, sd)) + 1 >>

Ratio(I, sn, sd, G, eG, gv, eg) ==
  IF I.prior = 0 THEN EMRatio(sn, sd, G, eG)
  ELSE IF I.mult THEN MultRatio(I, sn, sd, G, eG, gv, eg)
  ELSE AddRatio(I, sn, sd, G, eG, gv, eg)

(* the new value of voxel v after a sub-iteration on subset s, scale 2^IK: <<value, tolerance>>; a component >= Huge    *)
(* means "outside the range this arithmetic can evaluate"                                                              *)
StepVoxel(sys, I, st, prev, y, el, g, eg, s, v) ==
  LET sn == SensNum(I, st, s, v) IN
  IF sn = 0 THEN << 0, 0 >>                       \* "zero where the subset sensitivity is zero"
  ELSE LET G == GFx(sys, I, prev, y, s, v)
           eG == EGFx(sys, I, prev, y, el, s, v)
           R == Ratio(I, sn, SensDiv(I), G, eG, IF I.prior = 0 THEN 0 ELSE g[v], eg)
       IN IF R[1] >= Huge \/ R[2] >= Huge THEN << Huge, Huge >>
          ELSE LET E == MulShr20(prev[v], R[1])
                   eE == Sat(MulShr20(prev[v], R[2])) + el * (R[1] \div 1048576 + 1) + 3
               IN << E, IF eE >= Huge \div 4 THEN Huge ELSE 2 * eE + 2 + Sat(E) \div 65536 >>

(* 0: the recorded value o is the law applied to prev; 1: it is not; 2: outside the range of the arithmetic.             *)
(* zp: the old value of the voxel is exactly zero (then the new one is: the update is a finite factor)                 *)
VoxelVerdict(sys, I, st, prev, y, el, g, eg, s, v, o, zp) ==
  IF zp THEN (IF o = 0 THEN 0 ELSE 1)
  ELSE IF ~VoxelInDomain(sys, I, prev, y, s, v) THEN 2
  ELSE LET e == StepVoxel(sys, I, st, prev, y, el, g, eg, s, v) IN
       IF e[1] >= Huge \/ e[2] >= Huge THEN 2
       ELSE IF o >= e[1] - e[2] /\ o <= e[1] + e[2] THEN 0 ELSE 1

(* "non-negative images stay non-negative" *)
NonNegative(out) == \A v \in 1..Len(out) : out[v] >= 0

(* "zero where the subset sensitivity s_S is zero" (also with a prior and with the inter-update filter: the update is 0) *)
ZeroWhereInsensitive(sys, I, st, s, out) == \A v \in 1..sys.nv : SensNum(I, st, s, v) = 0 => out[v] = 0

(* "without additive term the sensitivity-weighted image sum equals the total of the measured counts after every      *)
(* full-data update":  SUM_v s(v) lambda'_v = SUM_b y_b, provided counts occur only where the mean is positive.         *)
(* eo = bound on the error of each element of out.                                                                     *)
(* ("measured counts" = the counts in the bins that take part: excluded segments and zeroed end planes do not count)     *)
CountsSeen(sys, I, prev, y) == \A b \in 1..NB(sys) : (UsedBin(sys, I, b) /\ y[b] > 0) => RowDot(sys.rows[b], prev) > 0
UsedCounts(sys, I, y) == Sum([b \in 1..NB(sys) |-> IF UsedBin(sys, I, b) THEN y[b] ELSE 0])
PreservesCounts(sys, I, st, y, out, eo) ==
  LET T == UsedCounts(sys, I, y) * P2IK
      tol == Sum([v \in 1..sys.nv |-> (st[1][v] \div SC + 1) * eo + 2]) + T \div 65536
  IN /\ UsedCounts(sys, I, y) < 16384
     \* each term alone is bounded by the total (and cannot overflow below)
     /\ \A v \in 1..sys.nv : out[v] >= 0 /\ (st[1][v] > 0 => out[v] <= ((T + tol) \div st[1][v] + 1) * SC)
     /\ Abs(Sum([v \in 1..sys.nv |-> (out[v] \div SC) * st[1][v] + ((out[v] % SC) * st[1][v]) \div SC]) - T) <= tol

(* "with a single subset the Poisson log-likelihood never decreases" (recorded values, scale 2^LK; the tolerance       *)
(* covers the rounding of the records and the single-precision forward projections inside the value)                  *)
LLTol(L0, L1) == 2 + (Abs(L0) + Abs(L1)) \div 131072
LLNotDecreased(L0, L1) == L1 >= L0 - LLTol(L0, L1)

(* an exact instance: integer image, data y_b = q_b d_b *)
ExactStep(sys, I, lam, y) ==
  /\ Len(lam) = sys.nv /\ Len(y) = NB(sys)
  /\ \A v \in 1..sys.nv : lam[v] \in 0..64
  /\ \A b \in 1..NB(sys) :
       LET d == RowDot(sys.rows[b], lam) + I.a[b] IN
       /\ y[b] >= 0 /\ y[b] < 65536
       /\ (d = 0 => y[b] = 0)
       /\ (d > 0 => y[b] % d = 0 /\ y[b] \div d <= 16)

InstanceOk7(sys, I) ==
  /\ I.N >= 1 /\ I.startSubset \in 0..(I.N - 1)
  /\ Len(I.a) = NB(sys) /\ Len(I.ef) = NB(sys)
  /\ \A b \in 1..NB(sys) : I.a[b] \in 0..16 /\ I.ef[b] \in -2..0
  /\ I.prior \in 0..2 /\ I.iuf >= 0 /\ I.iif >= 0

-----------------------------------------------------------------------------
(* Scale.  The update law has two exact scaling properties:                                                            *)
(*   (S1) without prior, scaling the image AND the additive term by c leaves the new image unchanged:                   *)
(*        d = P(c lambda) + c a = c d,  G -> G/c,  lambda' = (c lambda)(G/c)/s_S;                                        *)
(*   (S2) without additive term, scaling the data by c scales the new image by c (also with a prior: D does not        *)
(*        depend on the data).                                                                                         *)
(* For c = 2^k every floating-point operation of the implementation commutes with the scaling (no rounding is          *)
(* affected), so the recorded images must agree BIT FOR BIT up to the exponent shift - provided the documented          *)
(* thresholds of divide_and_truncate are not met at either scale (they are the only scale-dependent operations):       *)
(*   "set quotient to min(numerator/denominator, max_quotient)", max_quotient = 10000: y_b 2^kd <= 2^13 d_b 2^ki;       *)
(*   "we think num was really 0" for num <= 1e-6 * (maximum of the NUMERATOR viewgram): every count y_b >= 1 and        *)
(*   max y < 10^6, at any data scale (the threshold scales with the data);                                             *)
(* and nothing leaves the range of normal floats.                                                                      *)
(* ki: exponent of the image (and additive term) scale, kd: exponent of the data scale.                                 *)
QuotientBelowClamp(sys, I, lam, y, ki, kd) ==
  \A b \in 1..NB(sys) :
     (UsedBin(sys, I, b) /\ y[b] > 0) =>
        LET d == RowDot(sys.rows[b], lam) + I.a[b] IN
        /\ d > 0
        /\ IF kd >= ki THEN y[b] * 2^(kd - ki) <= 8192 * d ELSE y[b] <= 8192 * d * 2^Min2(ki - kd, 10)
CountsAboveThreshold(y) == \A b \in 1..Len(y) : y[b] = 0 \/ (y[b] >= 1 /\ y[b] < 1000000)
ScaleDomain(sys, I, lam, y, ki, kd) ==
  /\ ki \in -24..24 /\ kd \in -24..24
  /\ QuotientBelowClamp(sys, I, lam, y, 0, 0) /\ QuotientBelowClamp(sys, I, lam, y, ki, kd)
  /\ CountsAboveThreshold(y)
(* which scalings the law is covariant under *)
ScaleApplies(I, ki, kd, noAdditive) == (ki # 0 => I.prior = 0) /\ (kd # 0 => noAdditive) /\ I.iuf = 0 /\ I.iif = 0
(* raw float bits <<high 16 bits, low 16 bits>> per voxel, multiplied by 2^k: zero stays zero, otherwise the exponent field   *)
(* (bits 7..14 of the high limb) moves by k and must stay a normal exponent                                             *)
IsZeroBits(h, lo) == h % 32768 = 0 /\ lo = 0
ShiftOk(h, lo, k) == IsZeroBits(h, lo) \/ ((h % 32768) \div 128 + k) \in 1..254
ShiftBits(bits, k) == << [v \in 1..Len(bits[1]) |-> IF IsZeroBits(bits[1][v], bits[2][v]) THEN bits[1][v] ELSE bits[1][v] + 128 * k], bits[2] >>
ShiftAllOk(bits, k) == \A v \in 1..Len(bits[1]) : ShiftOk(bits[1][v], bits[2][v], k)

-----------------------------------------------------------------------------
(* Restart.  What a sub-iteration does to an image is decided by its subset, by whether the update is thresholded      *)
(* (all sub-iterations but number 1) and by which filters fire.  All of it is a function of the ABSOLUTE sub-iteration  *)
(* number, which is why a run resumed with "start at subiteration number" = k+1 (and the same "start at subset") from   *)
(* the image saved after k repeats the uninterrupted run - provided nothing else touches the image on the way.          *)
Tag(I, k) == << SubsetAt(I, k), k # 1, IufFires(I, k), IifFires(I, k) >>
=============================================================================
