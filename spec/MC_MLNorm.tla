----------------------------- MODULE MC_MLNorm -----------------------------
(* Model check of MLNorm.tla itself.                                        *)
(* Family "geo": one initial state per small legal configuration (with and  *)
(* without virtual crystals, symmetric and off-by-one tangential ranges),   *)
(* one step per theorem about the fan representation (M0-M5).               *)
(* Family "ml": tiny scanners with every assignment of efficiency exponents *)
(* (and two models): the algebra of apply / un-apply and the fixed-point    *)
(* theorems of the ML updates (F1-F4).                                      *)
EXTENDS MLNorm
CONSTANTS MaxN, MaxR, MaxCellsM5, MlN, MlR, MlLow, Families,
          Shrink     \* 0; 1 = negative model: fan data with a half fan size one too small (must violate M2)
MlExp == (-MlLow)..1     \* exponents of the efficiencies in the exhaustive part
VARIABLES mode, g, k, memo, memo2, x,
          res    \* verdict of the theorem evaluated in the step that led here (theorems are evaluated inside the
                 \* action: TLC caches LET tables there, not in invariants)

vars == << mode, g, k, memo, memo2, x, res >>
FG(c) == [FanGeomOf(c) EXCEPT !.h = @ - Shrink]

Configs ==
  { c \in [N : { n \in 4..MaxN : n % 2 = 0 }, R : 1..MaxR, pbT : 1..MaxN, vT : 0..1, pbA : 1..(MaxR + 1), vA : 0..1,
           maxSeg : 0..(MaxR - 1), minTang : (-(MaxN \div 2) + 1)..0, maxTang : 0..(MaxN \div 2 - 1)] :
      /\ c.pbT <= c.N /\ c.pbA <= c.R + 1 /\ c.maxSeg <= c.R - 1
      /\ c.maxTang - 1 <= -c.minTang /\ -c.minTang <= c.maxTang + 1
      /\ c.vT < c.pbT /\ c.vA < c.pbA
      /\ c.minTang >= -(c.N \div 2) + 1 /\ c.maxTang <= c.N \div 2 - 1
      /\ LegalFanConfig(c) }

Memo(c) ==
  LET fg == FG(c)
      cells == CellSeq(fg)
      raOff == RaOff(fg)
      segOff == SegOff(c)
      bins == BinSeq(c)
  IN [cells |-> cells, raOff |-> raOff, segOff |-> segOff, bins |-> bins,
      \* index of the bin whose value entry i holds (0: none)
      binIdx |-> [ i \in 1..Len(cells) |-> LET b == BinOfCell(c, cells[i]) IN IF b = NoBin THEN 0 ELSE BinIndex(c, segOff, b) ],
      \* index of the entry that bin j is written from (0: gap, -1: outside the used part of the data)
      cellIdx |-> [ j \in 1..Len(bins) |->
                      IF ~UsedBin(c, bins[j]) THEN -1
                      ELSE IF IsGapPair(c, PairOfBin(c, bins[j])) THEN 0
                      ELSE CellIndex(fg, raOff, CellOfBin(c, bins[j])) ]]

(* ------------------------------ theorems ------------------------------- *)
\* M0: insertion of the gaps is the inverse of their removal on physical crystals
M0(c) == /\ \A a \in 0..(NPhys(c) - 1) : ~IsGapT(c, InsT(c, a)) /\ RemT(c, InsT(c, a)) = a /\ InsT(c, a) \in 0..(c.N - 1)
         /\ \A a \in 0..(c.N - 1) : ~IsGapT(c, a) => InsT(c, RemT(c, a)) = a /\ RemT(c, a) \in 0..(NPhys(c) - 1)
         /\ \A r \in 0..(RPhys(c) - 1) : ~IsGapA(c, InsA(c, r)) /\ RemA(c, InsA(c, r)) = r /\ InsA(c, r) \in 0..(c.R - 1)
         /\ \A r \in 0..(c.R - 1) : ~IsGapA(c, r) => InsA(c, RemA(c, r)) = r /\ RemA(c, r) \in 0..(RPhys(c) - 1)
\* M1: the closed form of the in-plane coordinates satisfies Geometry's (documented) interleaving
M1(c) == LET cc == [GeomOf(c) EXCEPT !.minTang = -(c.N \div 2) + 1, !.maxTang = c.N \div 2 - 1] IN
         \A a, b \in 0..(c.N - 1) : a # b =>
            LET y == InPlaneFast(c.N, a, b) IN IsInPlaneOf(cc, a, b, y.v, y.tp, y.same)
\* M2: "fan size and max ring difference after gap removal": every used bin without virtual crystal
\* has its entry inside the fan data
M2(c, mm) == \A j \in 1..Len(mm.bins) :
               (UsedBin(c, mm.bins[j]) /\ ~IsGapPair(c, PairOfBin(c, mm.bins[j]))) => IsCell(FG(c), CellOfBin(c, mm.bins[j]))
\* M3: entries <-> bins: the entry of a bin and the exchanged entry hold that bin; an entry that
\* holds a bin is the entry of that bin or the exchanged one (bijection up to the exchange)
M3(c, mm) ==
  /\ \A j \in 1..Len(mm.bins) :
       mm.cellIdx[j] > 0 =>
          /\ mm.binIdx[mm.cellIdx[j]] = j
          /\ mm.binIdx[CellIndex(FG(c), mm.raOff, SwapCell(mm.cells[mm.cellIdx[j]]))] = j
  /\ \A i \in 1..Len(mm.cells) :
       mm.binIdx[i] > 0 =>
          /\ mm.cellIdx[mm.binIdx[i]] > 0
          /\ mm.cells[mm.cellIdx[mm.binIdx[i]]] \in { mm.cells[i], SwapCell(mm.cells[i]) }
  \* the canonical orders are what the index formulas say
  /\ \A i \in 1..Len(mm.cells) : IsCell(FG(c), mm.cells[i]) /\ CellIndex(FG(c), mm.raOff, mm.cells[i]) = i
  /\ \A j \in 1..Len(mm.bins) : BinIndex(c, mm.segOff, mm.bins[j]) = j
  /\ Len(mm.bins) = NumBins(c)
\* M4: conversion to fan data and back is lossless (data with a distinct value per bin)
M4(c, mm) ==
  LET fan == [ i \in 1..Len(mm.cells) |-> IF mm.binIdx[i] = 0 THEN 0 ELSE mm.binIdx[i] ]
      back == [ j \in 1..Len(mm.bins) |-> IF mm.cellIdx[j] = -1 THEN -1 ELSE IF mm.cellIdx[j] = 0 THEN 0 ELSE fan[mm.cellIdx[j]] ]
  IN \A j \in 1..Len(mm.bins) : back[j] = (IF mm.cellIdx[j] > 0 THEN j ELSE mm.cellIdx[j])
\* M5: geometric classes (periods = physical crystals per block): every entry is represented by a
\* slot; being in the same class is an equivalence on the entries
GeoOf(c) == [PA |-> PhA(c), PT |-> PhT(c)]
M5Applies(c, mm) == LegalGeo(FanGeomOf(c), GeoOf(c)) /\ Len(mm.cells) <= MaxCellsM5
\* (tables as a state variable: computed once, one step before the theorem is checked)
Memo2(c, mm) ==
  LET fg == FanGeomOf(c)  gp == GeoOf(c) IN
  IF ~M5Applies(c, mm) THEN << >>
  ELSE [slots |-> SlotSeq(fg, gp), slotOff |-> SlotOff(fg, gp),
        \* the class of every entry as a set of entry indices; the slots of every entry
        clsOf |-> [ i \in 1..Len(mm.cells) |-> { CellIndex(fg, mm.raOff, y) : y \in { z \in ClassOf(fg, gp, mm.cells[i]) : IsCell(fg, z) } } ],
        slotsOf |-> [ i \in 1..Len(mm.cells) |-> SlotsOfCell(fg, gp, SlotOff(fg, gp), mm.cells[i]) ]]
M5(c, mm, m2) ==
  LET fg == FanGeomOf(c)  gp == GeoOf(c) IN
  M5Applies(c, mm) =>
     /\ Len(m2.slots) = NumSlots(fg, gp)
     /\ \A n \in 1..Len(m2.slots) : IsSlot(fg, gp, m2.slots[n]) /\ SlotIndex(fg, gp, m2.slotOff, m2.slots[n]) = n
     /\ \A i \in 1..Len(mm.cells) :
          /\ m2.slotsOf[i] # {}
          /\ i \in m2.clsOf[i]
          /\ \A j \in m2.clsOf[i] : m2.clsOf[j] = m2.clsOf[i] /\ m2.slotsOf[j] = m2.slotsOf[i]
     /\ \A n \in 1..Len(m2.slots) :
          \A i \in CellsOfSlot(fg, gp, mm.raOff, m2.slots[n]) : n \in m2.slotsOf[i]

(* ------------------------- ML theorems (tiny) -------------------------- *)
MlConfigs == { c \in [N : {MlN}, R : 1..MlR, pbT : {2}, vT : {0}, pbA : {1}, vA : {0}, maxSeg : 0..(MlR - 1),
                      minTang : {-(MlN \div 2) + 2}, maxTang : {MlN \div 2 - 2}] : c.maxSeg = c.R - 1 /\ LegalFanConfig(c) }
RECURSIVE NormVal(_)
NormVal(v) == IF v[1] = 0 THEN Zero ELSE IF v[1] % 2 = 0 THEN NormVal(<< v[1] \div 2, v[2] + 1 >>) ELSE v
\* a model with two different values: 1 or 2 according to the parity of the entry's unordered pair
ModelOf(cells) == MkV([ i \in 1..Len(cells) |-> << 1, (cells[i][2] + cells[i][4] + cells[i][1] * cells[i][3]) % 2 >> ], Len(cells))
SumsOfFan(fg, raOff, F) ==
  MkV([ n \in 1..(fg.R * fg.N) |-> NormVal(SumVals(F, FanLo(fg, raOff, (n - 1) \div fg.N, (n - 1) % fg.N), FanHi(fg, raOff, (n - 1) \div fg.N, (n - 1) % fg.N))) ],
      fg.R * fg.N)
\* F1: "for data generated exactly from a model, the model parameters are a fixed point of the
\* maximum-likelihood iterations" (efficiencies)
F1(c, mm, xx) ==
  LET fg == FanGeomOf(c)  M == ModelOf(mm.cells)
      D == ApplyEffS(fg, mm.cells, M, xx, 1)
      S == SumsOfFan(fg, mm.raOff, D)
  IN /\ FanSumsOk(fg, mm.raOff, D, S)
     /\ IsEffUpdate(fg, mm.cells, mm.raOff, M, S, EffOfExp(xx), EffOfExp(xx))
     \* and the update is a function: no other value for the first crystal satisfies the relation
     /\ ~IsEffUpdate(fg, mm.cells, mm.raOff, M, S, EffOfExp(xx), EffOfExp([xx EXCEPT ![1] = xx[1] + 1]))
\* F2: "un-applying restores the data"
F2(c, mm, xx) ==
  LET fg == FanGeomOf(c)  M == ModelOf(mm.cells) IN
  ApplyEffS(fg, mm.cells, ApplyEffS(fg, mm.cells, M, xx, 1), xx, -1) = M
\* F3: geometric factors constant on classes: the sums over a class of data = model * factor are the
\* factor times the sums of the model (the ML update of the geometric factors returns the factor)
F3(c, mm, xx) ==
  LET fg == FanGeomOf(c)  gp == [PA |-> 1, PT |-> c.pbT]
      slotOff == SlotOff(fg, gp)  slots == SlotSeq(fg, gp)
      slotsOf == [ i \in 1..Len(mm.cells) |-> SlotsOfCell(fg, gp, slotOff, mm.cells[i]) ]
      \* a class-consistent table from the exponents xx: the factor of a slot is taken from its smallest class member
      rep == [ n \in 1..Len(slots) |-> LET cs == CellsOfSlot(fg, gp, mm.raOff, slots[n]) IN IF cs = {} THEN 0 ELSE CHOOSE i \in cs : \A j \in cs : i <= j ]
      G == MkV([ n \in 1..Len(slots) |-> << 1, IF rep[n] = 0 THEN 0 ELSE xx[1 + (rep[n] % Len(xx))] >> ], Len(slots))
      M == ModelOf(mm.cells)
      D == ApplyGeoS(M, G, slotsOf)
  IN LegalGeo(fg, gp) =>
     /\ ClassConsistent(G, slotsOf)
     /\ ApplyGeoOk(M, G, slotsOf, D, TRUE)
     /\ ApplyGeoOk(D, G, slotsOf, M, FALSE)
     /\ \A n \in 1..Len(slots) :
          LET cs == CellsOfSlot(fg, gp, mm.raOff, slots[n]) IN
          cs # {} =>
             LET sd == SumF(LAMBDA i : IF i \in cs THEN ValAt(D, i) ELSE Zero, 1, Len(mm.cells))
                 sm == SumF(LAMBDA i : IF i \in cs THEN ValAt(M, i) ELSE Zero, 1, Len(mm.cells))
             IN EqualsSum(NormVal(<< sm[1] * G.m[n], sm[2] + G.e[n] >>), sd)
\* F4: block factors: the same for the block pairs
F4(c, mm, xx) ==
  LET fg == FanGeomOf(c)  bg == BlockGeomOf(c)
      bcells == CellSeq(bg)  blkOff == RaOff(bg)
      B0 == MkV([ n \in 1..Len(bcells) |-> << 1, xx[1 + ((bcells[n][2] + bcells[n][4] + bcells[n][1] + bcells[n][3]) % Len(xx))] >> ], Len(bcells))
      M == ModelOf(mm.cells)
      D == ApplyBlockS(c, mm.cells, blkOff, M, B0)
  IN BlockLegal(c) =>
     /\ BlockSymmetric(bcells, blkOff, bg, B0)
     /\ ApplyBlockOk(c, mm.cells, blkOff, M, B0, D, TRUE)
     /\ ApplyBlockOk(c, mm.cells, blkOff, D, B0, M, FALSE)

\* exponent assignments: all of them for one ring, a family of patterns for more
Patterns(n) == { [ i \in 1..n |-> ((i * p + (i \div 3) * q + (i \div MlN) * s) % 3) - 1 ] : p \in 0..2, q \in 0..2, s \in 0..2 }
XSet(n) == IF n <= MlN THEN [1..n -> MlExp] ELSE Patterns(n)
Init == /\ res = TRUE
        /\ \/ /\ "geo" \in Families /\ mode = "geo" /\ g \in Configs /\ k = 0 /\ memo = << >> /\ memo2 = << >> /\ x = << >>
           \/ /\ "ml" \in Families /\ mode = "ml" /\ g \in MlConfigs /\ k = 0 /\ memo = << >> /\ memo2 = << >>
              /\ x \in XSet(g.R * NPhys(g))
LoadMemo == k = 0 /\ k' = 1 /\ memo' = Memo(g) /\ UNCHANGED << mode, g, memo2, x, res >>
\* theorem number k is evaluated on the way from k to k + 1.
\* F1, F2 for every assignment; F3, F4 (distributivity over classes / block pairs) for the patterns
LastTheorem == IF mode = "geo" THEN 6 ELSE IF x \in Patterns(Len(x)) THEN 4 ELSE 2
Theorem == IF mode = "geo"
           THEN CASE k = 1 -> M0(g) [] k = 2 -> M1(g) [] k = 3 -> M2(g, memo) [] k = 4 -> M3(g, memo) [] k = 5 -> M4(g, memo) [] OTHER -> M5(g, memo, memo2)
           ELSE CASE k = 1 -> F1(g, memo, x) [] k = 2 -> F2(g, memo, x) [] k = 3 -> F3(g, memo, x) [] OTHER -> F4(g, memo, x)
NextTheorem == /\ k >= 1 /\ k <= LastTheorem /\ k' = k + 1 /\ UNCHANGED << mode, g, memo, x >>
               /\ memo2' = IF mode = "geo" /\ k = 5 THEN Memo2(g, memo) ELSE memo2
               /\ res' = Theorem
Next == LoadMemo \/ NextTheorem
Spec == Init /\ [][Next]_vars

InvM0 == (mode = "geo" /\ k = 2) => res
InvM1 == (mode = "geo" /\ k = 3) => res
InvM2 == (mode = "geo" /\ k = 4) => res
InvM3 == (mode = "geo" /\ k = 5) => res
InvM4 == (mode = "geo" /\ k = 6) => res
InvM5 == (mode = "geo" /\ k = 7) => res
InvF1 == (mode = "ml" /\ k = 2) => res
InvF2 == (mode = "ml" /\ k = 3) => res
InvF3 == (mode = "ml" /\ k = 4) => res
InvF4 == (mode = "ml" /\ k = 5) => res
=============================================================================
