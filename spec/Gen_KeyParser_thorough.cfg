INIT GenInit
NEXT GenNext
CONSTANTS MaxFull = 4 MaxLen = 5 Part = 0 NParts = 8
CHECK_DEADLOCK FALSE
