INIT GenInit
NEXT GenNext
CONSTANTS MaxFull = 4 MaxLen = 5
CHECK_DEADLOCK FALSE
