INIT GenInit
NEXT GenNext
CONSTANTS MaxFull = 3 MaxLen = 5 Part = 0 NParts = 8
CHECK_DEADLOCK FALSE
