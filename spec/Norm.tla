-------------------------------- MODULE Norm --------------------------------
(***************************************************************************)
(* C13 - bin normalisation.  "Undoing the normalisation multiplies each    *)
(* bin by one fixed positive factor, its efficiency ...; applying divides  *)
(* by the same factor, and apply followed by undo restores the data        *)
(* wherever the efficiency is non-zero, whether called on related          *)
(* viewgrams with any symmetries or on a whole data set.  A chain has the  *)
(* product of its members' efficiencies, the attenuation correction        *)
(* factors ... are the exponentials of its line integrals ..., and a       *)
(* normalisation that reports itself trivial changes nothing."             *)
(*                                                                         *)
(* Encoding E: every factor and every datum is a power of two carried as   *)
(* its integer exponent; multiplication is +, division is -.  The value 0  *)
(* (a zero efficiency, a zero datum) is the token ZERO.  Attenuation       *)
(* factors are not powers of two: they are carried as fixed-point base-2   *)
(* logarithms (LgScale units per octave, encoding F) and compared under    *)
(* the tolerances declared at the end of this module.                      *)
(*                                                                         *)
(* A data geometry G is a record                                           *)
(*   scanner, N, R (detectors per ring, rings), tofMash, views,            *)
(*   minSeg, maxSeg, ax (sequence: number of axial positions of segment    *)
(*   minSeg+i-1; axial positions and views count from 0), minTang,         *)
(*   maxTang, minTof, maxTof.                                              *)
(* A bin is [seg, view, ax, tang, tof].                                    *)
(*                                                                         *)
(* A normalisation object is a record with field cls:                      *)
(*   "None"    absent member of a chain                                    *)
(*   "Trivial" TrivialBinNormalisation                                     *)
(*   "PD"      BinNormalisationFromProjData: g (geometry of the factor     *)
(*             data), tab (5-d table of exponents n: the stored datum is   *)
(*             2^n).  apply MULTIPLIES by the stored datum, undo DIVIDES   *)
(*             (class documentation), hence efficiency = 2^-n.  Non-TOF    *)
(*             factors serve every TOF bin of TOF data.                    *)
(*   "Cal"     a BinNormalisationWithCalibration: g, tab (uncalibrated     *)
(*             efficiency exponents or ZERO), calib, br (exponents of the  *)
(*             calibration factor and the branching ratio); efficiency =   *)
(*             uncalibrated / (calib * br); apply/undo are the base-class  *)
(*             defaults in terms of get_bin_efficiency.                    *)
(*   "Comp"    BinNormalisationPETFromComponents: g, hasEff/eff (ring x    *)
(*             detector exponents), hasGeo/geo (exponent of a uniform      *)
(*             geometric factor), hasBlk/blk (block-pair exponents), apb,  *)
(*             tpb (crystals per block axially / transaxially);            *)
(*             efficiency of a bin of uncompressed data = eps_i eps_j      *)
(*             g_ij B_ij of its detector pair.                             *)
(*   "Att"     BinNormalisationFromAttenuationImage: img (id of the        *)
(*             attenuation image, whose recorded table of lg ACF is held   *)
(*             by the trace specification), projsym (the symmetries of     *)
(*             its forward projector).  apply multiplies by the ACF, undo  *)
(*             divides: efficiency = 1 / ACF = exp(-integral of mu).       *)
(*   "Chain"   ChainedBinNormalisation: first, second.                     *)
(***************************************************************************)
EXTENDS Geometry

ZERO == -99999           \* the value 0
NOTPOW == 77777          \* a recorded value that is not a power of two (never explained)
IsExp(x) == x > -2000 /\ x < 2000

(* ------------------------------ values ---------------------------------- *)
MulV(d, e) == IF d = ZERO \/ e = ZERO THEN ZERO ELSE d + e
\* division by a non-zero factor
DivV(d, e) == IF d = ZERO THEN ZERO ELSE d - e
NegV(e) == IF e = ZERO THEN ZERO ELSE -e

\* "undoing the normalisation multiplies each bin by ... its efficiency"
UndoOk(din, dout, e) == IsExp(e) \/ e = ZERO => dout = MulV(din, e)
\* "applying divides by the same factor" - nothing is promised where the efficiency is zero
ApplyOk(din, dout, e) == e = ZERO \/ dout = DivV(din, e)

(* ----------------------------- geometries ------------------------------- *)
Bin5(s, v, a, t, k) == [seg |-> s, view |-> v, ax |-> a, tang |-> t, tof |-> k]
NumAxOf(G, s) == G.ax[s - G.minSeg + 1]
InGeom(G, b) == /\ b.seg >= G.minSeg /\ b.seg <= G.maxSeg
                /\ b.view >= 0 /\ b.view < G.views
                /\ b.ax >= 0 /\ b.ax < NumAxOf(G, b.seg)
                /\ b.tang >= G.minTang /\ b.tang <= G.maxTang
                /\ b.tof >= G.minTof /\ b.tof <= G.maxTof
BinsOf(G) == { b \in [seg : G.minSeg..G.maxSeg, view : 0..(G.views - 1), ax : 0..(2 * G.R), tang : G.minTang..G.maxTang,
                      tof : G.minTof..G.maxTof] : b.ax < NumAxOf(G, b.seg) }
IsTof(G) == G.tofMash > 0
\* same acquisition system and angular / TOF sampling (everything operator== compares except the index ranges)
SameSystem(A, B) == /\ A.scanner = B.scanner /\ A.N = B.N /\ A.R = B.R /\ A.views = B.views /\ A.tofMash = B.tofMash
                    /\ A.minTof = B.minTof /\ A.maxTof = B.maxTof
GeomEq(A, B) == /\ SameSystem(A, B) /\ A.minSeg = B.minSeg /\ A.maxSeg = B.maxSeg /\ A.ax = B.ax
                /\ A.minTang = B.minTang /\ A.maxTang = B.maxTang
\* ProjDataInfo::operator>= : B's index ranges lie inside A's, everything else equal
Geq(A, B) == /\ SameSystem(A, B)
             /\ B.minSeg >= A.minSeg /\ B.maxSeg <= A.maxSeg
             /\ B.minTang >= A.minTang /\ B.maxTang <= A.maxTang
             /\ \A s \in B.minSeg..B.maxSeg : NumAxOf(B, s) <= NumAxOf(A, s)
NonTofClone(G) == [G EXCEPT !.tofMash = 0, !.minTof = 0, !.maxTof = 0]

At5(tab, G, b) == tab[b.seg - G.minSeg + 1][b.view + 1][b.ax + 1][b.tang - G.minTang + 1][b.tof - G.minTof + 1]

(* ------------------- detector pair of a bin (uncompressed) -------------- *)
\* span 1, no view mashing: one ring pair and one detector pair per bin (Geometry.tla, theorem T5)
GCfg(G) == [N |-> G.N, R |-> G.R, span |-> 1, ge |-> FALSE, maxDelta |-> G.R - 1, mash |-> 1, tofMash |-> G.tofMash,
            maxT |-> 0, minTang |-> G.minTang, maxTang |-> G.maxTang, minSeg |-> G.minSeg, maxSeg |-> G.maxSeg]
RingPairOfBin(G, b) == CHOOSE rp \in RingPairsFast(GCfg(G), b.seg, b.ax) : TRUE
DetPairOfBin(G, b) == VT2D(G.N, b.view, b.tang)

(* ------------------------------ efficiency ------------------------------ *)
CompEff(o, b) ==
  LET rp == RingPairOfBin(o.g, b)
      dp == DetPairOfBin(o.g, b)
      e1 == IF ~o.hasEff THEN 0 ELSE o.eff[rp[1] + 1][dp[1] + 1]
      e2 == IF ~o.hasEff THEN 0 ELSE o.eff[rp[2] + 1][dp[2] + 1]
      gg == IF ~o.hasGeo THEN 0 ELSE o.geo
      bb == IF ~o.hasBlk THEN 0
            ELSE o.blk[(rp[1] \div o.apb) + 1][(dp[1] \div o.tpb) + 1][(rp[2] \div o.apb) + 1][(dp[2] \div o.tpb) + 1]
  IN MulV(MulV(e1, e2), MulV(gg, bb))

\* exact classes; attenuation members are handled by EffLg below
RECURSIVE Eff(_, _)
Eff(o, b) ==
  CASE o.cls = "None" -> 0
    [] o.cls = "Trivial" -> 0
    [] o.cls = "PD" -> NegV(At5(o.tab, o.g, IF IsTof(o.g) THEN b ELSE [b EXCEPT !.tof = 0]))
    [] o.cls = "Cal" -> DivV(At5(o.tab, o.g, b), o.calib + o.br)
    [] o.cls = "Comp" -> CompEff(o, b)
    [] o.cls = "Chain" -> MulV(Eff(o.first, b), Eff(o.second, b))     \* "a chain has the product of its members' efficiencies"

RECURSIVE HasAtt(_)
HasAtt(o) == CASE o.cls = "Att" -> TRUE
               [] o.cls = "Chain" -> HasAtt(o.first) \/ HasAtt(o.second)
               [] OTHER -> FALSE

LgScale == 65536
\* efficiency as a fixed-point base-2 logarithm; attT[img] = recorded table (geometry G) of lg ACF of image img
RECURSIVE EffLg(_, _, _, _)
EffLg(o, b, attT, G) ==
  CASE o.cls = "Att" -> -At5(attT[o.img], G, b)
    [] o.cls = "Chain" -> EffLg(o.first, b, attT, G) + EffLg(o.second, b, attT, G)
    [] OTHER -> LgScale * Eff(o, b)

\* "equals the efficiency the object reports for that bin where it reports one": FromProjData and
\* FromAttenuationImage do not implement get_bin_efficiency (they raise an error), a chain reports the
\* product of what its members report
RECURSIVE Reports(_)
Reports(o) == CASE o.cls \in {"PD", "Att"} -> FALSE
                [] o.cls = "Chain" -> Reports(o.first) /\ Reports(o.second)
                [] OTHER -> TRUE

\* all factors of the object are 1
AllTab(tab, x) == \A s \in 1..Len(tab) : \A v \in 1..Len(tab[s]) : \A a \in 1..Len(tab[s][v]) : \A t \in 1..Len(tab[s][v][a]) :
                     \A k \in 1..Len(tab[s][v][a][t]) : tab[s][v][a][t][k] = x
RECURSIVE AllOne(_)
AllOne(o) ==
  CASE o.cls \in {"None", "Trivial"} -> TRUE
    [] o.cls = "PD" -> AllTab(o.tab, 0)
    [] o.cls = "Cal" -> AllTab(o.tab, o.calib + o.br)
    [] o.cls = "Comp" -> /\ (~o.hasEff \/ \A r \in 1..Len(o.eff) : \A d \in 1..Len(o.eff[r]) : o.eff[r][d] = 0)
                         /\ (~o.hasGeo \/ o.geo = 0)
                         /\ (~o.hasBlk \/ \A a \in 1..Len(o.blk) : \A t \in 1..Len(o.blk[a]) : \A c \in 1..Len(o.blk[a][t]) :
                                                \A u \in 1..Len(o.blk[a][t][c]) : o.blk[a][t][c][u] = 0)
    [] o.cls = "Chain" -> AllOne(o.first) /\ AllOne(o.second)
    [] OTHER -> FALSE
\* what is_trivial() may answer: "a normalisation that reports itself trivial changes nothing", i.e. an answer
\* `true' requires that every factor is 1.  Documented answers beyond that: TrivialBinNormalisation -> true;
\* PETFromComponents -> "checks if all components are 1" (so `false' is wrong there when they are).
TrivialAnswerOk(o, val) ==
  CASE o.cls = "Trivial" -> val
    [] o.cls = "Comp" -> val = AllOne(o)
    [] OTHER -> val => AllOne(o)

(* ------------------------------ set-up FSM ------------------------------ *)
\* su: [st |-> "none"] (never set up, or set-up flag cleared), [st |-> "failed"] (set_up reported failure) or
\* [st |-> "ok", g |-> geometry of set_up]
NotSetUp == [st |-> "none"]
SetUpFailed == [st |-> "failed"]
SetUpWith(G) == [st |-> "ok", g |-> G]
\* can the object serve data of geometry G ?
PDCompat(ng, G) ==
  LET P == IF ~IsTof(ng) /\ IsTof(G) THEN NonTofClone(G) ELSE G IN
  \/ GeomEq(ng, P)
  \/ /\ Geq(ng, P) /\ ng.minTang = P.minTang /\ ng.maxTang = P.maxTang
     /\ \A s \in P.minSeg..P.maxSeg : NumAxOf(ng, s) = NumAxOf(P, s)
RECURSIVE SetUpMustSucceed(_, _)
SetUpMustSucceed(o, G) ==
  CASE o.cls = "PD" -> PDCompat(o.g, G)
    [] o.cls = "Comp" -> GeomEq(o.g, G)
    [] o.cls = "Att" -> ~IsTof(G) /\ G.tofMash = 0      \* documented limitation: non-TOF data only
    [] o.cls = "Chain" -> SetUpMustSucceed(o.first, G) /\ SetUpMustSucceed(o.second, G)
    [] OTHER -> TRUE
\* outcome of set_up(G): success is required exactly when the object can serve G; otherwise it must say so
SetUpOutcomeOk(o, G, ok, err) == IF SetUpMustSucceed(o, G) THEN ok /\ ~err ELSE ~ok \/ err

\* does a call on related viewgrams reach a class that checks the set-up state?  (Trivial has nothing to check:
\* its apply/undo are empty; a chain delegates to its members)
RECURSIVE ChecksOnViewgrams(_)
ChecksOnViewgrams(o) == CASE o.cls \in {"None", "Trivial"} -> FALSE
                          [] o.cls = "Chain" -> ChecksOnViewgrams(o.first) \/ ChecksOnViewgrams(o.second)
                          [] OTHER -> TRUE
\* "required": the call must raise an error; "forbidden": it must not; "either": an error is acceptable, and
\* if there is none the data must be right
ErrMode(o, su, G, whole) ==
  IF su.st = "failed" THEN "either"
  ELSE IF su.st = "none" \/ ~Geq(su.g, G)
       THEN (IF whole \/ ChecksOnViewgrams(o) THEN "required" ELSE "either")
  ELSE IF GeomEq(su.g, G) THEN "forbidden"
  ELSE "either"                    \* a smaller geometry than the one of set_up passes the check
ErrOk(mode, err) == (mode = "required" => err) /\ (mode = "forbidden" => ~err)

(* ---------------- implementation-shaped application --------------------- *)
\* A set of related viewgrams: vg = sequence of <<seg, view, tof>>, d[i][a][t] = datum of viewgram i at axial
\* position a-1 and tangential position G.minTang+t-1.  The classes work viewgram-wise:
\*  - FromProjData multiplies by the related viewgrams of the factor data taken at the BASIC timing position when
\*    the factors are TOF and at timing position 0 otherwise;
\*  - the base-class default (here: Cal) builds the bin of every element and asks get_bin_efficiency;
\*  - PETFromComponents multiplies by its internal efficiency data (timing position 0);
\*  - a chain applies its first member, then its second member.
ElemBin(G, vg, i, a, t) == Bin5(vg[i][1], vg[i][2], a - 1, G.minTang + t - 1, vg[i][3])
ViewgramFactor(o, G, vg, i, a, t) ==
  CASE o.cls = "PD" -> LET k == IF IsTof(o.g) THEN vg[1][3] ELSE 0
                       IN NegV(At5(o.tab, o.g, [ElemBin(G, vg, i, a, t) EXCEPT !.tof = k]))
    [] o.cls = "Cal" -> Eff(o, ElemBin(G, vg, i, a, t))
    [] o.cls = "Comp" -> CompEff(o, [ElemBin(G, vg, i, a, t) EXCEPT !.tof = 0])
MapElems(d, f(_, _, _, _)) == [i \in 1..Len(d) |-> [a \in 1..Len(d[i]) |-> [t \in 1..Len(d[i][a]) |-> f(d[i][a][t], i, a, t)]]]
RECURSIVE ImplOp(_, _, _, _, _)
ImplOp(o, op, G, vg, d) ==
  CASE o.cls \in {"None", "Trivial"} -> d
    [] o.cls = "Chain" -> ImplOp(o.second, op, G, vg, ImplOp(o.first, op, G, vg, d))
    [] OTHER -> LET f(x, i, a, t) == IF op = "undo" THEN MulV(x, ViewgramFactor(o, G, vg, i, a, t))
                                     ELSE DivV(x, ViewgramFactor(o, G, vg, i, a, t))
                IN MapElems(d, f)

(* ------------------------------ tolerances (encoding F) ----------------- *)
\* recorded lg values are round(log2(v) * LgScale): half a unit each; single-precision data: 2^-23 relative.
OpTol == 4        \* out = in -/+ lg ACF: three roundings + one float multiplication/division + exp evaluated twice
HomTol == 12      \* lg ACF(mu1+mu2) = lg ACF(mu1) + lg ACF(mu2): float accumulation of two line integrals (<= 4 octaves)
ChordTol == 24    \* closed form along an axis-parallel chord: rational log2(e), float exp, float line integral
\* log2(e) = 1.442695 as a ratio of integers small enough for 32-bit intermediates (relative error 3.7e-5)
Log2eNum == 11819
Log2eDen == 8192
\* expected lg ACF for mu = mu16 / 2^16 cm^-1 along a chord of lenMM millimetres:
\* integral = mu * (lenMM / 10) cm ("attenuation map given in cm^-1"), lg = integral * log2(e) * LgScale
\* (32-bit arithmetic: applicable while the integral stays below 2.7, i.e. ACF < 15)
ChordApplicable(mu16, lenMM) == mu16 >= 0 /\ lenMM >= 0 /\ mu16 < 60000 /\ lenMM < 30000 /\ (mu16 * lenMM) \div 10 < 180000
ChordLg(mu16, lenMM) == (((mu16 * lenMM) \div 10) * Log2eNum) \div Log2eDen
Within(x, y, tol) == x - y <= tol /\ y - x <= tol
=============================================================================
