--------------------------- MODULE MC_IterSchedule ---------------------------
(* Model check of IterSchedule.tla: all (N, start subset, start sub-iteration, randomise) with  *)
(* N <= MaxN over Iters full iterations (also runs that stop inside a full iteration).          *)
EXTENDS IterSchedule
CONSTANTS MaxN, Iters
Scheds == { x \in [N : 1 .. MaxN, startSubset : 0 .. MaxN - 1, startSubiter : 1 .. MaxN * Iters,
                   numSubiters : 1 .. MaxN * Iters, randomise : BOOLEAN] :
              /\ LegalSched(x) /\ x.startSubiter <= x.N * Iters
              /\ x.numSubiters \in { x.N * Iters, x.N * Iters - 1 } }
Init == InitFor(Scheds)
Spec == Init /\ [][NextSubiter]_vars
SpecUnfixed == Init /\ [][NextSubiterUnfixed]_vars
\* the history is an observation: states are identified without it
View == << g, subiter, perm, block, crashed >>
=============================================================================
