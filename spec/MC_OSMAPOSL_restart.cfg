SPECIFICATION SpecR
CONSTANTS MaxLam = 1 NumPatterns = 1 MaxN = 4 MaxIters = 3 Renumber = FALSE Eip = FALSE
INVARIANTS RestartEq SchedOnce
CHECK_DEADLOCK FALSE
