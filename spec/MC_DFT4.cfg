SPECIFICATION Spec
CONSTANTS MaxLin = 16 MaxPair = 8
INVARIANTS InvInverse InvImpulse InvAxes InvFFT InvReal InvParseval InvConv
CHECK_DEADLOCK FALSE
