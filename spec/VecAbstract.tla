----------------------------- MODULE VecAbstract -----------------------------
(***************************************************************************)
(* C11 -- offset vectors as index-range maps.                              *)
(*                                                                         *)
(* A vector is a map from its current index range lo..hi to values.  The   *)
(* system under specification consists of two vector objects (slots 1, 2)  *)
(* and one block of external memory `blk' that vectors may VIEW (share).   *)
(* Every public call of VectorWithOffset<T> / NumericVectorWithOffset<T> / *)
(* Array<1,T> is one operation record `op'; Apply(ty, st, op) is the       *)
(* documented effect (new state, result, error flag).                      *)
(*                                                                         *)
(*   ty = "VI"  VectorWithOffset<int>              (plain vector)          *)
(*        "NF"  NumericVectorWithOffset<float>     (numeric vector)        *)
(*        "A1"  Array<1,float>                     (numeric ARRAY)         *)
(*                                                                         *)
(* Values are small integers (on which float arithmetic is exact) or the   *)
(* marker U = "unspecified": newly exposed elements of PLAIN vectors, the   *)
(* result of arithmetic on them, quotients that are not integers, values   *)
(* outside -Bound..Bound.  U is never compared with an observation         *)
(* (DESIGN.md section 9 item 8).  Newly exposed elements of Array<1> are 0.*)
(***************************************************************************)
EXTENDS Integers, Sequences, FiniteSets, TLC

U == 777777
Bound == 30000

VMax(a, b) == IF a >= b THEN a ELSE b
VMin(a, b) == IF a <= b THEN a ELSE b

Clamp(x) == IF x > Bound \/ x < -Bound THEN U ELSE x
Add(x, y) == IF x = U \/ y = U THEN U ELSE Clamp(x + y)
Sub(x, y) == IF x = U \/ y = U THEN U ELSE Clamp(x - y)
Mul(x, y) == IF x = U \/ y = U THEN U ELSE Clamp(x * y)
\* exact quotients only; everything else (division by zero, non-integer quotient) is unspecified
Div(x, y) == IF x = U \/ y = U \/ y = 0 THEN U
             ELSE LET ax == IF y < 0 THEN -x ELSE x
                      ay == IF y < 0 THEN -y ELSE y
                  IN IF ax % ay = 0 THEN ax \div ay ELSE U
Arith(o, x, y) == CASE o = "+" -> Add(x, y) [] o = "-" -> Sub(x, y) [] o = "*" -> Mul(x, y) [] o = "/" -> Div(x, y)

(***************************************************************************)
(* A vector: index range lo..hi (empty: lo = 0, hi = -1), contents `v'     *)
(* (used when the vector has private storage, base = 0) or a binding to    *)
(* the external block: base > 0 is the block cell of element lo, `cap' the *)
(* number of block cells (from cell 1) the vector was given to view.       *)
(***************************************************************************)
EmptyVec == [lo |-> 0, hi |-> -1, v |-> << >>, base |-> 0, cap |-> 0]
VLen(T) == T.hi - T.lo + 1
IsView(T) == T.base > 0
Other(t) == 3 - t

\* element i of slot t / the whole contents / writing element i
Rd(st, t, i) == LET T == st.s[t] IN IF IsView(T) THEN st.blk[T.base + i - T.lo] ELSE T.v[i - T.lo + 1]
C(st, t) == LET T == st.s[t] IN [k \in 1..VLen(T) |-> Rd(st, t, T.lo + k - 1)]
Wr(st, t, i, x) == LET T == st.s[t] IN
                   IF IsView(T) THEN [st EXCEPT !.blk[T.base + i - T.lo] = x]
                   ELSE [st EXCEPT !.s[t].v[i - T.lo + 1] = x]

\* for i = lo..hi in ascending order: st := F(st, i)   (the element loops of the implementation;
\* the order matters when both operands view the same memory)
Loop(st, lo, hi, F(_, _)) ==
  LET f[i \in (lo - 1)..hi] == IF i = lo - 1 THEN st ELSE F(f[i - 1], i) IN
  IF hi < lo THEN st ELSE f[hi]

Fresh(ty) == IF ty = "A1" THEN 0 ELSE U

(***************************************************************************)
(* resize(lo2, hi2).  "change the range of the vector";  surviving         *)
(* elements keep their values; new elements of an Array are 0; "New memory *)
(* is allocated if the range grows outside the range specified by          *)
(* get_capacity_min_index() till get_capacity_max_index()" -- which, for a *)
(* vector that views external memory, ends the aliasing.                   *)
(***************************************************************************)
ResizeSt(ty, st, t, lo2, hi2) ==
  LET T == st.s[t]
      n == VLen(T)
      n2 == hi2 - lo2 + 1
  IN
  IF hi2 < lo2 THEN [st EXCEPT !.s[t] = [T EXCEPT !.lo = 0, !.hi = -1, !.v = << >>, !.base = IF IsView(T) THEN 1 ELSE 0]]
  ELSE IF n > 0 /\ lo2 = T.lo /\ hi2 = T.hi THEN st
  ELSE
    LET ol == VMax(T.lo, lo2)
        oh == VMin(T.hi, hi2)
        overlap == n > 0 /\ ol <= oh
        old == C(st, t)
        surv(i) == overlap /\ i >= ol /\ i <= oh
        pv == [k \in 1..n2 |-> LET i == lo2 + k - 1 IN IF surv(i) THEN old[i - T.lo + 1] ELSE Fresh(ty)]
    IN
    IF ~IsView(T) THEN [st EXCEPT !.s[t] = [T EXCEPT !.lo = lo2, !.hi = hi2, !.v = pv]]
    ELSE
      LET cmin == T.lo - (T.base - 1)
          cmax == cmin + T.cap - 1
          fits == IF overlap THEN lo2 >= cmin /\ hi2 <= cmax ELSE n2 <= T.cap
          base2 == IF overlap THEN T.base + (lo2 - T.lo) ELSE 1
      IN
      IF ~fits THEN [st EXCEPT !.s[t] = [lo |-> lo2, hi |-> hi2, v |-> pv, base |-> 0, cap |-> 0]]
      ELSE
        LET st1 == [st EXCEPT !.s[t] = [T EXCEPT !.lo = lo2, !.hi = hi2, !.base = base2]] IN
        IF ty # "A1" THEN st1
        ELSE [st1 EXCEPT !.blk = [c \in 1..Len(st.blk) |->
                 IF c >= base2 /\ c <= base2 + n2 - 1 /\ ~surv(lo2 + (c - base2)) THEN 0 ELSE st.blk[c]]]

(***************************************************************************)
(* reserve(lo2, hi2): "make the allocated range at least from min_index to *)
(* max_index": no change of range or contents; a viewing vector whose      *)
(* capacity does not suffice gets memory of its own.                       *)
(***************************************************************************)
ReserveSt(st, t, lo2, hi2) ==
  LET T == st.s[t]
      n == VLen(T)
  IN
  \* (as implemented, a non-empty vector extends its allocated range towards lo2 and hi2 separately,
  \*  also when hi2 < lo2; only an empty vector ignores an empty request)
  IF ~IsView(T) \/ (n = 0 /\ hi2 < lo2) THEN st
  ELSE LET cmin == T.lo - (T.base - 1)
           cmax == cmin + T.cap - 1
           need == IF n = 0 THEN hi2 - lo2 + 1 ELSE VMax(cmax, hi2) - VMin(cmin, lo2) + 1
       IN IF need <= T.cap THEN st
          ELSE [st EXCEPT !.s[t] = [T EXCEPT !.v = C(st, t), !.base = 0, !.cap = 0]]

(***************************************************************************)
(* operator=: the vector becomes equal to the source (range and values);   *)
(* "implementation avoids reallocating if sufficient memory already        *)
(* exists" -- a viewing vector that is large enough keeps viewing (and     *)
(* overwrites) the external memory from its first cell.                    *)
(***************************************************************************)
AssignSt(st, t, lo2, hi2, vals) ==
  LET T == st.s[t]
      n2 == Len(vals)
      l2 == IF n2 = 0 THEN 0 ELSE lo2
      h2 == IF n2 = 0 THEN -1 ELSE hi2
  IN
  IF IsView(T) /\ T.cap >= n2
  THEN [st EXCEPT !.s[t] = [T EXCEPT !.lo = l2, !.hi = h2, !.base = 1],
                  !.blk = [c \in 1..Len(st.blk) |-> IF c <= n2 THEN vals[c] ELSE st.blk[c]]]
  ELSE [st EXCEPT !.s[t] = [lo |-> l2, hi |-> h2, v |-> vals, base |-> 0, cap |-> 0]]

\* element loops
ScalarSt(st, t, o, c) == LET T == st.s[t] IN Loop(st, T.lo, T.hi, LAMBDA s, i : Wr(s, t, i, Arith(o, Rd(s, t, i), c)))
VecLoopSt(st, t, o) == LET O == st.s[Other(t)] IN
                       Loop(st, O.lo, O.hi, LAMBDA s, i : Wr(s, t, i, Arith(o, Rd(s, t, i), Rd(s, Other(t), i))))

SameRange(A, B) == A.lo = B.lo /\ A.hi = B.hi

R(st) == [st |-> st, res |-> 0, err |-> FALSE]
RV(st, x) == [st |-> st, res |-> x, err |-> FALSE]
E(st) == [st |-> st, res |-> 0, err |-> TRUE]

VecOps == {"VAdd", "VSub", "VMul", "VDiv"}
BinOps == {"BAdd", "BSub", "BMul", "BDiv"}
BinToVec(k) == CASE k = "BAdd" -> "VAdd" [] k = "BSub" -> "VSub" [] k = "BMul" -> "VMul" [] k = "BDiv" -> "VDiv"
ScalOps == {"SAdd", "SSub", "SMul", "SDiv"}
OpSym(k) == CASE k \in {"VAdd", "SAdd"} -> "+" [] k \in {"VSub", "SSub"} -> "-" [] k \in {"VMul", "SMul"} -> "*" [] k \in {"VDiv", "SDiv"} -> "/"

(***************************************************************************)
(* += -= *= /= with a vector.                                              *)
(* Plain vectors (VI): "Arguments must have matching index ranges.         *)
(* Otherwise error() is called."  Numeric vectors and arrays: "operators   *)
(* +=,-=,*=,/= potentially grow the *this object" to the union of the two  *)
(* ranges (an operand without elements changes nothing; an empty left      *)
(* operand first becomes a copy of the right one).                         *)
(***************************************************************************)
VecOpSt(ty, st, t, k) ==
  LET T == st.s[t]
      O == st.s[Other(t)]
      o == OpSym(k)
  IN
  IF ty = "VI" THEN (IF ~SameRange(T, O) THEN E(st) ELSE R(VecLoopSt(st, t, o)))
  ELSE IF VLen(O) = 0 THEN R(st)
  ELSE IF VLen(T) = 0 THEN
    LET st1 == AssignSt(st, t, O.lo, O.hi, C(st, Other(t))) IN
    R(CASE o = "+" -> st1
        [] o = "-" -> ScalarSt(st1, t, "*", -1)
        [] OTHER -> ScalarSt(st1, t, "*", 0))
  ELSE R(VecLoopSt(ResizeSt(ty, st, t, VMin(T.lo, O.lo), VMax(T.hi, O.hi)), t, o))

(***************************************************************************)
(* Arithmetic with several operands, one operand position at a time given  *)
(* an incompatible index range.  The operands are temporaries made by the   *)
(* driver: operand number q has the index range of the target (or, at the   *)
(* chosen position, the variant `code' of it) and the values 10q+1, 10q+2.. *)
(*   code 1: one element shorter   2: one element longer at the top         *)
(*        3: shifted by one        4: one element longer at the bottom      *)
(***************************************************************************)
VarRange(T, code) ==
  LET n == VLen(T) IN
  CASE code = 1 -> IF n > 0 THEN << T.lo, T.hi - 1 >> ELSE << T.lo, T.hi >>
    [] code = 2 -> IF n > 0 THEN << T.lo, T.hi + 1 >> ELSE << 0, 0 >>
    [] code = 3 -> IF n > 0 THEN << T.lo + 1, T.hi + 1 >> ELSE << T.lo, T.hi >>
    [] code = 4 -> IF n > 0 THEN << T.lo - 1, T.hi >> ELSE << -1, -1 >>
    [] OTHER -> << T.lo, T.hi >>
TempVec(T, q, pos, code) ==
  LET r == IF q = pos THEN VarRange(T, code) ELSE << T.lo, T.hi >> IN
  IF r[2] < r[1] THEN EmptyVec
  ELSE [lo |-> r[1], hi |-> r[2], v |-> [j \in 1..(r[2] - r[1] + 1) |-> 10 * q + j], base |-> 0, cap |-> 0]
TempEl(W, i) == W.v[i - W.lo + 1]
MultiKinds == {"XapybM", "XapybSM", "SapybM"}
VecKindOf(i) == << "VAdd", "VSub", "VMul", "VDiv" >>[i + 1]
WithTemp(st, t, W) == [st EXCEPT !.s[Other(t)] = W]
RestoreOther(r, st, t) == [r EXCEPT !.st = [r.st EXCEPT !.s[Other(t)] = st.s[Other(t)]]]

(***************************************************************************)
(* The operations.  op = [k, t, a, b]: kind, target slot, two integers.    *)
(***************************************************************************)
InRange(T, i) == VLen(T) > 0 /\ i >= T.lo /\ i <= T.hi
\* index chosen by position j (any natural number) in a non-empty vector
Pos(T, j) == T.lo + (j % VLen(T))

Apply(ty, st, op) ==
  LET t == op.t
      T == st.s[t]
      O == st.s[Other(t)]
      k == op.k
  IN
  CASE k = "Default"  -> R([st EXCEPT !.s[t] = EmptyVec])
    [] k = "Construct" ->   \* V(min,max): a vector with that range (empty if max < min)
         R(IF op.b < op.a THEN [st EXCEPT !.s[t] = EmptyVec]
           ELSE [st EXCEPT !.s[t] = [lo |-> op.a, hi |-> op.b, v |-> [j \in 1..(op.b - op.a + 1) |-> Fresh(ty)], base |-> 0, cap |-> 0]])
    [] k = "View" ->        \* V(min,max,data): "any modifications to this object will modify the original data as well"
         R([st EXCEPT !.s[t] = [lo |-> op.a, hi |-> op.b, v |-> << >>, base |-> 1, cap |-> op.b - op.a + 1]])
    [] k = "Copy" ->        \* copy constructor: equal to the source, storage of its own
         R([st EXCEPT !.s[t] = [lo |-> O.lo, hi |-> O.hi, v |-> C(st, Other(t)), base |-> 0, cap |-> 0]])
    [] k = "Move" ->        \* move constructor: takes over the source (incl. the memory it views); source left empty
         R([st EXCEPT !.s[t] = O, !.s[Other(t)] = EmptyVec])
    [] k = "Swap" -> R([st EXCEPT !.s[t] = O, !.s[Other(t)] = T])
    [] k = "Assign" -> R(AssignSt(st, t, O.lo, O.hi, C(st, Other(t))))
    [] k = "SelfAssign" -> R(st)
    [] k = "Resize" -> R(ResizeSt(ty, st, t, op.a, op.b))
    [] k = "GrowBy" ->      \* grow(min - a, max + b): the old range is a sub-interval of the new one
         R(ResizeSt(ty, st, t, T.lo - op.a, T.hi + op.b))
    [] k = "Reserve" -> R(ReserveSt(st, t, op.a, op.b))
    [] k = "SetOffset" ->   \* "change value of starting index" (nothing to do for an empty vector)
         R(IF VLen(T) = 0 THEN st ELSE [st EXCEPT !.s[t] = [T EXCEPT !.lo = op.a, !.hi = op.a + VLen(T) - 1]])
    [] k = "Recycle" ->     \* "Free all memory and make object as if default-constructed"
         R([st EXCEPT !.s[t] = EmptyVec])
    [] k = "Fill" -> R(Loop(st, T.lo, T.hi, LAMBDA s, i : Wr(s, t, i, op.a)))
    [] k = "Iota" ->        \* written through begin()..end(): first element gets a, next a+1, ...
         R(Loop(st, T.lo, T.hi, LAMBDA s, i : Wr(s, t, i, op.a + (i - T.lo))))
    [] k = "RIota" ->       \* written through rbegin()..rend(): last element gets a
         R(Loop(st, T.lo, T.hi, LAMBDA s, i : Wr(s, t, i, op.a + (T.hi - i))))
    [] k = "SetAt" ->       \* at(i) = x : "with range checking (throws std::out_of_range)"
         IF InRange(T, op.a) THEN R(Wr(st, t, op.a, op.b)) ELSE E(st)
    [] k = "GetAt" -> IF InRange(T, op.a) THEN RV(st, Rd(st, t, op.a)) ELSE E(st)
    [] k = "Set" ->         \* operator[] at position a (mod size), nothing if empty
         R(IF VLen(T) = 0 THEN st ELSE Wr(st, t, Pos(T, op.a), op.b))
    [] k = "Get" -> IF VLen(T) = 0 THEN R(st) ELSE RV(st, Rd(st, t, Pos(T, op.a)))
    [] k = "PtrSet" ->      \* get_data_ptr()[a mod size] = b; release_data_ptr()
         R(IF VLen(T) = 0 THEN st ELSE Wr(st, t, Pos(T, op.a), op.b))
    [] k = "ThrLo" -> R(Loop(st, T.lo, T.hi, LAMBDA s, i : Wr(s, t, i, LET x == Rd(s, t, i) IN IF x = U THEN U ELSE VMax(x, op.a))))
    [] k = "ThrUp" -> R(Loop(st, T.lo, T.hi, LAMBDA s, i : Wr(s, t, i, LET x == Rd(s, t, i) IN IF x = U THEN U ELSE VMin(x, op.a))))
    [] k \in VecOps -> VecOpSt(ty, st, t, k)
    [] k \in BinOps ->     \* slot t := T op O  (operator+ etc.: "retval(*this); return retval op= v": a new object)
         LET r == VecOpSt(ty, [st EXCEPT !.s[t] = [lo |-> T.lo, hi |-> T.hi, v |-> C(st, t), base |-> 0, cap |-> 0]], t, BinToVec(k)) IN
         IF r.err THEN E(st) ELSE r
    [] k \in ScalOps -> R(ScalarSt(st, t, OpSym(k), op.a))
    [] k = "Sapyb" ->       \* this = this*a + y*b; "index ranges don't match" is an error
         IF ~SameRange(T, O) THEN E(st)
         ELSE R(Loop(st, T.lo, T.hi, LAMBDA s, i : Wr(s, t, i, Add(Mul(Rd(s, t, i), op.a), Mul(Rd(s, Other(t), i), op.b)))))
    [] k = "XapybV" ->      \* this.xapyb(x = other, a = this, y = this, b = other), element by element
         IF ~SameRange(T, O) THEN E(st)
         ELSE R(Loop(st, T.lo, T.hi, LAMBDA s, i :
                  Wr(s, t, i, Add(Mul(Rd(s, Other(t), i), Rd(s, t, i)), Mul(Rd(s, t, i), Rd(s, Other(t), i))))))
    [] k = "XapybM" ->      \* this.xapyb(x, a, y, b) with vector coefficients: "index ranges don't match" is an error
         LET x == TempVec(T, 1, op.a, op.b)  a == TempVec(T, 2, op.a, op.b)
             y == TempVec(T, 3, op.a, op.b)  b == TempVec(T, 4, op.a, op.b) IN
         IF \E W \in {x, a, y, b} : ~SameRange(T, W) THEN E(st)
         ELSE R(Loop(st, T.lo, T.hi, LAMBDA s, i : Wr(s, t, i, Add(Mul(TempEl(x, i), TempEl(a, i)), Mul(TempEl(y, i), TempEl(b, i))))))
    [] k = "XapybSM" ->     \* this.xapyb(x, 2, y, 3) with scalar coefficients
         LET x == TempVec(T, 1, op.a, op.b)  y == TempVec(T, 2, op.a, op.b) IN
         IF \E W \in {x, y} : ~SameRange(T, W) THEN E(st)
         ELSE R(Loop(st, T.lo, T.hi, LAMBDA s, i : Wr(s, t, i, Add(Mul(TempEl(x, i), 2), Mul(TempEl(y, i), 3)))))
    [] k = "SapybM" ->      \* this.sapyb(a, y, b) with vector coefficients = xapyb(*this, a, y, b)
         LET a == TempVec(T, 1, op.a, op.b)  y == TempVec(T, 2, op.a, op.b)  b == TempVec(T, 3, op.a, op.b) IN
         IF \E W \in {a, y, b} : ~SameRange(T, W) THEN E(st)
         ELSE R(Loop(st, T.lo, T.hi, LAMBDA s, i : Wr(s, t, i, Add(Mul(Rd(s, t, i), TempEl(a, i)), Mul(TempEl(y, i), TempEl(b, i))))))
    [] k = "VOpM" ->        \* this op= w  (op number a: + - * /) with a temporary right operand of variant range b
         RestoreOther(VecOpSt(ty, WithTemp(st, t, TempVec(T, 1, 1, op.b)), t, VecKindOf(op.a)), st, t)
    [] k = "BOpM" ->        \* slot t := this op w  (binary operator)
         LET priv == [st EXCEPT !.s[t] = [lo |-> T.lo, hi |-> T.hi, v |-> C(st, t), base |-> 0, cap |-> 0]]
             r == VecOpSt(ty, WithTemp(priv, t, TempVec(T, 1, 1, op.b)), t, VecKindOf(op.a)) IN
         IF r.err THEN E(st) ELSE RestoreOther(r, st, t)
    [] k = "MemSet" ->      \* the external memory is written directly
         R([st EXCEPT !.blk[op.a] = op.b])
    [] k = "Nop" -> R(st)

\* which operations a vector type has / when the call is within the documented contract
HasOp(ty, k) == ty # "VI" \/ k \notin (ScalOps \cup {"Sapyb", "XapybV"} \cup MultiKinds)
Enabled(ty, st, op) ==
  /\ HasOp(ty, op.k)
  /\ op.k = "View" => (op.b >= op.a /\ op.b - op.a + 1 <= Len(st.blk))
  /\ op.k = "MemSet" => (op.a >= 1 /\ op.a <= Len(st.blk))
  /\ op.k = "GrowBy" => (op.a >= 0 /\ op.b >= 0)
  /\ op.k \in {"VOpM", "BOpM"} => op.a \in 0..3
  \* integer division by zero is outside the contract of VectorWithOffset<int>::operator/=
  /\ (op.k \in {"VDiv", "BDiv"} /\ ty = "VI" /\ SameRange(st.s[op.t], st.s[Other(op.t)]))
        => \A x \in { C(st, Other(op.t))[j] : j \in 1..VLen(st.s[Other(op.t)]) } : x # 0 /\ x # U

(***************************************************************************)
(* equality: "size, index range and equality reflect the contents".        *)
(* EqVal = TRUE / FALSE, or "any" when it hinges on unspecified elements.  *)
(***************************************************************************)
EqVal(st) ==
  LET A == st.s[1]
      B == st.s[2]
      ca == C(st, 1)
      cb == C(st, 2)
  IN IF ~SameRange(A, B) THEN "F"
     ELSE IF \E j \in 1..VLen(A) : ca[j] # U /\ cb[j] # U /\ ca[j] # cb[j] THEN "F"
     ELSE IF \E j \in 1..VLen(A) : ca[j] = U \/ cb[j] = U THEN "any"
     ELSE "T"

(***************************************************************************)
(* Well-formed states.                                                     *)
(***************************************************************************)
VecOK(st, t) ==
  LET T == st.s[t] IN
  /\ (T.hi >= T.lo) \/ (T.lo = 0 /\ T.hi = -1)
  /\ IF IsView(T) THEN /\ T.cap >= 1 /\ T.cap <= Len(st.blk)
                       /\ T.base >= 1 /\ T.base + VLen(T) - 1 <= T.cap      \* the viewed cells are inside the view
                       /\ (VLen(T) = 0 => T.base = 1)
     ELSE Len(T.v) = VLen(T) /\ T.cap = 0
StateOK(st) == VecOK(st, 1) /\ VecOK(st, 2)

(***************************************************************************)
(* The clauses of the property, stated declaratively about Apply.  They    *)
(* are checked by MC_VecAbstract for every reachable state and every       *)
(* operation of the alphabet (r == Apply(ty, st, op)).                     *)
(***************************************************************************)
ResizeKinds == {"Resize", "GrowBy", "Reserve"}
NewRange(st, op) == LET T == st.s[op.t] IN
                    CASE op.k = "Resize" -> << op.a, op.b >>
                      [] op.k = "GrowBy" -> << T.lo - op.a, T.hi + op.b >>
                      [] OTHER -> << T.lo, T.hi >>

\* "surviving elements keep their values" (resize, grow, reserve; set_offset shifts the indices)
P_Survive(ty, st, op, r) ==
  LET T == st.s[op.t]
      T2 == r.st.s[op.t]
  IN /\ op.k \in ResizeKinds =>
          \A i \in T.lo..T.hi : InRange(T2, i) => Rd(r.st, op.t, i) = Rd(st, op.t, i)
     /\ op.k = "SetOffset" =>
          \A i \in T.lo..T.hi : Rd(r.st, op.t, i - T.lo + T2.lo) = Rd(st, op.t, i)

\* "elements newly exposed by growing a numeric array are zero"
P_ZeroFill(ty, st, op, r) ==
  LET T == st.s[op.t]
      T2 == r.st.s[op.t]
  IN (ty = "A1" /\ op.k \in {"Resize", "GrowBy", "Construct"}) =>
        \A i \in T2.lo..T2.hi : (op.k = "Construct" \/ ~InRange(T, i)) => Rd(r.st, op.t, i) = 0

\* "size, index range ... reflect the contents": the operation yields exactly the requested range
P_Range(ty, st, op, r) ==
  LET T2 == r.st.s[op.t]
      nr == NewRange(st, op)
  IN /\ op.k \in {"Resize", "GrowBy"} => IF nr[2] < nr[1] THEN VLen(T2) = 0 ELSE << T2.lo, T2.hi >> = nr
     /\ op.k \in {"Assign", "Copy"} => (SameRange(T2, st.s[Other(op.t)]) /\ C(r.st, op.t) = C(st, Other(op.t)))
     \* afterwards the two vectors compare equal (unless both view the same memory, where the copy
     \* may have overwritten the source)
     /\ (op.k \in {"Assign", "Copy"} /\ ~(IsView(st.s[1]) /\ IsView(st.s[2]))) => EqVal(r.st) # "F"

\* "Operations whose operands have incompatible index ranges and checked accesses outside the
\*  range are reported as errors" -- and an operation that reports an error changes nothing
P_Errors(ty, st, op, r) ==
  LET T == st.s[op.t]
      O == st.s[Other(op.t)]
  IN /\ r.err => r.st = st
     /\ op.k \in {"SetAt", "GetAt"} => (r.err <=> ~InRange(T, op.a))
     /\ (op.k \in {"Sapyb", "XapybV"} \/ (ty = "VI" /\ op.k \in VecOps)) => (r.err <=> ~SameRange(T, O))
     \* every operand position counts: one operand with another index range is enough for the error
     /\ op.k \in MultiKinds => (r.err <=> (op.a >= 1 /\ op.a <= (CASE op.k = "XapybM" -> 4 [] op.k = "XapybSM" -> 2 [] OTHER -> 3)
                                           /\ ~SameRange(T, TempVec(T, op.a, op.a, op.b))))
     /\ (ty = "VI" /\ op.k \in {"VOpM", "BOpM"}) => (r.err <=> ~SameRange(T, TempVec(T, 1, 1, op.b)))

\* "arrays that view shared memory alias it exactly until they are resized beyond it":
\* a vector still bound to the block reads the block's cells, a detached one is unaffected by it
P_Alias(ty, st, op, r) ==
  \A t \in {1, 2} : LET T2 == r.st.s[t] IN
     IsView(T2) => \A i \in T2.lo..T2.hi : Rd(r.st, t, i) = r.st.blk[T2.base + i - T2.lo]
\* an operation on slot t leaves the other vector alone unless it is Move/Swap or both share the block
P_Frame(ty, st, op, r) ==
  LET o == Other(op.t)
  IN (op.k \notin {"Move", "Swap", "MemSet"} /\ ~(IsView(st.s[o]) /\ IsView(st.s[op.t]))) =>
       (r.st.s[o] = st.s[o] /\ C(r.st, o) = C(st, o))
\* a vector with storage of its own never changes the external block
P_Detached(ty, st, op, r) ==
  (op.k # "MemSet" /\ ~IsView(st.s[op.t]) /\ op.k \notin {"Move", "Swap", "View"}) => r.st.blk = st.blk

PropertyClauses(ty, st, op) ==
  LET r == Apply(ty, st, op) IN
  /\ StateOK(r.st)
  /\ P_Survive(ty, st, op, r) /\ P_ZeroFill(ty, st, op, r) /\ P_Range(ty, st, op, r)
  /\ P_Errors(ty, st, op, r) /\ P_Alias(ty, st, op, r) /\ P_Frame(ty, st, op, r) /\ P_Detached(ty, st, op, r)

(***************************************************************************)
(* Comparing the specification with an observation of the real object.     *)
(* obs (one per slot): lo, hi, n (size()), em (empty()), v (operator[]),   *)
(* it (begin..end), rit (rbegin..rend), cap, cmin, cell (block cell of the *)
(* first element, 0 = not in the block).                                   *)
(***************************************************************************)
SumOf(s) == LET f[k \in 0..Len(s)] == IF k = 0 THEN 0 ELSE Add(f[k - 1], s[k]) IN f[Len(s)]
SeqMatch(spec, obs) == Len(spec) = Len(obs) /\ \A j \in 1..Len(spec) : spec[j] = U \/ spec[j] = obs[j]
Rev(s) == [j \in 1..Len(s) |-> s[Len(s) + 1 - j]]

ObsMatch(st, t, ob) ==
  LET T == st.s[t]
      c == C(st, t)
  IN
  /\ ob.lo = T.lo /\ ob.hi = T.hi                      \* index range
  /\ ob.n = VLen(T) /\ ob.em = (VLen(T) = 0)             \* size reflects the range
  /\ SeqMatch(c, ob.v)                                  \* element access
  /\ SeqMatch(c, ob.it) /\ SeqMatch(Rev(c), ob.rit) \* iteration visits each element once, in order
  \* no access outside the storage: the range lies inside the allocated range
  /\ ob.cap >= ob.n
  /\ (ob.n > 0 => (ob.cmin <= ob.lo /\ ob.hi <= ob.cmin + ob.cap - 1))
  \* aliasing: bound to exactly the cells the specification says, or to none
  /\ ob.cell = T.base
  /\ IsView(T) => (ob.cap = T.cap /\ ob.cmin = T.lo - (T.base - 1))
  \* Array<1>: sum(), find_max(), find_min() of specified small values
  /\ ("sum" \in DOMAIN ob /\ \A j \in 1..Len(c) : c[j] # U) =>
        /\ LET s == SumOf(c) IN s # U => ob.sum = s
        /\ Len(c) > 0 => ((\A j1 \in 1..Len(c) : c[j1] <= ob.mx /\ c[j1] >= ob.mn)
                           /\ (\E j2 \in 1..Len(c) : c[j2] = ob.mx)
                           /\ (\E j3 \in 1..Len(c) : c[j3] = ob.mn))

\* the state the observation describes (values as observed; U where the driver saw garbage)
VecOfObs(ob) == [lo |-> ob.lo, hi |-> ob.hi, v |-> IF ob.cell > 0 THEN << >> ELSE ob.v, base |-> ob.cell,
                 cap |-> IF ob.cell > 0 THEN ob.cap ELSE 0]
StateOfObs(o) == [s |-> << VecOfObs(o.s[1]), VecOfObs(o.s[2]) >>, blk |-> o.blk]

\* one recorded step  pre --op--> post  with result res / error flag err is explained iff
StepOK(ty, pre, op, res, err, post) ==
  LET st == StateOfObs(pre)
      r == Apply(ty, st, op)
  IN /\ StateOK(st)
     /\ Enabled(ty, st, op) \/ op.k \in {"VDiv", "BDiv"}
     /\ err = r.err
     /\ (~err /\ op.k \in {"GetAt", "Get"} /\ r.res # U) => res = r.res
     /\ ObsMatch(r.st, 1, post.s[1]) /\ ObsMatch(r.st, 2, post.s[2])
     /\ SeqMatch(r.st.blk, post.blk)
     /\ LET e == EqVal(r.st) IN (e = "T" => post.eq) /\ (e = "F" => ~post.eq)
=============================================================================
