SPECIFICATION Spec
CONSTANTS MaxN = 12 MaxR = 3 MaxTofMash = 5
INVARIANTS Inv1 Inv2 Inv3 Inv4 Inv5 Inv6 Inv7 Inv8 Inv9 Inv13
CHECK_DEADLOCK FALSE
