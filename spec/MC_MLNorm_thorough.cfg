SPECIFICATION Spec
CONSTANTS MaxN = 16 MaxR = 3 MaxCellsM5 = 600 MlN = 8 MlR = 2 MlLow = 1 Families = {"geo", "ml"} Shrink = 0
INVARIANTS InvM0 InvM1 InvM2 InvM3 InvM4 InvM5 InvF1 InvF2 InvF3 InvF4
CHECK_DEADLOCK FALSE
