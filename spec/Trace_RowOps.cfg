SPECIFICATION Spec
INVARIANT Done
POSTCONDITION Consumed
CHECK_DEADLOCK FALSE
