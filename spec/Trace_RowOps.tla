---------------------------- MODULE Trace_RowOps ----------------------------
(* Trace validation of the row-level operations of ProjMatrixElemsForOneBin:  *)
(* a recorded execution is a sequence of operations on two real rows A and B  *)
(* (integer values), each line carrying the operation, its arguments, the     *)
(* answers of the queries and the full content of both rows afterwards.  The  *)
(* state (the two rows) is what the specification computes/admits; a line is  *)
(* explained iff the logged rows are related to the previous ones by the      *)
(* contract of RowOps.tla.  Lines are collected, not fatal; after an          *)
(* unexplained line validation continues from the logged rows.                *)
EXTENDS RowOps, TraceLib
VARIABLES l, a, b, bad

RowOf(x) == [ i \in 1..Len(x) |-> [vox |-> << x[i][1], x[i][2], x[i][3] >>, v |-> x[i][4]] ]
Elem(x) == [vox |-> << x[1], x[2], x[3] >>, v |-> x[4]]
\* queries logged with every line
QueriesOk(r, ra, rb) ==
  /\ r.sizeA = SizeOf(ra) /\ r.sizeB = SizeOf(rb)
  /\ r.checkA = CheckState(ra) /\ r.checkB = CheckState(rb)
  /\ r.sqA = SumSq(ra)
  /\ r.eq = RowsEqual(ra, rb)
Explains(r, ra, rb) ==
  /\ QueriesOk(r, ra, rb)
  /\ CASE r.e = "Reset" -> ra = << >> /\ rb = << >>
       [] r.e = "PushA" -> IsPushBack(a, Elem(r.el), ra) /\ rb = b
       [] r.e = "PushB" -> IsPushBack(b, Elem(r.el), rb) /\ ra = a
       [] r.e = "EraseA" -> IsErase(ra) /\ rb = b
       [] r.e = "EraseB" -> IsErase(rb) /\ ra = a
       [] r.e = "EraseAtA" -> IsEraseAt(a, r.i, ra) /\ rb = b
       [] r.e = "SortA" -> IsSort(a, ra) /\ rb = b
       [] r.e = "SortB" -> IsSort(b, rb) /\ ra = a
       \* the driver only merges rows without duplicates (the documented precondition)
       [] r.e = "MergeAB" -> MergePre(a, b) /\ IsMerge(a, b, ra, rb)
       [] r.e = "ScaleA" -> IsScale(a, r.d, ra) /\ rb = b
       [] r.e = "DivideA" -> IsDivide(a, r.d, ra) /\ rb = b
       [] r.e = "CopyAB" -> rb = a /\ ra = a                       \* B = A (assignment)
       [] OTHER -> FALSE

Init == l = 1 /\ a = << >> /\ b = << >> /\ bad = << >>
Next == /\ l <= Len(TraceLog)
        /\ LET r == TraceLog[l]  ra == RowOf(r.A)  rb == RowOf(r.B) IN
           /\ a' = ra /\ b' = rb
           /\ bad' = IF Explains(r, ra, rb) \/ Len(bad) >= 200 THEN bad ELSE Append(bad, <<l, "new">>)
        /\ l' = l + 1
Spec == Init /\ [][Next]_<<l, a, b, bad>>
Done == l > Len(TraceLog) => (bad = <<>> \/ PrintT(<<"UNEXPLAINED", bad>>))
Consumed == IF TLCGet("stats").diameter - 1 = Len(TraceLog) THEN TRUE
            ELSE PrintT(<<"REJECTED_AT", TLCGet("stats").diameter>>) /\ FALSE
=============================================================================
