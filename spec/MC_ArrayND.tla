---------------------------- MODULE MC_ArrayND ----------------------------
(* Model check of the nested-range functions of ArrayND: for every pair of   *)
(* small range trees (regular and irregular, with and without empty          *)
(* sub-ranges; 2 and 3 dimensions) the theorems below hold.  One initial     *)
(* state per pair.                                                           *)
EXTENDS ArrayND
CONSTANTS MaxRows,    \* outer indices per level: 0..MaxRows rows
          Dim3        \* TRUE: also three-dimensional trees
VARIABLES r1, r2

LeafRanges == { [lo |-> 0, hi |-> -1], [lo |-> 0, hi |-> 0], [lo |-> -1, hi |-> 0], [lo |-> 0, hi |-> 1], [lo |-> 1, hi |-> 2] }
SeqsOf(S, n) == [1..n -> S]
Trees2 == { [lo |-> 0, hi |-> -1, r |-> << >>] }
          \cup UNION { { [lo |-> l, hi |-> l + n - 1, r |-> rs] : rs \in SeqsOf(LeafRanges, n) } : l \in {0, 1}, n \in 1..MaxRows }
Some2 == { t \in Trees2 : t.hi - t.lo + 1 <= 2 /\ \A k \in 1..Len(t.r) : t.r[k] \in { [lo |-> 0, hi |-> -1], [lo |-> 0, hi |-> 1], [lo |-> 1, hi |-> 2] } }
Trees3 == { [lo |-> 0, hi |-> -1, r |-> << >>] }
          \cup UNION { { [lo |-> 0, hi |-> n - 1, r |-> rs] : rs \in SeqsOf({ t \in Some2 : t.lo = 0 }, n) } : n \in 1..2 }
Init == \E p \in (Trees2 \X Trees2) \cup (IF Dim3 THEN Trees3 \X Trees3 ELSE {}) : r1 = p[1] /\ r2 = p[2]
Next == UNCHANGED << r1, r2 >>
Spec == Init /\ [][Next]_<< r1, r2 >>

X == IotaT(ZerosOf(r1), 1)
Y == IotaT(ZerosOf(r2), 101)
PathSet(x) == { Paths(x)[j] : j \in 1..Len(Paths(x)) }
At0(x, p) == IF HasElem(x, p) THEN ElemAt(x, p) ELSE 0
\* lexicographic order of coordinates
RECURSIVE LexLess(_, _)
LexLess(p, q) == p # << >> /\ (p[1] < q[1] \/ (p[1] = q[1] /\ LexLess(Tail(p), Tail(q))))

\* "full iteration visits each element exactly once in row-major order"
T_Iteration ==
  LET ps == Paths(X) IN
  /\ Flat(X) = [j \in 1..SizeAll(X) |-> j]                   \* the j-th element written is the j-th read
  /\ Len(ps) = SizeAll(X) /\ SizeAll(X) = SizeAllR(r1)
  /\ \A j \in 1..Len(ps) : HasElem(X, ps[j]) /\ ElemAt(X, ps[j]) = j
  /\ \A j \in 1..(Len(ps) - 1) : LexLess(ps[j], ps[j + 1])      \* row-major = lexicographic in the coordinates, no repeats
\* "surviving elements keep their values, elements newly exposed by growing a numeric array are zero"
T_Resize ==
  LET Z == ResizeT(X, r2) IN
  /\ PathSet(Z) = PathSet(ZerosOf(r2))                        \* exactly the requested index range
  /\ \A p \in PathSet(Z) : ElemAt(Z, p) = At0(X, p)
\* growing arithmetic: every element of both operands is present, missing operands count as 0
T_Add ==
  LET Z == VecOpT(X, Y, "+") IN
  /\ PathSet(X) \cup PathSet(Y) \subseteq PathSet(Z)
  /\ \A p \in PathSet(Z) : ElemAt(Z, p) = At0(X, p) + At0(Y, p)
  /\ (SizeAll(Y) > 0 /\ SizeAll(X) = 0 /\ NLen(X) = 0) => SameShape(Z, Y)
T_Sub == LET Z == VecOpT(X, Y, "-") IN \A p \in PathSet(Z) : ElemAt(Z, p) = At0(X, p) - At0(Y, p)
\* a view lists the block in row-major order; writing through the array and pulling from the block are inverse
T_View ==
  (NoEmptyR(r1) /\ SizeAllR(r1) <= 12) =>
     LET blk == [c \in 1..12 |-> 200 + c]
         V == ViewOf(r1, blk, 1)
     IN /\ Flat(V) = [j \in 1..SizeAllR(r1) |-> 200 + j]
        /\ PushBlk(blk, IotaT(V, 1)) = [c \in 1..12 |-> IF c <= SizeAllR(r1) THEN c ELSE 200 + c]
        /\ PullBlk(IotaT(V, 1), blk) = V
\* equality / regularity
T_Shape == /\ (SameShape(X, Y) <=> PathSet(X) = PathSet(Y) /\ ShapeOf(X) = ShapeOf(Y))
           /\ (Regular(X) /\ ~IsLeaf(X) /\ NLen(X) > 0) => \A k \in 1..Len(X.r) : ShapeOf(X.r[k]) = ShapeOf(X.r[1])
=============================================================================
