SPECIFICATION Spec
CONSTANTS Variant = "relative_index" MaxLives = 1 Rich = FALSE
INVARIANTS InvBounds InvDenominator InvSchedule InvResume InvAscentDirection InvFixedPoint InvObject
CHECK_DEADLOCK FALSE
