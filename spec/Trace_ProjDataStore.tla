------------------------- MODULE Trace_ProjDataStore -------------------------
(* Trace validation for C02.  Every line is one call made by the driver on a  *)
(* real store (ProjDataFromStream on an fstream, ProjDataInterfile,           *)
(* ProjDataFromStream + separately written header, ProjDataInMemory) with its *)
(* arguments, what it returned, and the WHOLE data file as decoded by the     *)
(* driver's independent reader after the call returned (for the in-memory     *)
(* store: the buffer as seen through its const iterators).                    *)
(* The specification applies the call to the abstract array `store' and       *)
(* requires the observed stream to be the image of the new store, read        *)
(* results to be projections of the store, out-of-range requests to be        *)
(* refused without changing anything, and a header/data pair re-read while    *)
(* the writer is still open to give back geometry, exam information, layout   *)
(* and values.                                                                *)
(* Unexplained lines are collected (variable bad, with a class) and the       *)
(* abstract store is re-synchronised with the observed stream, so validation  *)
(* continues and every later line is judged against what the file really held.*)
EXTENDS ProjDataStore, TraceLib
VARIABLES l, c, bins, posT, stdT, store, frames, bad

NoCfg == [n |-> -1]
GeoOf(r) == [minSeg |-> r.minSeg, maxSeg |-> r.maxSeg, ax |-> r.ax, minView |-> r.minView, maxView |-> r.maxView,
             minTang |-> r.minTang, maxTang |-> r.maxTang, minTof |-> r.minTof, maxTof |-> r.maxTof]
\* "sstream": ProjDataFromStream on a memory-backed iostream (separate get and put positions); its independent reader is a
\* second view of the string buffer after every call
IsFile(r) == r.backing \in {"stream", "interfile", "hdrstream", "sstream"}
\* on-disk scale factor (a power of two on integer on-disk types): the value of a bin is the stored number times the scale
\* factor; the driver's reader decodes with it, written values are multiples of it, so every path is compared exactly
ScaleOf(r) == IF Has(r, "scale") THEN r.scale ELSE 1
\* the in-memory store keeps its data "in the same order as what is used by copy_to and fill_from"
LayoutOf(r) == IF r.backing = "memory" THEN StdLayout(GeoOf(r)) ELSE [byView |-> r.byView, seq |-> r.seq]
\* Interfile headers cannot describe TOF data (data of a TOF-capable acquisition, whatever the TOF mashing) in
\* Segment_AxialPos_View_TangPos order: announced error() - allowed there, nowhere else
TofReadyOf(r) == IF Has(r, "tofReady") THEN r.tofReady ELSE r.maxTof > r.minTof      \* (recordings older than the field)
TimingOrderOf(r) == IF Has(r, "timingOrder") THEN r.timingOrder ELSE FALSE
HeaderSupports(r) == ~(~r.byView /\ TofReadyOf(r))

Zeros(n) == [i \in 1..n |-> 0]

\* what the independent reader must see, given the store after the call
ObsOk(r, cc, st, pT) ==
  /\ r.pre = cc.pre0                                    \* bytes before the stream offset are never touched
  /\ Len(r.file) <= cc.n                                \* nothing is written beyond the array
  /\ (~cc.fresh => Len(r.file) = cc.n)
  /\ IF cc.backing = "memory" THEN TRUE
     ELSE r.bytes = cc.off + Len(r.file) * cc.size      \* whole elements only
  /\ Coherent(st, pT, r.file)

ConfigOk(r) ==
  LET gg == GeoOf(r) IN
  /\ r.backing \in {"stream", "interfile", "hdrstream", "memory", "sstream"}
  /\ ScaleOf(r) \in {1, 2, 4} /\ (r.backing = "memory" => ScaleOf(r) = 1)
  /\ (r.backing = "sstream" => ~r.fresh)
  /\ LegalGeometry(gg) /\ r.n = NumBins(gg)
  /\ (r.backing # "memory" => IsPermutationOfSegs(gg, r.seq))
  /\ (r.backing = "memory" => T3(gg))
  /\ (r.err => r.backing = "interfile" /\ ~HeaderSupports(r))
  /\ (r.herr => r.backing = "hdrstream" /\ ~HeaderSupports(r))
  /\ (~r.err => /\ r.pre = r.pre0
                /\ r.file = (IF r.fresh THEN << >> ELSE Zeros(r.n))
                /\ (IsFile(r) => r.bytes = r.off + Len(r.file) * r.size))

g == GeoOf(c)

\* ---- requests
\* an operand / source recorded in the standard order, as a function on the bins of the store
FromStd(v) == [b \in bins |-> v[stdT[b] + 1]]
SrcGeo(r) == [g EXCEPT !.minSeg = r.srcMinSeg, !.maxSeg = r.srcMaxSeg, !.ax = r.srcAx]
ArithNames == {"Xapyb", "XapybV", "Sapyb", "SapybV", "AddPD", "SubPD", "MulPD", "DivPD", "AddF", "SubF", "MulF", "DivF"}
BinOfRec(r) == << r.seg, r.ax, r.view, r.tang, r.tof >>
RelPairs(r) == [i \in 1..Len(r.pairs) |-> << r.pairs[i][1], r.pairs[i][2], r.pairs[i][3] >>]

WriteInRange(r) ==
  CASE r.e = "SetBin" -> InRange(g, BinOfRec(r))
    [] r.e = "SetSino" -> AxOk(g, r.seg, r.ax) /\ TofOk(g, r.tof)
    [] r.e = "SetView" -> SegOk(g, r.seg) /\ ViewOk(g, r.view) /\ TofOk(g, r.tof)
    [] r.e \in {"SetSegV", "SetSegS"} -> SegOk(g, r.seg) /\ TofOk(g, r.tof)
    [] r.e = "SetRel" -> SegOk(g, r.seg) /\ ViewOk(g, r.view) /\ TofOk(g, r.tof)
    [] r.e \in {"Fill", "FillFrom", "FillIter", "IterCopy"} -> TRUE
    [] r.e = "IterSet" -> r.pos >= 0 /\ r.pos < c.n
    [] r.e \in ArithNames -> TRUE
    \* fill(ProjData) from a source with another segment range: accepted iff the source has at least the same segments
    \* ("will call error() if ... the 'source' proj_data is not compatible")
    [] r.e \in {"FillWide", "FillNarrow"} -> LegalGeometry(SrcGeo(r)) /\ SourceCovers(g, SrcGeo(r))
    \* xapyb / sapyb with an operand of another geometry: error("ProjDataInfo don't match"), nothing changes
    [] r.e = "ArithBad" -> SrcGeo(r) = g
    [] OTHER -> FALSE

\* arguments of an in-range write are well formed (sizes of the containers the driver built)
WriteArgsOk(r) ==
  CASE r.e = "SetBin" -> Len(r.vals) = 1
    [] r.e = "SetSino" -> Len(r.vals) = NV(g) * NT(g)
    [] r.e = "SetView" -> Len(r.vals) = NA(g, r.seg) * NT(g)
    [] r.e \in {"SetSegV", "SetSegS"} -> Len(r.vals) = NV(g) * NA(g, r.seg) * NT(g)
    [] r.e = "SetRel" -> /\ PairsOk(g, RelPairs(r)) /\ Len(r.vals) = RelSize(g, RelPairs(r))
                         /\ \E i \in 1..Len(r.pairs) : RelPairs(r)[i] = << r.view, r.seg, r.tof >>
    [] r.e = "Fill" -> Len(r.vals) = 1
    [] r.e \in {"FillFrom", "FillIter", "IterCopy"} -> Len(r.vals) = c.n
    [] r.e = "IterSet" -> Len(r.vals) = 1
    [] r.e = "Xapyb" -> ~c.fresh /\ Len(r.x) = c.n /\ Len(r.y) = c.n
    [] r.e = "XapybV" -> ~c.fresh /\ Len(r.x) = c.n /\ Len(r.y) = c.n /\ Len(r.av) = c.n /\ Len(r.bv) = c.n
    [] r.e \in {"Sapyb", "AddPD", "SubPD", "MulPD"} -> ~c.fresh /\ Len(r.y) = c.n
    [] r.e = "SapybV" -> ~c.fresh /\ Len(r.y) = c.n /\ Len(r.av) = c.n /\ Len(r.bv) = c.n
    [] r.e = "DivPD" -> ~c.fresh /\ Len(r.y) = c.n /\ DivisibleBy(store, FromStd(r.y))      \* the driver divides by what it multiplied with
    [] r.e \in {"AddF", "SubF", "MulF"} -> ~c.fresh
    [] r.e = "DivF" -> ~c.fresh /\ r.a # 0 /\ DivisibleBy(store, Const(store, r.a))
    [] r.e \in {"FillWide", "FillNarrow"} -> Len(r.vals) = NumBins(SrcGeo(r))
    [] r.e = "ArithBad" -> FALSE        \* never generated with an equal geometry
    [] OTHER -> FALSE

Written(r, st) ==
  CASE r.e = "SetBin" -> Write(st, LAMBDA b : b = BinOfRec(r), LAMBDA b : 1, r.vals)
    [] r.e = "SetSino" -> Write(st, LAMBDA b : InSino(b, r.seg, r.ax, r.tof), LAMBDA b : IdxSino(g, b), r.vals)
    [] r.e = "SetView" -> Write(st, LAMBDA b : InView(b, r.seg, r.view, r.tof), LAMBDA b : IdxView(g, b), r.vals)
    [] r.e = "SetSegV" -> Write(st, LAMBDA b : InSegment(b, r.seg, r.tof), LAMBDA b : IdxSegV(g, b), r.vals)
    [] r.e = "SetSegS" -> Write(st, LAMBDA b : InSegment(b, r.seg, r.tof), LAMBDA b : IdxSegS(g, b), r.vals)
    [] r.e = "SetRel" -> Write(st, LAMBDA b : InRelated(b, RelPairs(r)), LAMBDA b : IdxRelated(g, RelPairs(r), b), r.vals)
    [] r.e = "Fill" -> [b \in bins |-> r.vals[1]]
    [] r.e \in {"FillFrom", "FillIter", "IterCopy"} -> Write(st, LAMBDA b : TRUE, LAMBDA b : stdT[b] + 1, r.vals)
    [] r.e = "IterSet" -> Write(st, LAMBDA b : stdT[b] = r.pos, LAMBDA b : 1, r.vals)
    \* element-wise operations: the result on the array, bin by bin (operands recorded in the standard order)
    [] r.e = "Xapyb" -> Xapyb(FromStd(r.x), r.a, FromStd(r.y), r.b)
    [] r.e = "XapybV" -> XapybV(FromStd(r.x), FromStd(r.av), FromStd(r.y), FromStd(r.bv))
    [] r.e = "Sapyb" -> Xapyb(st, r.a, FromStd(r.y), r.b)
    [] r.e = "SapybV" -> XapybV(st, FromStd(r.av), FromStd(r.y), FromStd(r.bv))
    [] r.e = "AddPD" -> AddPD(st, FromStd(r.y))
    [] r.e = "SubPD" -> SubPD(st, FromStd(r.y))
    [] r.e = "MulPD" -> MulPD(st, FromStd(r.y))
    [] r.e = "DivPD" -> DivPD(st, FromStd(r.y))
    [] r.e = "AddF" -> AddPD(st, Const(st, r.a))
    [] r.e = "SubF" -> SubPD(st, Const(st, r.a))
    [] r.e = "MulF" -> MulPD(st, Const(st, r.a))
    [] r.e = "DivF" -> DivPD(st, Const(st, r.a))
    [] r.e \in {"FillWide", "FillNarrow"} -> FilledFromSource(g, SrcGeo(r), r.vals)

IsWrite(r) == r.e \in {"SetBin", "SetSino", "SetView", "SetSegV", "SetSegS", "SetRel", "Fill", "FillFrom", "FillIter", "IterSet", "IterCopy",
                       "FillWide", "FillNarrow", "ArithBad"} \cup ArithNames
IsRead(r) == r.e \in {"GetBin", "GetSino", "GetView", "GetSegV", "GetSegS", "GetRel", "CopyTo", "CloneMem", "Stats", "Subset", "StdSeq"}

\* "a value written through any access path ... no other bin changes"; "Requests outside the index ranges are
\* reported as errors instead of touching other data"
NewStore(r) == IF IsWrite(r) /\ WriteInRange(r) /\ WriteArgsOk(r) THEN Written(r, store) ELSE store
WriteOk(r) ==
  /\ c.backing = "memory" \/ r.e \notin {"IterSet", "IterCopy"}
  /\ IF WriteInRange(r) THEN WriteArgsOk(r) /\ ~r.err ELSE r.err

ReadInRange(r) ==
  CASE r.e = "GetBin" -> InRange(g, BinOfRec(r))
    [] r.e = "GetSino" -> AxOk(g, r.seg, r.ax) /\ TofOk(g, r.tof)
    [] r.e = "GetView" -> SegOk(g, r.seg) /\ ViewOk(g, r.view) /\ TofOk(g, r.tof)
    [] r.e \in {"GetSegV", "GetSegS"} -> SegOk(g, r.seg) /\ TofOk(g, r.tof)
    [] r.e = "GetRel" -> SegOk(g, r.seg) /\ ViewOk(g, r.view) /\ TofOk(g, r.tof)
    [] r.e \in {"CopyTo", "CloneMem", "Stats", "Subset", "StdSeq"} -> TRUE
    [] OTHER -> FALSE

\* "is read back unchanged through every other path": the returned container is the projection of the array
\* (values, index ranges, and the indices the container says it is for)
ReadResultOk(r) ==
  CASE r.e = "GetBin" -> ReadOk(store, LAMBDA b : b = BinOfRec(r), LAMBDA b : 1, r.vals, 1)
    [] r.e = "GetSino" -> /\ ReadOk(store, LAMBDA b : InSino(b, r.seg, r.ax, r.tof), LAMBDA b : IdxSino(g, b), r.vals, NV(g) * NT(g))
                          /\ r.shape = << g.minView, g.maxView, g.minTang, g.maxTang >> /\ r.idx = << r.seg, r.ax, r.tof >>
    [] r.e = "GetView" -> /\ ReadOk(store, LAMBDA b : InView(b, r.seg, r.view, r.tof), LAMBDA b : IdxView(g, b), r.vals, NA(g, r.seg) * NT(g))
                          /\ r.shape = << MinAx(g, r.seg), MaxAx(g, r.seg), g.minTang, g.maxTang >> /\ r.idx = << r.seg, r.view, r.tof >>
    [] r.e = "GetSegV" -> /\ ReadOk(store, LAMBDA b : InSegment(b, r.seg, r.tof), LAMBDA b : IdxSegV(g, b), r.vals, NV(g) * NA(g, r.seg) * NT(g))
                          /\ r.shape = << g.minView, g.maxView, MinAx(g, r.seg), MaxAx(g, r.seg), g.minTang, g.maxTang >>
                          /\ r.idx = << r.seg, r.tof >>
    [] r.e = "GetSegS" -> /\ ReadOk(store, LAMBDA b : InSegment(b, r.seg, r.tof), LAMBDA b : IdxSegS(g, b), r.vals, NV(g) * NA(g, r.seg) * NT(g))
                          /\ r.shape = << MinAx(g, r.seg), MaxAx(g, r.seg), g.minView, g.maxView, g.minTang, g.maxTang >>
                          /\ r.idx = << r.seg, r.tof >>
    [] r.e = "GetRel" -> /\ PairsOk(g, RelPairs(r))
                         /\ \E i \in 1..Len(r.pairs) : RelPairs(r)[i] = << r.view, r.seg, r.tof >>
                         /\ ReadOk(store, LAMBDA b : InRelated(b, RelPairs(r)), LAMBDA b : IdxRelated(g, RelPairs(r), b), r.vals, RelSize(g, RelPairs(r)))
    \* copy_to(iterator), and a copy ProjDataInMemory(const ProjData&) seen through its iterators: standard order
    [] r.e \in {"CopyTo", "CloneMem"} -> ReadOk(store, LAMBDA b : TRUE, LAMBDA b : stdT[b] + 1, r.vals, c.n)
    \* reductions are bulk reads of the array: sum within the single-precision accumulation bound, extrema exactly, sum of
    \* squares exactly and the norm to the nearest integer where the squares fit TLC's integers
    [] r.e = "Stats" -> /\ ~c.fresh
                        /\ r.sum - SumOf(store) <= SumTol(store) /\ SumOf(store) - r.sum <= SumTol(store)
                        /\ r.max = MaxOf(store) /\ r.min = MinOf(store)
                        /\ (SmallEnoughForSquares(store, c.n) =>
                              /\ r.nsqInt /\ r.nsq = SumSqOf(store)
                              /\ r.norm >= 0 /\ (r.norm = 0 \/ (r.norm - 1) * (r.norm - 1) <= SumSqOf(store))
                              /\ SumSqOf(store) <= (r.norm + 1) * (r.norm + 1))
    \* get_subset(views) and what the subset reports about itself; writing a subset to file is announced as
    \* unsupported ("cannot write subset data yet"): error allowed, otherwise the pair must give the values back
    [] r.e = "Subset" -> /\ ~c.fresh /\ SubsetOk(g, store, r.views, r.vals)
                         /\ r.nv = Len(r.views) /\ r.orig = r.views
                         /\ (r.werr \/ r.wvals = r.vals)
    \* "This returns a vector filled as [0, 1, -1, 2, -2, ...]", continued with valid segment numbers only
    [] r.e = "StdSeq" -> r.seq = StdSeq(g)
ReadCallOk(r) == IF ReadInRange(r) THEN ~r.err /\ ReadResultOk(r) ELSE r.err

\* ---- header + data re-read through ProjData::read_from_file while the writer is still open
\* "Writing data with its header and reading the pair back yields equal geometry, exam information and values"
\* Named deviation: a field the writer's object leaves UNSPECIFIED (radionuclide "Unknown", no time frame) is not
\* information; the reader may fill in its documented default (F-18 for PET, one frame without duration).  Every
\* specified field must come back equal.
NuclideGiven(e0) == e0.nuclide # "Unknown"
FramesGiven(e0) == e0.frames # << >>
ExamCoreEq(e0, e) ==
  /\ e.modality = e0.modality /\ e.orient = e0.orient /\ e.rot = e0.rot
  /\ (FramesGiven(e0) => e.frames = e0.frames)
  /\ e.lowE = e0.lowE /\ e.highE = e0.highE
  /\ (NuclideGiven(e0) => e.nuclide = e0.nuclide /\ e.halflife = e0.halflife)
LayoutEq(r) ==
  /\ r.lay.isStream /\ r.lay.byView = c.byView /\ r.lay.bySino = ~c.byView
  /\ r.lay.seq = c.seq /\ r.lay.off = c.off /\ r.lay.type = c.type /\ r.lay.big = c.big /\ r.lay.scale = 1024 * ScaleOf(c)
ReopenCore(r) ==
  /\ c.backing \in {"interfile", "hdrstream"}
  /\ ~r.err
  /\ r.geo = r.geo0 /\ r.pdiEq                       \* geometry, by the recorded description and by STIR's own operator==
  /\ ExamCoreEq(r.exam0, r.exam)
  /\ LayoutEq(r)
  /\ IF r.verr THEN Len(r.file) < c.n                  \* values can only be unreadable while the file is still short
     ELSE ReadOk(store, LAMBDA b : TRUE, LAMBDA b : stdT[b] + 1, r.vals, c.n)
\* exam information without a key in the projection-data header (calibration factor, study start time)
ReopenExtra(r) == /\ r.examx = r.examx0
                  /\ (NuclideGiven(r.exam0) /\ FramesGiven(r.exam0) => r.examEq)   \* STIR's own ExamInfo::operator==
ReopenOk(r) == ReopenCore(r) /\ ReopenExtra(r)
\* ProjData::write_to_file (a new header + data pair written from the store) and ProjData::read_from_file of that pair:
\* "Writing data with its header and reading the pair back yields equal geometry, exam information and values"
\* (the layout of that new file is the writer's choice and not compared)
WriteToFileCore(r) ==
  /\ ~c.fresh /\ ~r.err /\ ~r.verr
  /\ r.geo = r.geo0 /\ r.pdiEq
  /\ ExamCoreEq(r.exam0, r.exam)
  /\ ReadOk(store, LAMBDA b : TRUE, LAMBDA b : stdT[b] + 1, r.vals, c.n)
WriteToFileOk(r) == WriteToFileCore(r) /\ ReopenExtra(r)

\* ---- BEYOND THE PROPERTY: MultipleProjData / DynamicProjData (backing "multi"): frames = the sequence of stores, each in
\* its standard order; every line also carries `all' = copy_to of the whole object after the call
IsMulti(r) == r.e \in {"MFill", "MCopy", "MGet", "MSetSub", "MReplace", "MCalib", "MDivDur", "MRead"}
MultiConfigOk(r) == r.K >= 1 /\ r.n >= 1 /\ Len(r.kinds) = r.K /\ Len(r.frames) = r.K /\ Len(r.durs) = r.K /\ ~r.err
FramesDivisible(fr, durs) == \A k \in 1..Len(fr) : \A i \in 1..Len(fr[k]) : fr[k][i] % durs[k] = 0
NewFrames(r) ==
  CASE r.e = "MFill" -> IF Len(r.vals) = c.K * c.n /\ ~r.err THEN SplitFrames(r.vals, c.K, c.n) ELSE frames
    [] r.e \in {"MSetSub", "MReplace"} ->
         IF frames # << >> /\ r.idx >= 1 /\ r.idx <= c.K /\ Len(r.vals) = c.n /\ ~r.err THEN [frames EXCEPT ![r.idx] = r.vals] ELSE frames
    [] r.e = "MCalib" -> IF frames # << >> /\ ~r.err THEN ScaleFrames(frames, r.f) ELSE frames          \* calibrate_frames: every frame times the factor
    [] r.e = "MDivDur" -> IF frames # << >> /\ ~r.err /\ FramesDivisible(frames, c.durs) THEN DivFrames(frames, c.durs) ELSE frames
    [] OTHER -> frames
MultiOk(r) ==
  /\ ~r.err /\ ~r.oerr
  /\ (r.e # "MFill" => frames # << >>)
  /\ CASE r.e = "MFill" -> Len(r.vals) = c.K * c.n
        [] r.e = "MCopy" -> r.vals = Concat(frames) /\ r.size = c.K * c.n /\ r.num = c.K           \* copy_to / size_all / get_num_proj_data
        [] r.e = "MGet" -> r.idx >= 1 /\ r.idx <= c.K /\ r.vals = frames[r.idx]                      \* index k (from 1) is store k
        [] r.e \in {"MSetSub", "MReplace"} -> r.idx >= 1 /\ r.idx <= c.K /\ Len(r.vals) = c.n
        [] r.e = "MCalib" -> r.nframes = c.K
        [] r.e = "MDivDur" -> FramesDivisible(frames, c.durs)
        \* the multi header lists one file per data set; data set k is store k and its time frame is frame k
        [] r.e = "MRead" -> r.num = c.K /\ r.vals = Concat(frames) /\ r.frames = c.frames
  /\ r.all = Concat(NewFrames(r))

Explains(r) ==
  IF r.e = "Config" THEN ConfigOk(r)
  ELSE IF c = NoCfg THEN FALSE
  ELSE IF c.backing = "multi" THEN IsMulti(r) /\ MultiOk(r)
  ELSE IF IsMulti(r) THEN FALSE
  ELSE IF IsWrite(r) THEN WriteOk(r) /\ ObsOk(r, c, NewStore(r), posT)
  ELSE IF IsRead(r) THEN ReadCallOk(r) /\ ObsOk(r, c, store, posT)
  ELSE IF r.e = "Reopen" THEN ReopenOk(r) /\ ObsOk(r, c, store, posT)
  ELSE IF r.e = "WriteToFile" THEN WriteToFileOk(r) /\ ObsOk(r, c, store, posT)
  \* the writer is destroyed and the SAME file is re-opened for update from its header (history continues on the new
  \* object), or a second writer object is opened on the file: nothing changes, the layout is recovered
  ELSE IF r.e = "Reattach" THEN c.backing \in {"interfile", "hdrstream"} /\ ~r.err /\ LayoutEq(r) /\ r.pdiEq /\ ObsOk(r, c, store, posT)
  ELSE IF r.e = "Second" THEN IsFile(c) /\ ~r.err /\ r.pdiEq /\ ObsOk(r, c, store, posT)
  ELSE FALSE       \* Abort and unknown events are never accepted

\* An unexplained line is attributed to a known finding only by its exact signature (known_findings.jsonl);
\* C02-examinfo: a Reopen / WriteToFile that is fine in every other respect but loses calibration factor / study start time
\* C02-oorseg: get_viewgram for a segment number outside the range returns an empty viewgram without error
\*   (nothing else wrong: no data touched)
\* C02-tof1hdr: TOF-capable scanner with TOF mashing that leaves ONE TOF bin: the header writer treats the data as non-TOF
\*   (no "TOF mashing factor": the geometry comes back as non-TOF) and, when a Timing_... storage order was asked for,
\*   writes a 4-dimensional header with a 5th axis that cannot be read back.  Everything that can still be compared
\*   (exam information, layout, values, data file) must be right.
Tof1 == TofReadyOf(c) /\ NK(g) = 1
Tof1Rest(r) ==
  \/ r.err /\ TimingOrderOf(c)
  \/ /\ ~r.err /\ ExamCoreEq(r.exam0, r.exam)
     /\ (r.e = "Reopen" => LayoutEq(r))
     /\ IF r.verr THEN r.e = "Reopen" /\ Len(r.file) < c.n ELSE ReadOk(store, LAMBDA b : TRUE, LAMBDA b : stdT[b] + 1, r.vals, c.n)
\* C02-setbin-scale: ProjDataFromStream::set_bin_value on a store with on-disk scale factor f # 1 stores the number itself
\*   instead of number / f: the bin then reads back as f times the value that was set (nothing else is wrong)
Classify(r) ==
  IF c = NoCfg \/ c.backing = "multi" THEN "new"
  ELSE IF r.e = "SetBin" /\ ScaleOf(c) # 1 /\ WriteInRange(r) /\ ~r.err /\ Len(r.vals) = 1
          /\ ObsOk(r, c, [store EXCEPT ![BinOfRec(r)] = r.vals[1] * ScaleOf(c)], posT) THEN "C02-setbin-scale"
  ELSE IF c # NoCfg /\ Tof1 /\ r.e \in {"Reopen", "WriteToFile"} /\ (r.e = "Reopen" \/ ~c.fresh) /\ Tof1Rest(r) /\ ObsOk(r, c, store, posT)
     /\ (r.err \/ r.geo # r.geo0 \/ ~r.pdiEq)
  THEN "C02-tof1hdr"
  \* the same header re-opened for update / by a second writer: unreadable (Timing_ order) or geometry read back as non-TOF
  ELSE IF c # NoCfg /\ Tof1 /\ r.e \in {"Reattach", "Second"} /\ c.backing \in {"interfile", "hdrstream"} /\ ObsOk(r, c, store, posT)
          /\ ((r.err /\ TimingOrderOf(c)) \/ (r.e = "Reattach" /\ ~r.err /\ LayoutEq(r) /\ ~r.pdiEq) \/ (r.e = "Second" /\ ~r.err /\ ~r.pdiEq))
  THEN "C02-tof1hdr"
  ELSE IF c # NoCfg /\ ((r.e = "Reopen" /\ ReopenCore(r)) \/ (r.e = "WriteToFile" /\ WriteToFileCore(r)))
     /\ ObsOk(r, c, store, posT) /\ r.examx # r.examx0
     /\ (r.examx0.calib > 0 \/ r.examx0.start > 0) THEN "C02-examinfo"
  ELSE IF c # NoCfg /\ r.e = "GetView" /\ ~SegOk(g, r.seg) /\ ViewOk(g, r.view) /\ TofOk(g, r.tof) /\ ~r.err /\ r.vals = << >>
          /\ ObsOk(r, c, store, posT) THEN "C02-oorseg"
  ELSE "new"

Init == l = 1 /\ c = NoCfg /\ bins = {} /\ posT = << >> /\ stdT = << >> /\ store = << >> /\ frames = << >> /\ bad = << >>
Next ==
  /\ l <= Len(TraceLog)
  /\ LET r == TraceLog[l] IN
     IF r.e = "Config" /\ r.backing = "multi"
     THEN LET okc == MultiConfigOk(r) IN
          /\ bad' = IF okc THEN bad ELSE Append(bad, << l, "new" >>)
          /\ c' = IF okc THEN r ELSE NoCfg
          /\ bins' = {} /\ posT' = << >> /\ stdT' = << >> /\ store' = << >> /\ frames' = << >>
     ELSE IF r.e = "Config"
     THEN LET okc == ConfigOk(r) IN
          /\ bad' = IF okc THEN bad ELSE Append(bad, << l, "new" >>)
          /\ IF okc /\ ~r.err /\ ~r.herr
             THEN LET gg == GeoOf(r) IN
                  /\ c' = r
                  /\ bins' = Bins(gg)
                  /\ posT' = [b \in Bins(gg) |-> Pos(gg, LayoutOf(r), b)]
                  /\ stdT' = [b \in Bins(gg) |-> Pos(gg, StdLayout(gg), b)]
                  /\ store' = [b \in Bins(gg) |-> 0]
             ELSE c' = NoCfg /\ bins' = {} /\ posT' = << >> /\ stdT' = << >> /\ store' = << >>
          /\ frames' = << >>
     ELSE LET okr == Explains(r) IN
          /\ bad' = IF okr THEN bad
                    ELSE LET cls == Classify(r) IN
                         IF Len(SelectSeq(bad, LAMBDA x : x[2] = cls)) < (IF cls = "new" THEN 200 ELSE 20) THEN Append(bad, << l, cls >>) ELSE bad
          /\ frames' = IF c = NoCfg \/ c.backing # "multi" \/ ~IsMulti(r) THEN frames
                       ELSE IF okr THEN NewFrames(r)
                       ELSE IF Has(r, "all") /\ Len(r.all) = c.K * c.n THEN SplitFrames(r.all, c.K, c.n)     \* re-synchronise
                       ELSE frames
          /\ store' = IF c = NoCfg \/ c.backing = "multi" THEN store
                      ELSE IF okr THEN NewStore(r)
                      ELSE IF Has(r, "file") /\ Len(r.file) <= c.n THEN Decode(bins, posT, r.file)   \* re-synchronise
                      ELSE store
          /\ UNCHANGED << c, bins, posT, stdT >>
  /\ l' = l + 1
Spec == Init /\ [][Next]_<< l, c, bins, posT, stdT, store, frames, bad >>

Done == l > Len(TraceLog) => (bad = << >> \/ PrintT(<< "UNEXPLAINED", bad >>))
Consumed == IF TLCGet("stats").diameter - 1 = Len(TraceLog) THEN TRUE
            ELSE PrintT(<< "REJECTED_AT", TLCGet("stats").diameter >>) /\ FALSE
=============================================================================
