---------------------------- MODULE Gen_KeyParser ----------------------------
(* Enumeration of ALL line sequences over the alphabet of KeyParser.tla that  *)
(* the replay driver feeds to the real stir::KeyParser (part a of C17):       *)
(* every sequence of at most MaxFull lines, plus the sequences of up to       *)
(* MaxLen lines whose inner lines are among 11 core lines.  A sequence is    *)
(* extended                                                                   *)
(* only while the parser would read on; after it has stopped ONE more line is *)
(* appended (it must not be read).  Written as ndjson to the file named by    *)
(* the environment variable GEN.  The enumeration can be split over NParts     *)
(* TLC runs (constants Part, NParts; Part is overridden by environment PART).  *)
EXTENDS KeyParser, Json, IOUtils, SequencesExt
CONSTANTS MaxFull, MaxLen,
          Part, NParts     \* this run enumerates the sequences whose SECOND line id is congruent Part modulo NParts (shorter ones: Part 0)
VARIABLE x
More(p) == TestRun(p, TRUE, FALSE).more
Ext(P, A) == UNION { {Append(p, a) : a \in A} : p \in {q \in P : More(q)} }
\* after the parser has stopped one more line is appended: it must not be read any more
DeadProbe == 29
Dead(P) == {Append(p, DeadProbe) : p \in {q \in P : ~More(q)}}
RECURSIVE FullLevel(_)
MyPart == IF "PART" \in DOMAIN IOEnv THEN atoi(IOEnv.PART) ELSE Part
Mine(p) == IF Len(p) < 2 THEN MyPart = 0 ELSE p[2] % NParts = MyPart
FullLevel(n) == IF n = 0 THEN {<<>>} ELSE LET P == FullLevel(n - 1) IN {q \in Ext(P, AlphaIds) \cup Dead(P) : Len(q) # 2 \/ Mine(q)}
RECURSIVE CoreLevel(_, _)
CoreLevel(C, n) == IF n = 0 THEN {<<>>} ELSE {q \in Ext(CoreLevel(C, n - 1), C) : Len(q) # 2 \/ Mine(q)}
\* inner lines of the sequences longer than MaxFull
SmallCoreIds == {1, 3, 5, 13, 18, 27, 29, 33, 37, 44, 50}
FullSeqs == {q \in UNION {FullLevel(n) : n \in 0..MaxFull} : Mine(q)}
DeepSeqs == UNION {Ext(CoreLevel(SmallCoreIds, n - 1), AlphaIds) : n \in (MaxFull + 1)..MaxLen}
Rec(p, nl, crlf) == [e |-> "Run", ids |-> p, nl |-> nl, crlf |-> crlf, text |-> TextsOf(p)]
\* line ends are a dimension of the text: DOS line ends (CR LF) for every sequence of at most 2 lines (every
\* line kind) and for every sequence that contains a continued line
HasCont(p) == \E k \in 1..Len(p) : p[k] \in ContIds
Runs == {Rec(p, nl, FALSE) : p \in FullSeqs, nl \in BOOLEAN} \cup {Rec(p, TRUE, FALSE) : p \in DeepSeqs}
        \cup {Rec(p, nl, TRUE) : p \in {q \in FullSeqs : Len(q) <= 2 \/ HasCont(q)}, nl \in BOOLEAN}
        \cup {Rec(p, TRUE, TRUE) : p \in {q \in DeepSeqs : HasCont(q)}}
GenFile == IF "GEN" \in DOMAIN IOEnv THEN IOEnv.GEN ELSE "gen.ndjson"
GenInit == /\ x = 0
           /\ PrintT(<<"RUNS", Cardinality(FullSeqs), Cardinality(DeepSeqs)>>)
           /\ ndJsonSerialize(GenFile, SetToSeq(Runs))
GenNext == FALSE /\ UNCHANGED x
=============================================================================
