---------------------------- MODULE Gen_KeyParser ----------------------------
(* Enumeration of ALL line sequences over the alphabet of KeyParser.tla that  *)
(* the replay driver feeds to the real stir::KeyParser (part a of C17):       *)
(* every sequence of at most MaxFull lines, plus the sequences of up to       *)
(* MaxLen lines whose inner lines are core lines.  A sequence is extended     *)
(* only while the parser would read on; after it has stopped ONE more line is *)
(* appended (it must not be read).  Written as ndjson to the file named by    *)
(* the environment variable GEN.                                              *)
EXTENDS KeyParser, Json, IOUtils, SequencesExt
CONSTANTS MaxFull, MaxLen
VARIABLE x
More(p) == TestRun(p, TRUE).more
Ext(P, A) == UNION { {Append(p, a) : a \in A} : p \in {q \in P : More(q)} }
\* after the parser has stopped one more line is appended: it must not be read any more
DeadProbe == 29
Dead(P) == {Append(p, DeadProbe) : p \in {q \in P : ~More(q)}}
RECURSIVE FullLevel(_)
FullLevel(n) == IF n = 0 THEN {<<>>} ELSE LET P == FullLevel(n - 1) IN Ext(P, AlphaIds) \cup Dead(P)
RECURSIVE CoreLevel(_)
CoreLevel(n) == IF n = 0 THEN {<<>>} ELSE Ext(CoreLevel(n - 1), CoreIds)
FullSeqs == UNION {FullLevel(n) : n \in 0..MaxFull}
DeepSeqs == UNION {Ext(CoreLevel(n - 1), AlphaIds) : n \in (MaxFull + 1)..MaxLen}
Rec(p, nl) == [e |-> "Run", ids |-> p, nl |-> nl, text |-> TextsOf(p)]
Runs == {Rec(p, nl) : p \in FullSeqs, nl \in BOOLEAN} \cup {Rec(p, TRUE) : p \in DeepSeqs}
GenFile == IF "GEN" \in DOMAIN IOEnv THEN IOEnv.GEN ELSE "gen.ndjson"
GenInit == /\ x = 0
           /\ PrintT(<<"RUNS", Cardinality(FullSeqs), Cardinality(DeepSeqs)>>)
           /\ ndJsonSerialize(GenFile, SetToSeq(Runs))
GenNext == FALSE /\ UNCHANGED x
=============================================================================
