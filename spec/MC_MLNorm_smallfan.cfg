SPECIFICATION Spec
CONSTANTS MaxN = 8 MaxR = 1 MaxCellsM5 = 0 MlN = 8 MlR = 1 MlLow = 0 Families = {"geo"} Shrink = 1
INVARIANTS InvM0 InvM1 InvM2 InvM3 InvM4
CHECK_DEADLOCK FALSE
