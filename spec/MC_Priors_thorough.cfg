SPECIFICATION Spec
CONSTANTS Tier = "thorough"
INVARIANTS InvQ1 InvQ2 InvQ3 InvQ4 InvQ5 InvQ6 InvQ7 InvQ8 InvQ9 InvA1 InvP1 InvP2 InvP3 InvP4 InvR1 InvR2 InvR3 InvR4 InvR5 InvF1 InvF2 InvPr1 InvPr2
CHECK_DEADLOCK FALSE
