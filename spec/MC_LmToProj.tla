---------------------------- MODULE MC_LmToProj ----------------------------
(* Exhaustive check of LmToProj.tla: for every small stream, frame list,     *)
(* prompt/delayed setting, num_events_to_store and EVERY num_segments_in_    *)
(* memory x num_TOF_bins_in_memory, the implementation-shaped machine ends   *)
(* each frame with the abstract histogram, after every pass the output holds *)
(* exactly the segments saved so far, and the frames of a partition add up.  *)
(* Geometry: the real Geometry.tla on a 4-detector, 2-ring TOF scanner with  *)
(* a reduced tangential range (48 bins, segments -1..1, TOF bins -1..1).     *)
EXTENDS LmToProj
CONSTANTS MaxLen,      \* streams of 0..MaxLen records
          Symbols,     \* subset of 1..12: the alphabet (see Sym)
          SegIMs, TofIMs, FrameIds, StoreIds, NStores, Freshes, MaxSegs,
          FixEmpty     \* TRUE: the specification; FALSE: the unpatched code's treatment of frames without a time mark
VARIABLES P, s, rs, tab, m, prev, H   \* tab: PlanOf(P); H: memo of the abstract histograms of all frames

C0(maxSeg) == [N |-> 4, R |-> 2, span |-> 1, ge |-> FALSE, maxDelta |-> 1, mash |-> 1, tofMash |-> 1, maxT |-> 3,
               minTang |-> -1, maxTang |-> 0, minSeg |-> -maxSeg, maxSeg |-> maxSeg]

Sym(k) == CASE k = 1 -> << 1, 0, 0, 2, 1, 0 >>      \* prompt, segment +1, TOF 0
            [] k = 2 -> << 1, 0, 1, 2, 0, 1 >>      \* prompt, segment -1, TOF +1
            [] k = 3 -> << 1, 1, 0, 3, 0, -1 >>     \* prompt, segment 0, TOF -1
            [] k = 4 -> << 2, 1, 0, 3, 0, -1 >>     \* delayed in the same bin
            [] k = 5 -> << 1, 0, 0, 1, 0, 0 >>      \* prompt outside the tangential range
            [] k = 6 -> << 1, 0, 1, 2, 1, 2 >>      \* prompt outside the TOF range
            [] k = 7 -> << 2, 0, 0, 2, 1, 0 >>      \* delayed, segment +1
            [] k = 8 -> << 0, 100, 0, 0, 0, 0 >>
            [] k = 9 -> << 0, 200, 0, 0, 0, 0 >>    \* exactly on a frame boundary
            [] k = 10 -> << 0, 250, 0, 0, 0, 0 >>
            [] k = 11 -> << 0, 400, 0, 0, 0, 0 >>
            [] k = 12 -> << 0, 450, 0, 0, 0, 0 >>
FrameSet(k) == CASE k = 0 -> << >>
                 [] k = 1 -> << <<0, 200>>, <<200, 400>> >>
                 [] k = 2 -> << <<100, 200>>, <<300, 500>> >>
                 [] k = 3 -> << <<0, 400>> >>
                 [] k = 4 -> << <<200, 400>> >>
                 [] k = 5 -> << <<0, 200>>, <<200, 250>>, <<250, 400>> >>
StoreOf(k) == CASE k = 1 -> <<TRUE, TRUE>> [] k = 2 -> <<TRUE, FALSE>> [] k = 3 -> <<FALSE, TRUE>>

Params == { p \in [segIM : SegIMs, tofIM : TofIMs, fs : FrameIds, st : StoreIds, nStore : NStores, fresh : Freshes, maxSeg : MaxSegs] :
              p.nStore > 0 => p.fs = 0 }
ParamOf(p) == [c |-> C0(p.maxSeg), frames |-> FrameSet(p.fs), segIM |-> IF p.segIM = 0 THEN -1 ELSE p.segIM, tofIM |-> IF p.tofIM = 0 THEN -1 ELSE p.tofIM,   \* 0 in the .cfg stands for -1 (all in memory)
               storeP |-> StoreOf(p.st)[1], storeD |-> StoreOf(p.st)[2], nStore |-> p.nStore, fresh |-> p.fresh]
Streams == UNION { [1..n -> Symbols] : n \in 0..MaxLen }
ResolveRec(c, rec) == IF IsTime(rec) THEN NoRes ELSE Resolve(c, BinOf(c, PairOf(rec)))
\* constant-level tables (TLC evaluates them once)
SymT == [k \in 1..12 |-> Sym(k)]
SymRes0 == [k \in 1..12 |-> ResolveRec(C0(0), Sym(k))]
SymRes1 == [k \in 1..12 |-> ResolveRec(C0(1), Sym(k))]
\* time marks never go back (symbols 8..12 are time marks with increasing times)
MonotoneIds(str) == \A i, j \in 1..Len(str) : (i < j /\ str[i] >= 8 /\ str[j] >= 8) => str[i] <= str[j]

Init == \E p \in Params : \E str \in Streams :
          /\ MonotoneIds(str)
          /\ P = ParamOf(p)
          /\ s = [i \in 1..Len(str) |-> SymT[str[i]]]
          /\ tab = PlanOf(ParamOf(p))
          /\ rs = [i \in 1..Len(str) |-> IF p.maxSeg = 0 THEN SymRes0[str[i]] ELSE SymRes1[str[i]]]
          /\ m = [pc |-> "init", f |-> 1, bi |-> 1, pos |-> 0, ct |-> 0, fct |-> 0, more |-> 0, empty |-> FALSE,
                  spos |-> 0, sid |-> 0, acc |-> ZeroHist, out |-> ZeroHist]
          /\ prev = ZeroHist
          /\ H = << >>

ev == Expected(tab, Len(s), m)
Step(rec, r) ==
  /\ m' = LET m1 == Apply(P, tab, m, ev, rec, r, m.f) IN
          \* FixEmpty = FALSE models the code as it is: a frame without a time mark is not recognised as empty
          IF ~FixEmpty /\ ev[1] = "FrameStart" THEN [m1 EXCEPT !.empty = FALSE] ELSE m1
  /\ prev' = IF ev[1] = "NewFrame" THEN (IF P.fresh \/ ev[2] = 1 THEN ZeroHist ELSE m.out) ELSE prev
  /\ UNCHANGED << P, s, rs, tab, H >>
NoRec == << 0, 0, 0, 0, 0, 0 >>

\* (not an action of the implementation) memoise the abstract histogram of every frame
AMemoHist == /\ m.pc = "init"
             /\ H' = [f \in 1..NumFrames(P) |-> Hist(P, s, rs, f)]
             /\ m' = [m EXCEPT !.pc = "newframe"]
             /\ UNCHANGED << P, s, rs, tab, prev >>
ANewFrame == ev[1] = "NewFrame" /\ Step(NoRec, NoRes)
ABatch == ev[1] = "Batch" /\ Step(NoRec, NoRes)
ASkipRecord == ev[1] = "R" /\ m.pc = "skip" /\ ev[2] > 0 /\ Step(s[ev[2]], rs[ev[2]])
ASkipEof == ev[1] = "R" /\ m.pc = "skip" /\ ev[2] = 0 /\ Step(NoRec, NoRes)
ASavePosition == ev[1] = "Sv" /\ Step(NoRec, NoRes)
AFrameStart == ev[1] = "FrameStart" /\ Step(NoRec, NoRes)
ASetPosition == ev[1] = "St" /\ Step(NoRec, NoRes)
ARewind == ev[1] = "Rewind" /\ Step(NoRec, NoRes)
AReadTime == ev[1] = "R" /\ m.pc = "read" /\ ev[2] > 0 /\ IsTime(s[ev[2]]) /\ Step(s[ev[2]], rs[ev[2]])
AReadEvent == ev[1] = "R" /\ m.pc = "read" /\ ev[2] > 0 /\ IsEvent(s[ev[2]]) /\ Step(s[ev[2]], rs[ev[2]])
AReadEof == ev[1] = "R" /\ m.pc = "read" /\ ev[2] = 0 /\ Step(NoRec, NoRes)
ABatchSave == ev[1] = "Save" /\ Step(NoRec, NoRes)
Next == AMemoHist \/ ANewFrame \/ ABatch \/ ASkipRecord \/ ASkipEof \/ ASavePosition \/ AFrameStart \/ ASetPosition \/ ARewind
        \/ AReadTime \/ AReadEvent \/ AReadEof \/ ABatchSave
Spec == Init /\ [][Next]_<< P, s, rs, tab, m, prev, H >>

\* every (segment, TOF bin) is in memory in exactly one pass
InvBatches == (m.pc = "init") => (BatchesPartition(P) /\ Monotone(s) /\ LegalFrames(P) /\ LegalStore(P))
\* "adds ... exactly one count ... to the bin ... and nothing else; the result does not depend on how many
\*  segments or TOF bins are held in memory at once": after every pass, and at the end of every frame, the
\*  output is the abstract histogram (which does not mention the batch sizes) on what has been saved
InvOut == m.pc \in {"batch", "endframe"} => OutCorrect(tab, H[m.f], m, prev)
\* "the frames of a partition of a time interval add up to the histogram of the whole interval"
InvPartition == (m.pc = "init") => PartitionAddsUp(P, s, rs)
\* the stream is never read beyond its end and a pass never starts before the saved frame start
InvPos == m.pos >= 0 /\ m.pos <= Len(s) /\ (m.pc = "read" => m.pos >= m.spos)
\* num_events_to_store: "counts each stored event once irrespective of batching": the net number of counts
\* stored in a frame never exceeds nStore
InvCount == (m.pc = "endframe" /\ ~TimeMode(P)) =>
              LET RECURSIVE TotS(_)
                  TotS(S) == IF S = {} THEN 0 ELSE LET x == CHOOSE y \in S : TRUE IN m.out[x] + TotS(S \ {x})
              IN TotS(DOMAIN m.out) <= P.nStore
=============================================================================
