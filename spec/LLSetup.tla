------------------------------- MODULE LLSetup -------------------------------
(* C05 - "The results do not depend on the order in which value, gradient,   *)
(* sensitivity and Hessian products are first requested after set-up."       *)
(*                                                                           *)
(* Implementation-shaped model of the set-up bookkeeping of                  *)
(* PoissonLogLikelihoodWithLinearModelForMeanAndProjData.  For TOF data the  *)
(* sensitivity may be computed with a non-TOF clone of the back projector    *)
(* and with the normalisation set up for non-TOF data; four flags remember   *)
(* what the distributable computation and the normalisation object were last *)
(* set up for, and every compute path re-does the set-up it needs:           *)
(*    dist      distributable_computation_already_setup                      *)
(*    distOrig  latest_setup_distributable_computation_was_with_orig_projectors *)
(*    norm      norm_already_setup                                           *)
(*    normOrig  latest_setup_norm_was_with_orig_data                         *)
(* Flags have the values "T", "F" or "U" (indeterminate: not written since   *)
(* the storage of the object was obtained); the documented protocol never    *)
(* reads a "U" flag.  Besides the flags (the object's belief) the record     *)
(* carries the facts: dReal / nReal = what the distributable computation /   *)
(* the normalisation object really were last set up with ("T" original data  *)
(* and projectors, "F" the non-TOF sensitivity set-up, "N" nothing valid).   *)
(* Sticky verdict fields:                                                    *)
(*    bad    a "U" flag was read                                             *)
(*    ierr   the branch "internal error: setup_distributable_computation not *)
(*           called" was reached                                             *)
(*    wrong  a computation ran on a set-up other than the one it needs       *)
(* same = sensitivity_uses_same_projector() (non-TOF data or TOF             *)
(* sensitivities); u = how an indeterminate flag happens to read.            *)
EXTENDS Integers, Sequences

B(b) == IF b THEN "T" ELSE "F"
Fresh(init) == [dist |-> init, distOrig |-> init, norm |-> init, normOrig |-> init,
                dReal |-> "N", nReal |-> "N", bad |-> FALSE, ierr |-> FALSE, wrong |-> FALSE]
Val(f, name, u) == IF f[name] = "U" THEN u ELSE f[name] = "T"

(* set_up_before_sensitivity sets the projectors up anew and says: "we postpone calling        *)
(* setup_distributable_computation until we know which projectors we will use ... similar for  *)
(* norm": both `already' flags are cleared, whatever was set up before is no longer valid.     *)
SetUp(f) == [f EXCEPT !.dist = "F", !.norm = "F", !.dReal = "N", !.nReal = "N"]

(* ensure_norm_is_set_up(for_original_data): (re)do the set-up unless the flags say it is the  *)
(* one needed; the second flag is read only if the first is TRUE (short-circuit ||).           *)
EnsureNorm(f, need, u) ==
  LET n == Val(f, "norm", u)
      bad == f.norm = "U" \/ (n /\ f.normOrig = "U")
      redo == ~n \/ (Val(f, "normOrig", u) # need)
      real == IF redo THEN B(need) ELSE f.nReal
  IN [f EXCEPT !.norm = "T", !.normOrig = B(need), !.nReal = real, !.bad = @ \/ bad, !.wrong = @ \/ real # B(need)]

(* the guard in front of setup_distributable_computation                                       *)
(*   "doc":      !dist || (distOrig != want)     distOrig is read only when dist is TRUE        *)
(*   "reverted": dist || !distOrig               the value path before fix c8fce4c19           *)
EnsureDist(f, want, u, variant) ==
  LET d == Val(f, "dist", u)
      bad == f.dist = "U" \/ (IF variant = "doc" THEN d /\ f.distOrig = "U" ELSE ~d /\ f.distOrig = "U")
      redo == IF variant = "doc" THEN ~d \/ (Val(f, "distOrig", u) # want) ELSE d \/ ~Val(f, "distOrig", u)
  IN IF redo THEN [f EXCEPT !.dist = "T", !.distOrig = B(want), !.dReal = B(want), !.bad = @ \/ bad]
     ELSE [f EXCEPT !.bad = @ \/ bad]
(* "if (!distributable_computation_already_setup) error(... internal error ...)", then the     *)
(* distributable computation runs                                                              *)
CheckDist(f, want, u) ==
  [f EXCEPT !.ierr = @ \/ ~Val(f, "dist", u), !.wrong = @ \/ (Val(f, "dist", u) /\ f.dReal # B(want))]

(* the compute paths *)
Value(f, same, u, variant) == EnsureNorm(CheckDist(EnsureDist(f, TRUE, u, variant), TRUE, u), TRUE, u)
Gradient(f, same, u) == EnsureNorm(CheckDist(EnsureDist(f, TRUE, u, "doc"), TRUE, u), TRUE, u)
GradPlusSens(f, same, u) == CheckDist(EnsureDist(f, TRUE, u, "doc"), TRUE, u)        \* efficiencies not used
AddSens(f, same, u) == EnsureNorm(CheckDist(EnsureDist(f, same, u, "doc"), same, u), same, u)
ApproxHess(f, same, u) == EnsureNorm(f, TRUE, u)            \* works on the projector pair directly
HessTimes(f, same, u) == f                                  \* projector pair directly, no efficiencies

Kinds == {"Value", "Grad", "GradPlusSens", "AddSens", "ApproxHess", "HessTimes", "Sens"}
Step(f, kind, same, u, variant) ==
  CASE kind = "Value" -> Value(f, same, u, variant)
    [] kind = "Grad" -> Gradient(f, same, u)
    [] kind = "GradPlusSens" -> GradPlusSens(f, same, u)
    [] kind = "AddSens" -> AddSens(f, same, u)
    [] kind = "ApproxHess" -> ApproxHess(f, same, u)
    [] kind = "HessTimes" -> HessTimes(f, same, u)
    [] kind = "Sens" -> f                                   \* returns the stored (subset) sensitivity

(* set_up with recompute_sensitivity computes the sensitivity of every subset inside set_up    *)
RECURSIVE Repeat(_, _, _, _)
Repeat(f, n, same, u) == IF n = 0 THEN f ELSE Repeat(AddSens(f, same, u), n - 1, same, u)
SetUpAll(f, same, u, recompute, nsub) == IF recompute THEN Repeat(SetUp(f), nsub, same, u) ELSE SetUp(f)

(* what the normalisation object must have been set up with when a request of this kind uses   *)
(* it: TRUE = the original data, FALSE = the non-TOF sensitivity data                          *)
NormNeed(kind, same) == IF kind = "AddSens" THEN same ELSE TRUE

Healthy(f) == ~f.bad /\ ~f.ierr /\ ~f.wrong

-----------------------------------------------------------------------------
(* Beyond the property's sentence - the set-up protocol the class documents: "After using any  *)
(* of these [set functions], you have to call set_up()", and the compute functions refuse to   *)
(* work ("Need to call set_up() for objective function first") while the object is not set up: *)
(* freshly constructed, or after one of the setters below.  The value-changing setters only    *)
(* invalidate the set-up when the value really changes; the pointer setters always do.         *)
AlwaysInvalidating == {"set_proj_data_sptr", "set_input_data", "set_additive_proj_data_sptr", "set_normalisation_sptr",
                       "set_projector_pair_sptr", "set_sensitivity_filename", "set_subset_sensitivity_sptr"}
InvalidatingIfChanged == {"set_num_subsets", "set_max_segment_num_to_process", "set_zero_seg0_end_planes",
                          "set_use_subset_sensitivities", "set_frame_num", "set_frame_definitions"}
Setters == AlwaysInvalidating \cup InvalidatingIfChanged
ReadyAfterSetter(ready, name, changed) == ready /\ ~(name \in AlwaysInvalidating \/ (name \in InvalidatingIfChanged /\ changed))
(* the requests that must be refused while not set up (the stored sensitivity can be read and   *)
(* add_subset_sensitivity called without the check: nothing is demanded of those)               *)
MustRefuse == {"Value", "Grad", "GradPlusSens", "HessTimes", "ApproxHess"}
=============================================================================
