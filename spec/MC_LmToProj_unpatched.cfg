SPECIFICATION Spec
CONSTANTS
  MaxLen = 3
  Symbols = {1, 3, 9, 11}
  SegIMs = {2}
  TofIMs = {3}
  FrameIds = {1, 5}
  StoreIds = {1}
  NStores = {0}
  Freshes = {TRUE}
  MaxSegs = {1}
  FixEmpty = FALSE
INVARIANTS InvBatches InvOut InvPartition InvPos InvCount
CHECK_DEADLOCK FALSE
