SPECIFICATION Spec
CONSTANTS
  Ns = {4}
  Rs = {5}
  Spans = {1}
  Mashes = {1}
  Tofs = {}
  TofN = 4
  TofR = 2
INVARIANTS InvNeverCovered
CHECK_DEADLOCK FALSE
