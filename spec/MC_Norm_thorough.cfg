SPECIFICATION Spec
CONSTANTS MaxOps = 2 Depth = 3 NViews = 1 TangBelow = 1
INVARIANTS InvFactor InvTrivialMC InvReportsTrivial InvTof InvSetUp InvChain
CHECK_DEADLOCK FALSE
