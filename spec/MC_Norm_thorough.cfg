SPECIFICATION Spec
CONSTANTS MaxOps = 2 Depth = 3 NViews = 1 TangBelow = 1 ModAt = {1}
INVARIANTS InvFactor InvTrivialMC InvReportsTrivial InvTof InvSetUp InvChain InvCurrent
CHECK_DEADLOCK FALSE
