SPECIFICATION Spec
CONSTANTS MaxN = 4 Iters = 3
INVARIANTS InvNoRepeat InvOncePerIteration InvNoCrash InvHistLegal InvHistPrefix
VIEW View
CHECK_DEADLOCK FALSE
