--------------------------- MODULE MC_VecAbstract ---------------------------
(* Bounded-exhaustive model check of VecAbstract: every history of at most   *)
(* MaxDepth operations over the alphabet below, for the three vector types.  *)
(* In every reachable state every enabled operation of the alphabet must     *)
(* satisfy the declarative clauses of the property (PropertyClauses).        *)
(* With env ALPHABET_OUT set, the alphabet is written as ndjson: the driver  *)
(* steps the real classes through every edge of the same bounded graph.      *)
EXTENDS VecAbstract, VecAlphabet, Json, IOUtils, SequencesExt
CONSTANTS MaxDepth,   \* length of the histories (env C11_DEPTH overrides)
          Sel         \* "full" or "core" alphabet (env C11_SEL overrides)
VARIABLES ty, st, depth

Depth == IF "C11_DEPTH" \in DOMAIN IOEnv THEN atoi(IOEnv.C11_DEPTH) ELSE MaxDepth
Select == IF "C11_SEL" \in DOMAIN IOEnv THEN IOEnv.C11_SEL ELSE Sel

Alphabet == AlphabetSel(Select)

ASSUME "ALPHABET_OUT" \in DOMAIN IOEnv => ndJsonSerialize(IOEnv.ALPHABET_OUT, SetToSeq(Alphabet))

InitSt == [s |-> << EmptyVec, EmptyVec >>, blk |-> [c \in 1..K |-> 100 + c]]
Init == ty \in {"VI", "NF", "A1"} /\ st = InitSt /\ depth = 0
Next == /\ depth < Depth
        /\ \E op \in Alphabet : Enabled(ty, st, op) /\ st' = Apply(ty, st, op).st
        /\ depth' = depth + 1 /\ ty' = ty
Spec == Init /\ [][Next]_<< ty, st, depth >>

Inv_StateOK == StateOK(st)
\* the property's clauses hold for every operation that can be applied to a reachable state
\* (states at the last level have no successors: every history of length <= Depth ends in an operation checked here)
Inv_Clauses == depth < Depth => \A op \in Alphabet : Enabled(ty, st, op) => PropertyClauses(ty, st, op)
\* every operation of the alphabet is applicable to every reachable state (so the histories of
\* length <= MaxDepth are exactly the words over the alphabet), except integer division by zero
Inv_Total == depth < Depth => \A op \in Alphabet : (HasOp(ty, op.k) /\ ~(ty = "VI" /\ op.k = "VDiv")) => Enabled(ty, st, op)
=============================================================================
