--------------------------- MODULE Trace_KeyParser ---------------------------
(* Trace validation for C17.  Every recorded line is an independent          *)
(* observation (a "Mut" line refers to the header of the preceding "Hdr"     *)
(* line), so validation collects the unexplained lines (variable bad) and    *)
(* classifies them (known findings vs new).                                  *)
EXTENDS KeyParser, TraceLib
VARIABLES l, bad, hc      \* hc: the current library-written header (memo of its parse and of its run)

(* ---- part (a): replay of TLC-generated line sequences ------------------- *)
\* the driver must have fed exactly the text the specification generated
RunFed(r) == /\ Len(r.gen.text) = Len(r.gen.ids)
             /\ \A k \in 1..Len(r.gen.ids) : r.gen.ids[k] \in AlphaIds /\ r.gen.text[k] = Alpha[r.gen.ids[k]]
             /\ r.fed = JoinLinesE(r.gen.text, r.gen.nl, r.gen.crlf)
RunOk(r) == /\ RunFed(r)
            /\ \E x \in {TestRun(r.gen.ids, r.gen.nl, r.gen.crlf)} :
                 /\ r.obs.verdict = x.verdict          \* accepted | rejected | error - never abort or hang
                 /\ r.obs.vars = x.st.vars              \* final variable state (also at the point of an error)

(* ---- part (b): mutated library-written headers -------------------------- *)
NoHdr == [hid |-> 0]
HdrInit(kind) == IF kind = "image" THEN ImageInit ELSE PDFSInit
\* memo of a "Hdr" line: parse of every line, the run of the unmodified header
HdrMemo(r) ==
  LET PL == [i \in 1..Len(r.lines) |-> [t |-> r.lines[i], core |-> r.lines[i], hasp |-> TRUE, p |-> ParseLine(r.lines[i])]] IN
  [hid |-> r.hid, kind |-> r.kind, cfg |-> [datafile |-> r.datafile, datalen |-> r.datalen], PL |-> PL, nl |-> r.nl,
   base |-> ParseHeaderP(HdrInit(r.kind), PL, r.nl), written |-> r.written]
\* the library must read back what it wrote
HdrOk(r, h) == IF r.kind = "image"
               THEN \E x \in {ImageJudge(h.base, h.cfg)} : x.k = "accept" /\ x.x = r.written.x /\ x.y = r.written.y /\ x.z = r.written.z
               ELSE \E x \in {PDFSJudge(h.base, h.cfg)} :
                      /\ x.k = "may" /\ x.fits /\ x.segs = r.written.segs /\ x.views = r.written.views /\ x.bins = r.written.bins
                      /\ x.tof = r.written.tof /\ x.axial = r.written.axial
\* the physical lines of a mutated header: base[1..keep] ++ fresh ++ base[keep+skip+1..]
MutLines(r, h) == SubSeq(h.PL, 1, r.keep) \o [i \in 1..Len(r.fresh) |-> Plain(r.fresh[i])] \o SubSeq(h.PL, r.keep + r.skip + 1, Len(h.PL))
MutRun(r, h) == ParseHeaderP(HdrInit(h.kind), MutLines(r, h), r.nl)
Rejected(o) == o.verdict \in {"null", "error"}       \* "rejected through the library's error reporting"
SortedSeq(q) == SortSeq(q, LAMBDA a, b : a < b)
\* an image reader: exactly the modelled verdict
ImageMutOk(r, h, run) ==
  \E x \in {ImageJudge(run, h.cfg)} :
    CASE x.k = "accept" -> /\ r.obs.verdict = "accepted"
                           /\ r.obs.x = x.x /\ r.obs.y = x.y /\ r.obs.z = x.z      \* "sizes consistent with header"
                           /\ r.obs.minz = 0 /\ r.obs.miny = -(x.y \div 2) /\ r.obs.minx = -(x.x \div 2)
      \* a header that does not parse is reported as such: read_interfile_image returns 0 (after the parser's
      \* warning) unless the parser raised error() - not as a failure to open a file whose name was never read
      [] x.k = "reject" -> IF r.reader = "img_direct" /\ x.stage = "parse" THEN r.obs.verdict = (IF x.thrown THEN "error" ELSE "null")
                           ELSE Rejected(r.obs)
      [] OTHER -> r.obs.verdict # "abort"
\* a projection data reader: must reject what the model rejects; may accept otherwise, then with the
\* announced shape, and all data can be read only if the file is long enough; a header with the same
\* meaning as the one the library wrote must be read like it
PDFSMutOk(r, h, run) ==
  \E x \in {PDFSJudge(run, h.cfg)} :
    CASE x.k = "reject" -> Rejected(r.obs)
      [] x.k = "may" -> /\ r.obs.verdict # "abort"
                        /\ r.obs.verdict = "accepted" =>
                             /\ r.obs.segs = x.segs /\ r.obs.views = x.views /\ r.obs.bins = x.bins /\ r.obs.tof = x.tof
                             /\ SortedSeq(r.obs.axial) = SortedSeq(x.axial)
                             /\ (r.obs.readok => x.fits)                  \* never "silently accepted data whose size contradicts the header"
                        /\ (run.verdict = "accepted" /\ Relevant(run.st.vars) = Relevant(h.base.st.vars)) => (r.obs.verdict = "accepted" /\ r.obs.readok)
      [] OTHER -> r.obs.verdict # "abort"
Generic(r) == r.reader \in {"img_generic", "pd_generic"}
MutText(r, h) == LET PL == MutLines(r, h) IN [i \in 1..Len(PL) |-> PL[i].t]
MutOk(r, h) == /\ h.hid = r.hid
               /\ IF Generic(r) /\ ~SignatureOk(MutText(r, h)) THEN Rejected(r.obs)      \* not recognised as Interfile
                  ELSE \E run \in {MutRun(r, h)} : IF h.kind = "image" THEN ImageMutOk(r, h, run) ELSE PDFSMutOk(r, h, run)

(* ---- part (c): print - parse - print ------------------------------------ *)
\* "Re-parsing the parameter text that an object prints for itself reproduces an object that prints
\* the same text, for every registered parsable class" that can be default-constructed; lines of blanks
\* are no-ops of the line machine and are not compared
TextOf(lines) == SelectSeq(lines, HasNonBlank)
RTOk(r) == IF ~r.constructed THEN r.abort = ""         \* outside the quantifier - but no crash while constructing
           ELSE r.abort = "" /\ r.parsed /\ Len(TextOf(r.t1)) > 0 /\ TextOf(r.t1) = TextOf(r.t2)

Explains(r, h) ==
  CASE r.e = "Run" -> RunOk(r)
    [] r.e = "Hdr" -> HdrOk(r, h)
    [] r.e = "Mut" -> MutOk(r, h)
    [] r.e = "RT" -> RTOk(r)
    [] OTHER -> FALSE

\* classification of an unexplained line by the signature of a known finding
StartsWith(s, pre) == Len(s) >= Len(pre) /\ SubSeq(s, 1, Len(pre)) = pre
Huge(n) == n > 1000000
HugeAnnounced(v) == \/ \E d \in 1..Len(v.matrix_size) : \E i \in 1..Len(v.matrix_size[d]) : Huge(v.matrix_size[d][i])
                    \/ ("min_ring_difference" \in DOMAIN v /\ \E i \in 1..Len(v.min_ring_difference) : Huge(v.min_ring_difference[i]))
                    \/ ("max_ring_difference" \in DOMAIN v /\ \E i \in 1..Len(v.max_ring_difference) : Huge(v.max_ring_difference[i]))
ClassifyMut(r, h, run) ==
  LET v == run.st.vars IN
  IF run.why = "IndexNotRepresentable" THEN "C17-indexwrap"
  ELSE IF r.obs.verdict = "abort" /\ r.obs.kind = "asan:out-of-memory" /\ (run.why = "HugeLength" \/ HugeAnnounced(v)) THEN "C17-hugealloc"
  ELSE IF /\ r.obs.verdict = "abort" /\ h.kind = "image"
          /\ (StartsWith(r.obs.kind, "ubsan:member access within null pointer") \/ r.obs.kind = "asan:SEGV")
          /\ \E x \in {ImageJudge(run, h.cfg)} : x.k = "reject" /\ x.stage = "parse"
       THEN "C17-imgnull"       \* the header did not parse (hdr.parse() false): no image was created
  ELSE IF r.obs.verdict = "abort" /\ run.verdict = "accepted" /\ (Len(v.data_offset) = 0 \/ Len(v.image_scaling_factors) = 0) THEN "C17-nodataset"
  ELSE IF r.obs.verdict = "abort" /\ h.kind = "projdata" /\ run.why = "MissingMatrixSize" THEN "C17-matrixsize-missing"
  ELSE IF r.obs.verdict = "abort" /\ h.kind = "projdata" /\ r.obs.kind = "ubsan:division by zero" THEN "C17-scanner-div0"
  ELSE IF r.obs.verdict = "abort" /\ h.kind = "projdata" /\ (StartsWith(r.obs.kind, "ubsan:signed integer overflow") \/ StartsWith(r.obs.kind, "ubsan:negation of")) THEN "C17-ub-arith"
  ELSE "new"
Classify(r, h) ==
  IF r.e = "Run" /\ RunFed(r) THEN
     (IF \E x \in {TestRun(r.gen.ids, r.gen.nl, r.gen.crlf)} : x.contAtEof /\ r.obs.verdict = "abort" THEN "C17-conteof"
      ELSE IF \E x \in {TestRun(r.gen.ids, r.gen.nl, r.gen.crlf)} : x.why = "IndexNotRepresentable" /\ r.obs.verdict # "abort" THEN "C17-indexwrap"
      ELSE "new")
  ELSE IF r.e = "Mut" /\ h.hid = r.hid THEN
     CHOOSE cls \in {"C17-imgnull", "C17-hugealloc", "C17-nodataset", "C17-matrixsize-missing", "C17-scanner-div0", "C17-ub-arith", "C17-indexwrap", "new"} :
        \E run \in {MutRun(r, h)} : cls = ClassifyMut(r, h, run)
  ELSE IF r.e = "RT" /\ ~r.constructed /\ StartsWith(r.abort, "ubsan:member access within null pointer") /\ r.registry = "BinNormalisation" THEN "C17-norm-null"
  ELSE "new"

Init == l = 1 /\ bad = <<>> /\ hc = NoHdr
Next == /\ l <= Len(TraceLog)
        /\ LET r == TraceLog[l] IN
           /\ hc' = IF r.e = "Hdr" THEN HdrMemo(r) ELSE hc
           /\ LET okr == Explains(r, hc')
                  cls == IF okr THEN "ok" ELSE Classify(r, hc') IN
              bad' = IF okr THEN bad
                     ELSE IF cls = "new" THEN (IF Len(SelectSeq(bad, LAMBDA z : z[2] = "new")) < 200 THEN Append(bad, <<l, cls>>) ELSE bad)
                     ELSE (IF Len(SelectSeq(bad, LAMBDA z : z[2] = cls)) < 10 THEN Append(bad, <<l, cls>>) ELSE bad)
        /\ l' = l + 1
Spec == Init /\ [][Next]_<<l, bad, hc>>
Done == l > Len(TraceLog) => (bad = <<>> \/ PrintT(<<"UNEXPLAINED", bad>>))
Consumed == IF TLCGet("stats").diameter - 1 = Len(TraceLog) THEN TRUE
            ELSE PrintT(<<"REJECTED_AT", TLCGet("stats").diameter>>) /\ FALSE
=============================================================================
