--------------------------- MODULE Trace_KeyParser ---------------------------
(* Trace validation for C17.  Every recorded line is an independent          *)
(* observation, so validation collects the unexplained lines (variable bad)  *)
(* and classifies them (known findings vs new).                              *)
EXTENDS KeyParser, TraceLib
VARIABLES l, bad

(* ---- part (a): replay of TLC-generated line sequences ------------------- *)
\* the driver must have fed exactly the text the specification generated
RunFed(r) == /\ \A k \in 1..Len(r.gen.ids) : r.gen.ids[k] \in AlphaIds /\ r.gen.text[k] = Alpha[r.gen.ids[k]]
             /\ Len(r.gen.text) = Len(r.gen.ids)
             /\ r.fed = JoinLines(r.gen.text, r.gen.nl)
RunExpected(r) == TestRun(r.gen.ids, r.gen.nl)
RunOk(r) == LET x == RunExpected(r) IN
            /\ RunFed(r)
            /\ r.obs.verdict = x.verdict          \* accepted | rejected | error - never abort or hang
            /\ r.obs.vars = x.st.vars              \* final variable state (also at the point of an error)

Explains(r) ==
  CASE r.e = "Run" -> RunOk(r)
    [] OTHER -> FALSE

\* classification of an unexplained line by the signature of a known finding
Classify(r) ==
  IF r.e = "Run" /\ RunFed(r) THEN
     LET x == RunExpected(r) IN
     IF x.contAtEof /\ r.obs.verdict = "abort" THEN "C17-conteof"
     ELSE IF x.why = "IndexNotRepresentable" /\ r.obs.verdict # "abort" THEN "C17-indexwrap"
     ELSE "new"
  ELSE "new"

Init == l = 1 /\ bad = <<>>
Next == /\ l <= Len(TraceLog)
        /\ LET r == TraceLog[l]
               okr == Explains(r)
               cls == IF okr THEN "ok" ELSE Classify(r) IN
           bad' = IF okr THEN bad
                  ELSE IF cls = "new" THEN (IF Len(SelectSeq(bad, LAMBDA z : z[2] = "new")) < 200 THEN Append(bad, <<l, cls>>) ELSE bad)
                  ELSE (IF Len(SelectSeq(bad, LAMBDA z : z[2] = cls)) < 10 THEN Append(bad, <<l, cls>>) ELSE bad)
        /\ l' = l + 1
Spec == Init /\ [][Next]_<<l, bad>>
Done == l > Len(TraceLog) => (bad = <<>> \/ PrintT(<<"UNEXPLAINED", bad>>))
Consumed == IF TLCGet("stats").diameter - 1 = Len(TraceLog) THEN TRUE
            ELSE PrintT(<<"REJECTED_AT", TLCGet("stats").diameter>>) /\ FALSE
=============================================================================
