\* demonstration only (not part of the check): operator= as it was before fix bb45fea1c
SPECIFICATION Spec
CONSTANTS MaxDepth = 4 Sel = "core" WNeg = 1 WHi = 1 K = 2 Full2 = FALSE PreFixAssign = TRUE
INVARIANTS Inv_MemorySafe
CHECK_DEADLOCK FALSE
