------------------------------- MODULE ArrayND -------------------------------
(***************************************************************************)
(* C11 -- multi-dimensional arrays Array<D,float>, D >= 2, as maps from     *)
(* nested ("irregular") index ranges to values.                             *)
(*                                                                          *)
(* An array is a tree: a node  [lo, hi, r]  has one sub-array r[i-lo+1] for *)
(* every outer index i in lo..hi; a leaf  [lo, hi, v, cell]  is a           *)
(* one-dimensional array with values v; cell > 0 says that its first       *)
(* element lives in cell `cell' of the external block (the array was        *)
(* constructed as a view of that memory), 0 that it does not.  An empty     *)
(* array has lo = 0, hi = -1.  A range tree Rg (IndexRange<D>) has the same  *)
(* structure without values: leaves [lo, hi], nodes [lo, hi, r].            *)
(* The system: two arrays (slot 1 may view the block, slot 2 never does)    *)
(* and the block `blk'.  All elements are specified (arrays zero-fill), so  *)
(* U only arises from inexact division / overflow (see VecAbstract).        *)
(***************************************************************************)
EXTENDS VecAbstract

IsLeaf(x) == "v" \in DOMAIN x
IsLeafR(Rg) == "r" \notin DOMAIN Rg
NLen(x) == x.hi - x.lo + 1
EmptyLeaf == [lo |-> 0, hi |-> -1, v |-> << >>, cell |-> 0]
EmptyNode == [lo |-> 0, hi |-> -1, r |-> << >>]
Row(x, i) == x.r[i - x.lo + 1]
HasIdx(x, i) == NLen(x) > 0 /\ i >= x.lo /\ i <= x.hi

Cat(ss) == LET f[k \in 0..Len(ss)] == IF k = 0 THEN << >> ELSE f[k - 1] \o ss[k] IN f[Len(ss)]
SumSeq(s) == LET f[k \in 0..Len(s)] == IF k = 0 THEN 0 ELSE Add(f[k - 1], s[k]) IN f[Len(s)]

\* "full iteration visits each element exactly once in row-major order": the sequence of all
\* elements with the last index running fastest
RECURSIVE Flat(_)
Flat(x) == IF IsLeaf(x) THEN x.v ELSE Cat([k \in 1..Len(x.r) |-> Flat(x.r[k])])
RECURSIVE SizeAll(_)
SizeAll(x) == IF IsLeaf(x) THEN NLen(x) ELSE SumSeq([k \in 1..Len(x.r) |-> SizeAll(x.r[k])])
RECURSIVE SizeAllR(_)
SizeAllR(Rg) == IF IsLeafR(Rg) THEN VMax(0, Rg.hi - Rg.lo + 1) ELSE SumSeq([k \in 1..Len(Rg.r) |-> SizeAllR(Rg.r[k])])
\* the coordinates of all elements, in the same order
RECURSIVE Paths(_)
Paths(x) == IF IsLeaf(x) THEN [j \in 1..NLen(x) |-> << x.lo + j - 1 >>]
            ELSE Cat([k \in 1..Len(x.r) |-> LET ps == Paths(x.r[k]) IN [j \in 1..Len(ps) |-> << x.lo + k - 1 >> \o ps[j]]])
\* element at a coordinate (must exist) / does it exist / does the leaf addressed by the first D-1 indices exist
RECURSIVE ElemAt(_, _)
ElemAt(x, c) == IF IsLeaf(x) THEN x.v[c[1] - x.lo + 1] ELSE ElemAt(Row(x, c[1]), Tail(c))
RECURSIVE HasElem(_, _)
HasElem(x, c) == IF c = << >> THEN FALSE
                 ELSE IF IsLeaf(x) THEN Len(c) = 1 /\ HasIdx(x, c[1])
                 ELSE HasIdx(x, c[1]) /\ HasElem(Row(x, c[1]), Tail(c))
RECURSIVE HasLeaf(_, _)
HasLeaf(x, c) == IF IsLeaf(x) THEN c = << >> ELSE c # << >> /\ HasIdx(x, c[1]) /\ HasLeaf(Row(x, c[1]), Tail(c))
\* some sub-array (at any level) of a non-empty array has no elements
RECURSIVE HasEmptyRow(_)
HasEmptyRow(x) == IF IsLeaf(x) THEN FALSE
                  ELSE \E k \in 1..Len(x.r) : SizeAll(x.r[k]) = 0 \/ HasEmptyRow(x.r[k])

\* index ranges only
RECURSIVE ShapeOf(_)
ShapeOf(x) == IF IsLeaf(x) THEN [lo |-> x.lo, hi |-> x.hi] ELSE [lo |-> x.lo, hi |-> x.hi, r |-> [k \in 1..Len(x.r) |-> ShapeOf(x.r[k])]]
SameShape(x, y) == ShapeOf(x) = ShapeOf(y)
\* empty (sub-)array of the kind described by range tree Rg / array of zeros with range Rg
EmptyOfR(Rg) == IF IsLeafR(Rg) THEN EmptyLeaf ELSE EmptyNode
EmptyLike(x) == IF IsLeaf(x) THEN EmptyLeaf ELSE EmptyNode

(***************************************************************************)
(* resize / grow: "change the array to a new range of indices, new elements *)
(* are set to 0"; elements whose coordinates are in both ranges survive.    *)
(***************************************************************************)
ResizeLeaf(x, lo2, hi2) ==
  IF hi2 < lo2 THEN [x EXCEPT !.lo = 0, !.hi = -1, !.v = << >>]
  ELSE [x EXCEPT !.lo = lo2, !.hi = hi2,
                 !.v = [j \in 1..(hi2 - lo2 + 1) |-> LET i == lo2 + j - 1 IN IF HasIdx(x, i) THEN x.v[i - x.lo + 1] ELSE 0]]
RECURSIVE ResizeT(_, _)
ResizeT(x, Rg) ==
  IF IsLeafR(Rg) THEN ResizeLeaf(x, Rg.lo, Rg.hi)
  ELSE IF Rg.hi < Rg.lo THEN EmptyNode
  ELSE [lo |-> Rg.lo, hi |-> Rg.hi,
        r |-> [k \in 1..(Rg.hi - Rg.lo + 1) |->
                 LET i == Rg.lo + k - 1
                     sub == Rg.r[k]
                 IN ResizeT(IF HasIdx(x, i) THEN Row(x, i) ELSE EmptyOfR(sub), sub)]]
ZerosOf(Rg) == ResizeT(EmptyOfR(Rg), Rg)

\* a[c1]..[ck].resize(lo2, hi2) on the one-dimensional sub-array addressed by the first D-1 indices
RECURSIVE ResizeAt(_, _, _, _)
ResizeAt(x, c, lo2, hi2) ==
  IF IsLeaf(x) THEN ResizeLeaf(x, lo2, hi2)
  ELSE [x EXCEPT !.r[c[1] - x.lo + 1] = ResizeAt(Row(x, c[1]), Tail(c), lo2, hi2)]

\* element-wise
RECURSIVE ScalarT(_, _, _)
ScalarT(x, o, c) == IF IsLeaf(x) THEN [x EXCEPT !.v = [j \in 1..Len(x.v) |-> Arith(o, x.v[j], c)]]
                    ELSE [x EXCEPT !.r = [k \in 1..Len(x.r) |-> ScalarT(x.r[k], o, c)]]
RECURSIVE FillT(_, _)
FillT(x, c) == IF IsLeaf(x) THEN [x EXCEPT !.v = [j \in 1..Len(x.v) |-> c]]
               ELSE [x EXCEPT !.r = [k \in 1..Len(x.r) |-> FillT(x.r[k], c)]]
\* the j-th element visited by full iteration gets value k + j - 1
RECURSIVE IotaT(_, _)
IotaT(x, k0) ==
  IF IsLeaf(x) THEN [x EXCEPT !.v = [j \in 1..Len(x.v) |-> k0 + j - 1]]
  ELSE [x EXCEPT !.r = [k \in 1..Len(x.r) |-> IotaT(x.r[k], k0 + SumSeq([q \in 1..(k - 1) |-> SizeAll(x.r[q])]))]]
RECURSIVE SetElem(_, _, _)
SetElem(x, c, val) == IF IsLeaf(x) THEN [x EXCEPT !.v[c[1] - x.lo + 1] = val]
                      ELSE [x EXCEPT !.r[c[1] - x.lo + 1] = SetElem(Row(x, c[1]), Tail(c), val)]
\* t := x*a + y*b element by element (same index ranges; t keeps its own leaf bookkeeping)
RECURSIVE Zip3(_, _, _, _, _)
Zip3(t, x, y, a, b) ==
  IF IsLeaf(t) THEN [t EXCEPT !.v = [j \in 1..Len(t.v) |-> Add(Mul(x.v[j], a), Mul(y.v[j], b))]]
  ELSE [t EXCEPT !.r = [k \in 1..Len(t.r) |-> Zip3(t.r[k], x.r[k], y.r[k], a, b)]]
\* t := x*a + y*b with array coefficients
RECURSIVE Zip4(_, _, _, _, _)
Zip4(t, x, a, y, b) ==
  IF IsLeaf(t) THEN [t EXCEPT !.v = [j \in 1..Len(t.v) |-> Add(Mul(x.v[j], a.v[j]), Mul(y.v[j], b.v[j]))]]
  ELSE [t EXCEPT !.r = [k \in 1..Len(t.r) |-> Zip4(t.r[k], x.r[k], a.r[k], y.r[k], b.r[k])]]
\* values of y with the leaf bookkeeping (cells) of a fresh array
RECURSIVE Unbound(_)
Unbound(x) == IF IsLeaf(x) THEN [x EXCEPT !.cell = 0] ELSE [x EXCEPT !.r = [k \in 1..Len(x.r) |-> Unbound(x.r[k])]]

(***************************************************************************)
(* += -= *= /= with an array ("Array inherits its numeric operators from    *)
(* NumericVectorWithOffset ... operator+= etc. potentially grow the         *)
(* object ... Array::grow is called, which initialises new elements first   *)
(* to 0"): an operand without elements changes nothing; an empty left       *)
(* operand becomes (+) the operand, (-) its negative, times or divided: zeros of its *)
(* shape; otherwise the outer range grows to the union, sub-arrays that did *)
(* not exist are empty, and the operation is applied to every sub-array     *)
(* with an index of the right operand.                                      *)
(***************************************************************************)
LeafVecOp(x, y, o) ==
  IF NLen(y) = 0 THEN x
  ELSE IF NLen(x) = 0 THEN
    LET c == [x EXCEPT !.lo = y.lo, !.hi = y.hi, !.v = y.v] IN
    CASE o = "+" -> c [] o = "-" -> ScalarT(c, "*", -1) [] OTHER -> ScalarT(c, "*", 0)
  ELSE LET g == ResizeLeaf(x, VMin(x.lo, y.lo), VMax(x.hi, y.hi)) IN
       [g EXCEPT !.v = [j \in 1..Len(g.v) |-> LET i == g.lo + j - 1 IN
                          IF HasIdx(y, i) THEN Arith(o, g.v[j], y.v[i - y.lo + 1]) ELSE g.v[j]]]
RECURSIVE VecOpT(_, _, _)
VecOpT(x, y, o) ==
  IF IsLeaf(x) THEN LeafVecOp(x, y, o)
  ELSE IF NLen(y) = 0 THEN x
  ELSE IF NLen(x) = 0 THEN
    LET c == Unbound(y) IN
    CASE o = "+" -> c [] o = "-" -> ScalarT(c, "*", -1) [] OTHER -> ScalarT(c, "*", 0)
  ELSE LET lo2 == VMin(x.lo, y.lo)
           hi2 == VMax(x.hi, y.hi)
       IN [lo |-> lo2, hi |-> hi2,
           r |-> [k \in 1..(hi2 - lo2 + 1) |->
                    LET i == lo2 + k - 1
                        xi == IF HasIdx(x, i) THEN Row(x, i) ELSE EmptyLike(y.r[1])
                    IN IF HasIdx(y, i) THEN VecOpT(xi, Row(y, i), o) ELSE xi]]

(***************************************************************************)
(* the external block: leaves of slot 1 with cell > 0 alias blk             *)
(***************************************************************************)
RECURSIVE Leaves(_)
Leaves(x) == IF IsLeaf(x) THEN << x >> ELSE Cat([k \in 1..Len(x.r) |-> Leaves(x.r[k])])
\* "return if the array is contiguous in memory": every one-dimensional sub-array that has elements starts where the
\* previous one (in row-major order) ends.  `off' is the observed start of a sub-array, in elements from the first
\* element of the array -- so contiguity is a property of every state, whatever happened to inner sub-arrays
\* (resized through operator[], re-allocated, shrunk in place, copied) before.
ContigObs(x) ==
  LET ls == SelectSeq(Leaves(x), LAMBDA l : NLen(l) > 0) IN
  \A q \in 1..(Len(ls) - 1) : ls[q + 1].off = ls[q].off + NLen(ls[q])
\* write the values of the bound leaves into the block / read them from the block
PushBlk(blk, x) ==
  LET ls == Leaves(x) IN
  [c \in 1..Len(blk) |->
     IF \E q \in 1..Len(ls) : ls[q].cell > 0 /\ c >= ls[q].cell /\ c < ls[q].cell + NLen(ls[q])
     THEN LET q == CHOOSE q \in 1..Len(ls) : ls[q].cell > 0 /\ c >= ls[q].cell /\ c < ls[q].cell + NLen(ls[q]) IN ls[q].v[c - ls[q].cell + 1]
     ELSE blk[c]]
RECURSIVE PullBlk(_, _)
PullBlk(x, blk) ==
  IF IsLeaf(x) THEN (IF x.cell > 0 THEN [x EXCEPT !.v = [j \in 1..Len(x.v) |-> blk[x.cell + j - 1]]] ELSE x)
  ELSE [x EXCEPT !.r = [k \in 1..Len(x.r) |-> PullBlk(x.r[k], blk)]]
\* "The C-array data_ptr will be accessed with the last dimension running fastest": leaf number q of a
\* view starts at the cell after all elements of the leaves before it
RECURSIVE ViewOf(_, _, _)
ViewOf(Rg, blk, first) ==
  IF IsLeafR(Rg) THEN [lo |-> Rg.lo, hi |-> Rg.hi, v |-> [j \in 1..(Rg.hi - Rg.lo + 1) |-> blk[first + j - 1]], cell |-> first]
  ELSE [lo |-> Rg.lo, hi |-> Rg.hi,
        r |-> [k \in 1..Len(Rg.r) |-> ViewOf(Rg.r[k], blk, first + SumSeq([q \in 1..(k - 1) |-> SizeAllR(Rg.r[q])]))]]
RECURSIVE NoEmptyR(_)
NoEmptyR(Rg) == Rg.hi >= Rg.lo /\ (IsLeafR(Rg) \/ \A k \in 1..Len(Rg.r) : NoEmptyR(Rg.r[k]))

(***************************************************************************)
(* regular ranges ("the range of the inner indices does not depend on the   *)
(* value of the outer indices"); an empty array is regular                  *)
(***************************************************************************)
RECURSIVE Regular(_)
Regular(x) == IsLeaf(x) \/ NLen(x) = 0
              \/ (/\ \A k \in 1..Len(x.r) : Regular(x.r[k])
                  /\ \A k \in 1..Len(x.r) : ShapeOf(x.r[k]) = ShapeOf(x.r[1])
                  \* sub-arrays that are empty nodes all report the range 0..-1 in every dimension: equal
                 )

(***************************************************************************)
(* The operations: op = [k, t, a, b, c, Rg]                                  *)
(***************************************************************************)
NR(st) == [st |-> st, res |-> << >>, err |-> FALSE, reshaped |-> FALSE]
NRS(st) == [st |-> st, res |-> << >>, err |-> FALSE, reshaped |-> TRUE]     \* index ranges (may) have changed
NRV(st, x) == [st |-> st, res |-> x, err |-> FALSE, reshaped |-> FALSE]
NE(st) == [st |-> st, res |-> << >>, err |-> TRUE, reshaped |-> FALSE]

NVecOps == {"NVAdd", "NVSub", "NVMul", "NVDiv"}
NScalOps == {"NSAdd", "NSSub", "NSMul", "NSDiv"}
NSym(k) == CASE k \in {"NVAdd", "NSAdd"} -> "+" [] k \in {"NVSub", "NSSub"} -> "-" [] k \in {"NVMul", "NSMul"} -> "*" [] k \in {"NVDiv", "NSDiv"} -> "/"

TempT(Rg, q) == IotaT(ZerosOf(Rg), 10 * q + 1)
SymOf(i) == << "+", "-", "*", "/" >>[i + 1]
NMultiKinds == {"NXapybM", "NXapybSM", "NSapybM", "NVOpM", "NBOpM"}
\* store a new value tree for slot t (same index ranges): bound leaves write through to the block
WithTree(st, t, x) == [st EXCEPT !.s[t] = x, !.blk = IF t = 1 THEN PushBlk(st.blk, x) ELSE st.blk]

NApply(D, st, op) ==
  LET t == op.t
      X == st.s[t]
      Y == st.s[Other(t)]
      k == op.k
  IN
  CASE k = "NDefault" -> NRS([st EXCEPT !.s[t] = EmptyNode])
    [] k = "NConstruct" -> NRS([st EXCEPT !.s[t] = ZerosOf(op.R)])      \* "elements are initialised to 0"
    [] k = "NView" -> NRS([st EXCEPT !.s[t] = ViewOf(op.R, st.blk, 1)]) \* "a view of the data_sptr.get() block"
    [] k = "NCopy" -> NRS([st EXCEPT !.s[t] = Unbound(Y)])
    [] k = "NAssign" -> NRS([st EXCEPT !.s[t] = Unbound(Y)])
    [] k = "NMove" -> NRS([st EXCEPT !.s[t] = Y, !.s[Other(t)] = EmptyNode])
    [] k = "NSwap" -> NRS([st EXCEPT !.s[t] = Y, !.s[Other(t)] = X])
    [] k = "NRecycle" -> NRS([st EXCEPT !.s[t] = EmptyNode])
    [] k \in {"NResize", "NGrow"} -> NRS([st EXCEPT !.s[t] = ResizeT(X, op.R)])
    [] k = "NRowResize" -> NRS([st EXCEPT !.s[t] = ResizeAt(X, op.c, op.a, op.b)])
    [] k = "NFill" -> NR(WithTree(st, t, FillT(X, op.a)))
    [] k = "NIotaAll" -> NR(WithTree(st, t, IotaT(X, op.a)))           \* written through begin_all()..end_all()
    [] k = "NIterAll" -> NRV(st, Flat(X))                               \* read through begin_all()..end_all()
    [] k = "NSetAt" -> IF HasElem(X, op.c) THEN NR(WithTree(st, t, SetElem(X, op.c, op.a))) ELSE NE(st)
    [] k = "NGetAt" -> IF HasElem(X, op.c) THEN NRV(st, << ElemAt(X, op.c) >>) ELSE NE(st)
    [] k = "NSet" -> NR(WithTree(st, t, SetElem(X, op.c, op.a)))        \* operator[](BasicCoordinate), inside the range
    [] k \in NScalOps -> NR(WithTree(st, t, ScalarT(X, NSym(k), op.a)))
    [] k \in NVecOps ->
         LET Z == VecOpT(X, Y, NSym(k)) IN
         IF SameShape(Z, X) THEN NR(WithTree(st, t, Z)) ELSE NRS([st EXCEPT !.s[t] = Z])
    [] k = "NSapyb" -> IF SameShape(X, Y) THEN NR(WithTree(st, t, Zip3(X, X, Y, op.a, op.b))) ELSE NE(st)
    [] k = "NXapyb" ->   \* this.xapyb(x = other, a, y = other, b)
         IF SameShape(X, Y) THEN NR(WithTree(st, t, Zip3(X, Y, Y, op.a, op.b))) ELSE NE(st)
    \* Operands that are temporaries made by the driver: operand q has the index range op.S[q] (the range of the
    \* target, or -- one operand position at a time -- a smaller / larger / shifted outer range or a range that
    \* differs only in an inner dimension) and the values 10q+1, 10q+2, .. in row-major order.
    \* "index ranges don't match" must be reported whichever operand is the odd one, and nothing changes then.
    [] k = "NXapybM" ->     \* this.xapyb(x, a, y, b), array coefficients
         IF \A q \in 1..4 : SameShape(TempT(op.S[q], q), X)
         THEN NR(WithTree(st, t, Zip4(X, TempT(op.S[1], 1), TempT(op.S[2], 2), TempT(op.S[3], 3), TempT(op.S[4], 4)))) ELSE NE(st)
    [] k = "NXapybSM" ->    \* this.xapyb(x, a, y, b), scalar coefficients a, b
         IF \A q \in 1..2 : SameShape(TempT(op.S[q], q), X)
         THEN NR(WithTree(st, t, Zip3(X, TempT(op.S[1], 1), TempT(op.S[2], 2), op.a, op.b))) ELSE NE(st)
    [] k = "NSapybM" ->     \* this.sapyb(a, y, b), array coefficients  (= xapyb(*this, a, y, b))
         IF \A q \in 1..3 : SameShape(TempT(op.S[q], q), X)
         THEN NR(WithTree(st, t, Zip4(X, X, TempT(op.S[1], 1), TempT(op.S[2], 2), TempT(op.S[3], 3)))) ELSE NE(st)
    [] k = "NVOpM" ->       \* this op= w (op.a: 0 + 1 - 2 * 3 /): grows like the operators with the other array
         LET Z == VecOpT(X, TempT(op.S[1], 1), SymOf(op.a)) IN
         IF SameShape(Z, X) THEN NR(WithTree(st, t, Z)) ELSE NRS([st EXCEPT !.s[t] = Z])
    [] k = "NBOpM" ->       \* slot t := this op w (binary operator): a new array
         NRS([st EXCEPT !.s[t] = VecOpT(Unbound(X), TempT(op.S[1], 1), SymOf(op.a))])
    [] k = "NMemSet" -> NR([st EXCEPT !.blk[op.a] = op.b, !.s[1] = PullBlk(st.s[1], [st.blk EXCEPT ![op.a] = op.b])])
    [] k = "NContig" -> NRV(st, << >>)
    \* the operations that take the flat path over the block when is_contiguous(): judged by the row-major contents
    [] k = "NCopyTo" -> NRV(st, Flat(X))                                \* copy_to(array, iterator)
    [] k = "NWriteData" -> NRV(st, Flat(X))                             \* write_data(stream, array), bytes read back
    [] k \in {"NFillFrom", "NReadData"} -> NR(WithTree(st, t, IotaT(X, op.a)))   \* fill_from / read_data of a, a+1, ...
    [] k = "NFullPtr" ->    \* get_const_full_data_ptr(): "If is_contiguous() is false, calls error()"
         IF ContigObs(X) THEN NRV(st, Flat(X)) ELSE NE(st)
    [] k = "NFullPtrW" ->   \* get_full_data_ptr(), a, a+1, ... written through the pointer, release
         IF ContigObs(X) THEN NR(WithTree(st, t, IotaT(X, op.a))) ELSE NE(st)
    [] k = "NNop" -> NR(st)

NKinds == {"NDefault", "NConstruct", "NView", "NCopy", "NAssign", "NMove", "NSwap", "NRecycle", "NResize", "NGrow", "NRowResize",
           "NFill", "NIotaAll", "NIterAll", "NSetAt", "NGetAt", "NSet", "NSapyb", "NXapyb", "NMemSet", "NContig", "NNop",
           "NCopyTo", "NWriteData", "NFillFrom", "NReadData", "NFullPtr", "NFullPtrW"}
          \cup NVecOps \cup NScalOps \cup NMultiKinds

RECURSIVE CellsZero(_)
CellsZero(ob) == IF IsLeaf(ob) THEN ob.cell = 0 ELSE \A k \in 1..Len(ob.r) : CellsZero(ob.r[k])
\* calls within the documented contract
NEnabled(D, st, op) ==
  LET X == st.s[op.t] IN
  /\ op.k \in NKinds /\ op.t \in {1, 2}
  /\ op.k = "NView" => (op.t = 1 /\ NoEmptyR(op.R) /\ SizeAllR(op.R) <= Len(st.blk))
  /\ op.k = "NMove" => op.t = 1                      \* (slot 2 never views the block)
  /\ op.k = "NSwap" => CellsZero(st.s[1])
  /\ op.k = "NGrow" => \A p \in { Paths(X)[j] : j \in 1..SizeAll(X) } : HasElem(ZerosOf(op.R), p)
  /\ op.k = "NSet" => HasElem(X, op.c)
  /\ op.k = "NRowResize" => HasLeaf(X, op.c)
  /\ op.k = "NMemSet" => (op.a >= 1 /\ op.a <= Len(st.blk))
  /\ op.k \in {"NCopyTo", "NWriteData", "NFillFrom", "NReadData", "NFullPtr", "NFullPtrW"} => SizeAll(X) > 0
  /\ op.k \in {"NSetAt", "NGetAt"} => Len(op.c) = D
  /\ op.k \in NMultiKinds => Len(op.S) = (CASE op.k = "NXapybM" -> 4 [] op.k = "NXapybSM" -> 2 [] op.k = "NSapybM" -> 3 [] OTHER -> 1)
  /\ op.k \in {"NVOpM", "NBOpM"} => op.a \in 0..3

(***************************************************************************)
(* observation of the real objects                                          *)
(***************************************************************************)
RECURSIVE TreeMatch(_, _, _)
\* values (modulo U), index ranges and -- when demanded -- the cells of the leaves
TreeMatch(x, ob, cells) ==
  IF IsLeaf(x) THEN /\ IsLeaf(ob) /\ ob.lo = x.lo /\ ob.hi = x.hi /\ SeqMatch(x.v, ob.v) /\ (cells => ob.cell = x.cell)
  ELSE /\ ~IsLeaf(ob) /\ ob.lo = x.lo /\ ob.hi = x.hi /\ Len(ob.r) = Len(x.r)
       /\ \A k \in 1..Len(x.r) : TreeMatch(x.r[k], ob.r[k], cells)
\* a bound leaf lies inside the block and shows the block's cells
RECURSIVE CellsCoherent(_, _)
CellsCoherent(ob, blk) ==
  IF IsLeaf(ob) THEN (ob.cell > 0 /\ NLen(ob) > 0) => (ob.cell + NLen(ob) - 1 <= Len(blk) /\ \A j \in 1..NLen(ob) : ob.v[j] = blk[ob.cell + j - 1])
  ELSE \A k \in 1..Len(ob.r) : CellsCoherent(ob.r[k], blk)

\* ob = [t (tree), sz (size_all), sum, reg (is_regular), rng (get_index_range as a tree), n (size), em (empty)]
NObsMatch(x, ob, cells) ==
  /\ TreeMatch(x, ob.t, cells)
  /\ ob.sz = SizeAll(x)                                 \* "size ... reflects the contents"
  /\ ob.n = NLen(x) /\ ob.em = (NLen(x) = 0)
  /\ ob.rng = ShapeOf(x)                                \* get_index_range()
  /\ ob.reg = Regular(x)
  /\ ob.contig = ContigObs(ob.t)                        \* is_contiguous() after every operation
  /\ LET s == SumSeq(Flat(x)) IN s # U => ob.sum = s

NEqVal(st) ==
  LET a == st.s[1]
      b == st.s[2]
      fa == Flat(a)
      fb == Flat(b)
  IN IF ~SameShape(a, b) THEN "F"
     ELSE IF \E j \in 1..Len(fa) : fa[j] # U /\ fb[j] # U /\ fa[j] # fb[j] THEN "F"
     ELSE IF \E j \in 1..Len(fa) : fa[j] = U \/ fb[j] = U THEN "any"
     ELSE "T"

NStateOfObs(o) == [s |-> << o.s[1].t, o.s[2].t >>, blk |-> o.blk]
NStateOK(o) == CellsZero(o.s[2].t) /\ CellsCoherent(o.s[1].t, o.blk)

\* is the recorded step explained?  (abort = TRUE: the call ended in a sanitizer report)
NStepOK(D, pre, op, res, err, post) ==
  LET st == NStateOfObs(pre)
      r == NApply(D, st, op)
      \* after an operation that changes the index ranges of the (possibly viewing) slot 1 the relation
      \* to the external memory is not specified ("resizing is therefore problematic"): not demanded
      loose == r.reshaped /\ (op.t = 1 \/ op.k \in {"NMove", "NSwap"})
  IN /\ NEnabled(D, st, op)
     /\ err = r.err
     /\ (op.k \in {"NIterAll", "NGetAt", "NCopyTo", "NWriteData", "NFullPtr"} /\ ~err) => SeqMatch(r.res, res)
     /\ NObsMatch(r.st.s[1], post.s[1], ~loose \/ op.k = "NView")
     /\ NObsMatch(r.st.s[2], post.s[2], FALSE)
     /\ NStateOK(post)
     /\ ~loose => SeqMatch(r.st.blk, post.blk)
     /\ LET e == NEqVal(r.st) IN (e = "T" => post.eq) /\ (e = "F" => ~post.eq)
     \* contiguity: a freshly constructed array (owning or viewing) with elements in every sub-array
     \* is one contiguous block
     /\ (op.k \in {"NConstruct", "NView"} /\ NoEmptyR(op.R)) => post.s[op.t].contig

(***************************************************************************)
(* signatures of the known findings (known_findings.jsonl)                  *)
(***************************************************************************)
\* the observation Q agrees with the prediction P everywhere except inside sub-arrays (at any level) whose
\* outer index did not exist in the array X before the operation (re-exposed left-over sub-arrays keep their
\* earlier index range and contents)
RECURSIVE StaleDiff(_, _, _)
StaleDiff(X, P, Q) ==
  IF IsLeaf(P) THEN TreeMatch(P, Q, FALSE)
  ELSE /\ ~IsLeaf(Q) /\ Q.lo = P.lo /\ Q.hi = P.hi /\ Len(Q.r) = Len(P.r)
       /\ \A k \in 1..Len(P.r) : LET i == P.lo + k - 1 IN
             IF ~IsLeaf(X) /\ HasIdx(X, i) THEN StaleDiff(Row(X, i), P.r[k], Q.r[k]) ELSE TRUE
StaleOnly(X, P, Q) == ~TreeMatch(P, Q, FALSE) /\ StaleDiff(X, P, Q)
=============================================================================
