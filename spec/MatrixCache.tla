------------------------------ MODULE MatrixCache ------------------------------
(***************************************************************************)
(* The row cache of ProjMatrixByBin and the life cycle of                  *)
(* ProjMatrixByBinUsingRayTracing (property C03): a row of the system      *)
(* matrix is determined by the bin and the geometry the matrix was last    *)
(* set up for - whatever the symmetry switches, the cache mode, the order  *)
(* and repetition of requests, clear_cache and re-set_up.                  *)
(*                                                                         *)
(* The state of one matrix object is a record st:                          *)
(*   impl       "RayTracing" | "Interpolation" | "FromFile": the class of   *)
(*              the object (they differ in the set-up life cycle and in     *)
(*              what "computing a row" means, see below)                    *)
(*   stored     FromFile: identity of the geometry the file was written for *)
(*   keepAll, processed   SPECTUB: keep_all_views_in_cache; the views whose *)
(*              rows have been computed (subset_already_processed)          *)
(*   cache      set of entries [view, seg, key, bin, row]: the maps        *)
(*              cache_collection[view][segment] : key -> row               *)
(*              (bin is a ghost field: the bin the row was stored for)     *)
(*   cacheOn    !cache_disabled          (enable_cache)                    *)
(*   basicOnly  cache_stores_only_basic_bins                               *)
(*   done       already_setup                                              *)
(*   gen        identity of the geometry (data geometry, image grid,       *)
(*              number of tangential rays) of the last effective set_up    *)
(*   req        requested symmetry switches (set_do_symmetry_xxx)            *)
(*   esw, c, g  effective switches / configuration / grid of the           *)
(*              symmetries object built by the last effective set_up       *)
(* Rows are uninterpreted: Row(gen, bin) is "the row of bin for geometry   *)
(* gen, computed directly".  Transforming it by the symmetry operation     *)
(* that FindOp chose for bin b gives Row(gen, b): that is theorem S1/S2 of *)
(* Symmetries.tla (bin map and voxel map describe the same isometry).      *)
(*                                                                         *)
(* The operations are functions from a state to [st, hooks, ret]: the new  *)
(* state, the sequence of cache events the implementation emits (call-outs *)
(* "cache.lookup", "cache.insert", "cache.clear") and the returned row.    *)
(* MC_MatrixCache explores all short histories; Trace_MatrixCache replays  *)
(* recorded executions of the real class through the same functions.       *)
(***************************************************************************)
EXTENDS Symmetries

(* ------------------------------ cache key ------------------------------- *)
(* cache_key(bin): bit fields, from the least significant bit              *)
(*   |tof| (w.tof bits), sign tof, |tang| (w.tang), sign tang, |ax| (w.ax),*)
(*   sign ax.   (view and segment select the map, they are not in the key) *)
(* The real widths give a 64-bit key, beyond TLC's integers: keys are      *)
(* handled as sequences of L-bit limbs (least significant first).          *)
RealW == [ax |-> 28, tang |-> 12, tof |-> 20]
Sg(x) == IF x >= 0 THEN 0 ELSE 1
KeyFields(w, b) ==
  << [w |-> w.tof, v |-> Abs(b.tof)], [w |-> 1, v |-> Sg(b.tof)],
     [w |-> w.tang, v |-> Abs(b.tang)], [w |-> 1, v |-> Sg(b.tang)],
     [w |-> w.ax, v |-> Abs(b.ax)], [w |-> 1, v |-> Sg(b.ax)] >>
KeyBits(w) == w.tof + w.tang + w.ax + 3
\* bit offset of field i
FieldOff(f, i) == IF i = 1 THEN 0 ELSE IF i = 2 THEN f[1].w ELSE IF i = 3 THEN f[1].w + f[2].w
                  ELSE IF i = 4 THEN f[1].w + f[2].w + f[3].w ELSE IF i = 5 THEN f[1].w + f[2].w + f[3].w + f[4].w
                  ELSE f[1].w + f[2].w + f[3].w + f[4].w + f[5].w
\* the part of field i that falls into limb j (bits [L*(j-1), L*j) of the key), as its contribution to the limb
FieldInLimb(f, i, L, j) ==
  LET off == FieldOff(f, i)
      lo == Max2(off, L * (j - 1))
      hi == Min2(off + f[i].w, L * j)
  IN IF lo >= hi THEN 0 ELSE ((f[i].v \div (2 ^ (lo - off))) % (2 ^ (hi - lo))) * (2 ^ (lo - L * (j - 1)))
LimbOf(f, L, j) == FieldInLimb(f, 1, L, j) + FieldInLimb(f, 2, L, j) + FieldInLimb(f, 3, L, j)
                   + FieldInLimb(f, 4, L, j) + FieldInLimb(f, 5, L, j) + FieldInLimb(f, 6, L, j)
NumLimbs(w, L) == (KeyBits(w) + L - 1) \div L
KeyLimbs(w, L, b) == [ j \in 1..NumLimbs(w, L) |-> LimbOf(KeyFields(w, b), L, j) ]
\* the key as one integer (small widths only)
KeyInt(w, b) == LET f == KeyFields(w, b) IN
  f[1].v + f[2].v * 2 ^ FieldOff(f, 2) + f[3].v * 2 ^ FieldOff(f, 3) + f[4].v * 2 ^ FieldOff(f, 4)
  + f[5].v * 2 ^ FieldOff(f, 5) + f[6].v * 2 ^ FieldOff(f, 6)
\* "not enough bits reserved for this data in the caching mechanism" otherwise
Admissible(w, b) == Abs(b.ax) < 2 ^ w.ax /\ Abs(b.tang) < 2 ^ w.tang /\ Abs(b.tof) < 2 ^ w.tof
\* S4: on the admissible box the key determines (ax, tang, tof); the limbs are the digits of the key
KeyBox(w) == { Bin(0, a, 0, t, k) : a \in (-(2 ^ w.ax) + 1)..(2 ^ w.ax - 1), t \in (-(2 ^ w.tang) + 1)..(2 ^ w.tang - 1),
                                   k \in (-(2 ^ w.tof) + 1)..(2 ^ w.tof - 1) }
S4(w, L) ==
  /\ \A b1, b2 \in KeyBox(w) : KeyInt(w, b1) = KeyInt(w, b2) => b1 = b2
  /\ \A b \in KeyBox(w) :
       /\ KeyInt(w, b) < 2 ^ KeyBits(w)
       /\ \A j \in 1..NumLimbs(w, L) : KeyLimbs(w, L, b)[j] = (KeyInt(w, b) \div (2 ^ (L * (j - 1)))) % (2 ^ L)
Key(b) == KeyLimbs(RealW, 16, b)

(* ------------------------------ rows ------------------------------------ *)
Row(gen, b) == [gen |-> gen, bin |-> b]
TransformId(op, row) == [row EXCEPT !.bin = BinMap(op, row.bin)]
NoRow == [gen |-> -1]

(* ------------------------------ the object ------------------------------ *)
NewMatrix(impl, req, cacheOn, basicOnly) ==
  [impl |-> impl, stored |-> 0, keepAll |-> TRUE, processed |-> {}, cache |-> {}, cacheOn |-> cacheOn, basicOnly |-> basicOnly, done |-> FALSE, gen |-> 0, req |-> req,
   esw |-> NoSym, c |-> [N |-> 0], g |-> [nppr |-> 0]]
\* defaults of the class: every symmetry on, cache enabled, only basic bins stored
AllSym == [s90 |-> TRUE, s180 |-> TRUE, sseg |-> TRUE, ss |-> TRUE, sz |-> TRUE]
DefaultMatrix == NewMatrix("RayTracing", AllSym, TRUE, TRUE)
(* Life cycle per class.                                                   *)
(* ProjMatrixByBinUsingRayTracing keeps an "already set up" flag: set_up   *)
(* is "skipped as already set-up with same characteristics", every setter  *)
(* that changes a value clears the flag and a computation with a cleared   *)
(* flag is refused; set_up ends with clear_cache (call-out).               *)
(* ProjMatrixByBinUsingInterpolation has no such flag: set_up is never     *)
(* skipped and re-creates the cache maps (no clear_cache call-out); its    *)
(* switches and cache mode are set by parsing and the switches take effect *)
(* at the next set_up.                                                      *)
(* ProjMatrixByBinFromFile reads the rows of the basic bins from a file:    *)
(* parsing the header builds the symmetries from the stored switches and   *)
(* template geometry; set_up refuses any other image geometry (leaving the *)
(* object as it was), otherwise re-creates the cache maps and stores every *)
(* row of the file in them (one cache.insert call-out per row, when the    *)
(* cache is enabled).  A row that is not found in the cache is "computed"  *)
(* as the EMPTY row (calculate_proj_matrix_elems_for_one_bin erases it):   *)
(* the cache is the storage of this class (known finding C03-fromfile-     *)
(* cache: with the cache disabled or after clear_cache rows are empty).    *)
HasSetUpFlag(st) == st.impl = "RayTracing"
EmptyRow(gen, b) == [gen |-> gen, bin |-> b, empty |-> TRUE]
IsEmptyRow(row) == "empty" \in DOMAIN row
Computed(st, bb) == IF st.impl = "FromFile" THEN EmptyRow(st.gen, bb) ELSE Row(st.gen, bb)
Refused(st) == HasSetUpFlag(st) /\ ~st.done


Out(st, hooks, ret) == [st |-> st, hooks |-> hooks, ret |-> ret]

\* call-outs; k = Key(b) is passed in so that it is computed once per call
EvLookupK(b, k, found) == << "lookup", b.view, b.seg, k, IF found THEN 1 ELSE 0 >>
EvInsertK(b, k, present) == << "insert", b.view, b.seg, k, IF present THEN 1 ELSE 0 >>
EvLookup(b, found) == EvLookupK(b, Key(b), found)
EvInsert(b, present) == EvInsertK(b, Key(b), present)
EvClear == << "clear" >>

\* the entries of map [b.view][b.seg] stored under key k
FindK(st, b, k) == { e \in st.cache : e.view = b.view /\ e.seg = b.seg /\ e.key = k }
Find(st, b) == FindK(st, b, Key(b))
\* get_cached_proj_matrix_elems_for_one_bin: no event and no hit when the cache is disabled
\* (f = FindK(st, b, k))
LookupEvents(st, b, k, f) == IF st.cacheOn THEN << EvLookupK(b, k, f # {}) >> ELSE << >>
LookupHit(st, f) == st.cacheOn /\ f # {}
CachedRow(f) == (CHOOSE e \in f : TRUE).row
\* cache_proj_matrix_elems_for_one_bin: unordered_map::insert never replaces an existing entry
InsertEvents(st, b, k, f) == IF st.cacheOn THEN << EvInsertK(b, k, f # {}) >> ELSE << >>
Inserted(st, b, k, f, row) ==
  IF st.cacheOn /\ f = {}
  THEN [st EXCEPT !.cache = @ \cup { [view |-> b.view, seg |-> b.seg, key |-> k, bin |-> b, row |-> row] }]
  ELSE st

\* what the writer stores: the row of every basic bin of the (non-TOF) data, once
BasicSet(c, esw) == { FindBasic(c, esw, b) : b \in AllBins(c) }   \* (cylindrical data)
NewFromFile(gen, c, g, headerSw, cacheOn, basicOnly) ==
  [NewMatrix("FromFile", headerSw, cacheOn, basicOnly) EXCEPT !.stored = gen, !.c = c, !.g = g,
                                                               !.esw = EffectiveSwitches(c, g, headerSw)]
FileEntries(st, gen) == { [view |-> bb.view, seg |-> bb.seg, key |-> Key(bb), bin |-> bb, row |-> Row(gen, bb)] : bb \in BasicSet(st.c, st.esw) }
\* set_up of a FromFile object for geometry gen: [st, inserts (a SET of call-outs: the order is the file's), refused]
\* (notes/C03-fix-5.diff makes set_up refuse a disabled cache; the runner sets C03_FROMFILE_GUARD_FIXED when
\* that patch is present in the source tree under test)
FromFileGuardApplied == "C03_FROMFILE_GUARD_FIXED" \in DOMAIN IOEnv
DoSetUpFromFile(st, gen) ==
  IF gen # st.stored \/ (FromFileGuardApplied /\ ~st.cacheOn) THEN [st |-> st, inserts |-> {}, refused |-> TRUE]
  ELSE [st |-> [st EXCEPT !.cache = IF st.cacheOn THEN FileEntries(st, gen) ELSE {}, !.done = TRUE, !.gen = gen],
        inserts |-> IF st.cacheOn THEN { EvInsert(bb, FALSE) : bb \in BasicSet(st.c, st.esw) } ELSE {},
        refused |-> FALSE]

(* ProjMatrixByBinSPECTUB (no symmetries) computes the rows of a whole VIEW *)
(* at a time and keeps them in the cache: a request that misses the cache   *)
(* in a view not computed yet first - unless all views are kept - clears    *)
(* the cache and forgets which views were computed, then computes the view  *)
(* and stores every row of it (one cache.insert call-out per bin).  This    *)
(* section is IMPLEMENTATION-SHAPED: it says what the class does, including *)
(* what the property forbids (known finding C03-spectub-empty): the request *)
(* that triggers the computation gets an EMPTY row; set_up re-creates the   *)
(* cache maps BEFORE deciding that "the stored matrix can be reused", and   *)
(* clear_cache keeps the record of computed views - in both cases every row *)
(* of an already computed view is empty from then on; with the cache        *)
(* disabled every row is empty.  What the property demands is in            *)
(* SpectubIntended.                                                         *)
NewSpectub(keepAll, cacheOn, basicOnly) == [NewMatrix("SPECTUB", NoSym, cacheOn, basicOnly) EXCEPT !.keepAll = keepAll]
ViewBins(c, v) == { x \in AllBins(c) : x.view = v }
DoSetUpSpectub(st, gen, c, g) ==
  IF st.done /\ gen = st.gen
  THEN Out([st EXCEPT !.cache = {}], << >>, NoRow)          \* maps re-created, then "just reuse it": processed is kept
  ELSE Out([st EXCEPT !.cache = {}, !.done = TRUE, !.gen = gen, !.c = c, !.g = g, !.esw = NoSym, !.processed = {}],
           IF st.done THEN << EvClear >> ELSE << >>, NoRow)
\* set_keep_all_views_in_cache: a changed value requires a new set_up
DoSetKeepAll(st, v) == Out([st EXCEPT !.keepAll = v, !.done = @ /\ v = st.keepAll], << >>, NoRow)
\* a request: [st, pre, clear, inserts, post, ret]: call-outs = pre, then (if clear) cache.clear, then the inserts of
\* the view in any order, then post
DoGetSpectub(st, b) ==
  LET kb == Key(b)
      fb == FindK(st, b, kb)
      l1 == LookupEvents(st, b, kb, fb)
      pre == IF st.basicOnly THEN l1 ELSE l1 \o l1          \* without symmetries the basic bin is the bin: looked up twice
      none == [st |-> st, pre |-> pre, clear |-> FALSE, inserts |-> {}, post |-> << >>, ret |-> NoRow]
  IN IF LookupHit(st, fb) THEN [none EXCEPT !.pre = l1, !.ret = CachedRow(fb)]
     ELSE LET compute == b.view \notin st.processed
              clear == compute /\ ~st.keepAll
              base == IF clear THEN {} ELSE st.cache
              new == IF compute /\ st.cacheOn
                     THEN { [view |-> x.view, seg |-> x.seg, key |-> Key(x), bin |-> x, row |-> Row(st.gen, x)] :
                              x \in { y \in ViewBins(st.c, b.view) : ~(\E e \in base : e.bin = y) } }
                     ELSE {}
              st1 == [st EXCEPT !.cache = base \cup new,
                                !.processed = IF compute THEN (IF clear THEN {} ELSE @) \cup {b.view} ELSE @]
              f1 == FindK(st1, b, kb)
              \* the row handed back by the computation is empty; it is offered to the cache under the bin's key
          IN [st |-> Inserted(st1, b, kb, f1, EmptyRow(st.gen, b)), pre |-> pre, clear |-> clear,
              inserts |-> IF compute /\ st.cacheOn
                          THEN { EvInsert(x, \E e \in base : e.bin = x) : x \in ViewBins(st.c, b.view) } ELSE {},
              post |-> InsertEvents(st1, b, kb, f1), ret |-> EmptyRow(st.gen, b)]
\* the property: whatever the history, the row of the bin for the current geometry
SpectubIntended(st, b) == Row(st.gen, b)

\* enable_cache, store_only_basic_bins_in_cache: only flip the mode, the content stays
DoEnableCache(st, v) == Out([st EXCEPT !.cacheOn = v], << >>, NoRow)
DoStoreOnlyBasic(st, v) == Out([st EXCEPT !.basicOnly = v], << >>, NoRow)
\* clear_cache: "Remove all elements from the cache"
DoClear(st) == Out([st EXCEPT !.cache = {}], << EvClear >>, NoRow)
\* set_do_symmetry_xxx: a changed switch requires a new set_up
DoSetSwitches(st, req) == Out([st EXCEPT !.req = req, !.done = IF HasSetUpFlag(st) THEN @ /\ req = st.req ELSE @], << >>, NoRow)
\* parsing the parameters of the object: switches and cache mode (Interpolation)
DoParse(st, req, cacheOn, basicOnly) == Out([st EXCEPT !.req = req, !.cacheOn = cacheOn, !.basicOnly = basicOnly], << >>, NoRow)
\* set_up(gen, c, g): "skipped as already set-up with same characteristics", otherwise the cache is
\* emptied and geometry and symmetries are replaced
SetUpSkipped(st, gen) == HasSetUpFlag(st) /\ st.done /\ gen = st.gen
DoSetUp(st, gen, c, g) ==
  IF SetUpSkipped(st, gen) THEN Out(st, << >>, NoRow)
  ELSE Out([st EXCEPT !.cache = {}, !.done = TRUE, !.gen = gen, !.c = c, !.g = g,
                      !.esw = EffectiveSwitches(c, g, st.req)], IF HasSetUpFlag(st) THEN << EvClear >> ELSE << >>, NoRow)
\* set_up reported an error (a geometry the class documents as unsupported): nothing the object
\* holds may be used until a set_up succeeds - modelled as an object without geometry (gen = -1)
DoSetUpRefused(st) == Out([st EXCEPT !.cache = {}, !.done = FALSE, !.gen = -1], << >>, NoRow)

\* get_proj_matrix_elems_for_one_bin, step by step.  ret = NoRow: error "used before calling setup"
DoGet(st, b) ==
  LET bb == FindBasicG(st.c, st.g, st.esw, b)
      op == FindOpG(st.c, st.g, st.esw, b)
      kb == Key(b)
      kbb == Key(bb)
      fb == FindK(st, b, kb)             \* what the map holds for the bin
      fbb == FindK(st, bb, kbb)          \* ... and for its basic bin
  IN IF st.basicOnly THEN
       \* find symmetry operator and basic bin; check if basic bin is in cache
       LET l1 == LookupEvents(st, bb, kbb, fbb) IN
       IF LookupHit(st, fbb) THEN Out(st, l1, TransformId(op, CachedRow(fbb)))
       ELSE IF Refused(st) THEN Out(st, l1, NoRow)
       ELSE \* compute the basic row, cache it, then transform to the original bin
            Out(Inserted(st, bb, kbb, fbb, Computed(st, bb)), l1 \o InsertEvents(st, bb, kbb, fbb), TransformId(op, Computed(st, bb)))
     ELSE
       \* if the bin is in the cache, that is the row
       LET l1 == LookupEvents(st, b, kb, fb) IN
       IF LookupHit(st, fb) THEN Out(st, l1, CachedRow(fb))
       ELSE \* else check if the basic bin is
            LET l2 == LookupEvents(st, bb, kbb, fbb) IN
            IF LookupHit(st, fbb)
            THEN LET r == TransformId(op, CachedRow(fbb)) IN Out(Inserted(st, b, kb, fb, r), l1 \o l2 \o InsertEvents(st, b, kb, fb), r)
            ELSE IF Refused(st) THEN Out(st, l1 \o l2, NoRow)
            ELSE LET r == TransformId(op, Computed(st, bb)) IN Out(Inserted(st, b, kb, fb, r), l1 \o l2 \o InsertEvents(st, b, kb, fb), r)

(* ------------------------------ invariants ------------------------------ *)
\* every cached entry is the row of its bin for the current geometry, under the key of that bin,
\* and a map never holds two rows under one key
CacheSound(st) ==
  /\ \A e \in st.cache : (e.row = Row(st.gen, e.bin) \/ (st.impl = "FromFile" /\ e.row = EmptyRow(st.gen, e.bin))) /\ e.key = Key(e.bin) /\ e.view = e.bin.view /\ e.seg = e.bin.seg
  /\ \A e1, e2 \in st.cache : (e1.view = e2.view /\ e1.seg = e2.seg /\ e1.key = e2.key) => e1 = e2
\* whatever the history, a request returns the row of the requested bin for the current geometry
\* (or reports that the matrix is not set up)
GetCorrect(st, b) == LET o == DoGet(st, b) IN
  \/ o.ret = NoRow \/ o.ret = Row(st.gen, b)
  \* FromFile: the empty row, exactly when the file's row of the basic bin is not (or no longer) in the cache
  \/ /\ st.impl = "FromFile" /\ o.ret = EmptyRow(st.gen, b)
     /\ LET bb == FindBasicG(st.c, st.g, st.esw, b) IN ~(\E e \in st.cache : e.bin = bb /\ e.row = Row(st.gen, bb)) \/ ~st.cacheOn
GetDefined(st, b) == st.done => DoGet(st, b).ret # NoRow
=============================================================================
