SPECIFICATION Spec
CONSTANTS MaxOps = 2 Depth = 2 NViews = 1 TangBelow = 0 ModAt = {1}
INVARIANTS InvFactor InvTrivialMC InvReportsTrivial InvTof InvSetUp InvChain InvCurrent
CHECK_DEADLOCK FALSE
