SPECIFICATION Spec
CONSTANTS MaxOps = 2 Depth = 2
INVARIANTS InvFactor InvTrivialMC InvReportsTrivial InvTof InvSetUp InvChain
CHECK_DEADLOCK FALSE
