---------------------------- MODULE Trace_Subsets ----------------------------
(* Trace validation for C06 (subsets): every line recorded from the real symmetries objects, *)
(* detail::find_basic_vs_nums_in_subset, the objective function's balance verdict and the      *)
(* projectors must be explained by Subsets.tla.  The lines of one configuration are            *)
(* independent observations of functions of the configuration, so validation does not stop at  *)
(* the first unexplained line: their indices are collected in `bad'.                           *)
(* A (view, segment) is logged as the code (segment+8)*256 + view, a (view, segment, TOF bin)   *)
(* as ((tof+8)*32 + segment+8)*256 + view.                                                      *)
EXTENDS Subsets, TraceLib
VARIABLES l, c, isb, rel, bad

NoCfg == [views |-> 0]
VSOf(code) == << code % 256, (code \div 256) - 8 >>
VSTOf(code) == << << code % 256, ((code \div 256) % 32) - 8 >>, (code \div 8192) - 8 >>
SeqToVS(q) == [i \in 1 .. Len(q) |-> VSOf(q[i])]
Tail2(q) == [i \in 1 .. Len(q) - 2 |-> VSOf(q[i + 2])]

CfgOf(r) == [views |-> r.numViews, minSeg |-> r.minSeg, maxSeg |-> r.maxSeg, s90 |-> r.eff[1] = 1, s180 |-> r.eff[2] = 1, sseg |-> r.eff[3] = 1,
             minTof |-> r.minTof, maxTof |-> r.maxTof]

(* the configuration the library arrived at must be one for which the documented symmetry       *)
(* groups exist ("automatically reduced ... when the number of views is not a multiple of 4"),   *)
(* and never has more symmetry than was asked for                                               *)
ConfigOk(r) ==
  LET cc == CfgOf(r) IN
  /\ Legal(cc)
  /\ r.numViews = r.views /\ r.minView = 0 /\ r.maxView = r.numViews - 1
  /\ r.maxSeg <= r.dataMaxSeg /\ r.minSeg >= r.dataMinSeg /\ r.minTof = -r.maxTof
  /\ (cc.s90 => r.req[1] = 1) /\ (cc.s180 => (r.req[1] = 1 \/ r.req[2] = 1)) /\ (cc.sseg => r.req[3] = 1)
  /\ (~r.cartesian => (~cc.s90 /\ ~cc.s180 /\ ~cc.sseg))

(* is_basic / find_basic_view_segment_numbers for every pair of the processed range:             *)
(* "sets 'v_s' to the corresponding 'basic' view/segment and returns true if 'v_s' is changed     *)
(* (i.e. it was NOT a basic view/segment)"; "all ViewSegmentNumbers can be obtained by using      *)
(* symmetry operations on the 'basic' ones" - and for the subsets to be disjoint, from exactly   *)
(* one basic one                                                                                 *)
BasicOk(r) ==
  LET I == { VSOf(r.isb[i]) : i \in 1 .. Len(r.isb) }
      A == AllVS(c) IN
  /\ I \subseteq A
  /\ Len(r.fb) = Cardinality(A)
  /\ { VSOf(r.fb[i][1]) : i \in 1 .. Len(r.fb) } = A
  /\ \A i \in 1 .. Len(r.fb) :
       LET vs == VSOf(r.fb[i][1])
           b == VSOf(r.fb[i][2])
           changed == r.fb[i][3] = 1 IN
       /\ b \in Orbit(c, vs) /\ b \in I
       /\ (vs \in I) <=> ~changed
       /\ ~changed => b = vs
  /\ \A vs \in A : Cardinality(Orbit(c, vs) \cap I) = 1

(* get_related_view_segment_numbers: "fills in a vector with all the view/segments that are       *)
(* related to 'v_s' (including itself)" = the documented orbit, each once; num_related = its size *)
RelatedOk(r) ==
  /\ { VSOf(r.rel[i][1]) : i \in 1 .. Len(r.rel) } = isb
  /\ Len(r.rel) = Cardinality(isb)
  /\ \A i \in 1 .. Len(r.rel) :
       LET b == VSOf(r.rel[i][1])
           lst == Tail2(r.rel[i]) IN
       /\ Range(lst) = Orbit(c, b) /\ NoDup(lst) /\ r.rel[i][2] = Len(lst)
RelOf(r) == [b \in { VSOf(r.rel[i][1]) : i \in 1 .. Len(r.rel) } |->
               LET i == CHOOSE j \in 1 .. Len(r.rel) : VSOf(r.rel[j][1]) = b IN Range(Tail2(r.rel[i]))]

ProcessedRec(lst) == UNION { rel[b] : b \in Range(lst) }
(* one number of subsets: the lists of detail::find_basic_vs_nums_in_subset for every subset and  *)
(* the verdict of subsets_are_approximately_balanced                                              *)
SubsetsOk(r) ==
  LET N == r.N IN
  /\ N >= 1 /\ Len(r.subs) = N /\ r.used = N
  /\ \A s \in 0 .. N - 1 :
       LET lst == SeqToVS(r.subs[s + 1]) IN
       \* mechanism: views subset_num, subset_num+num_subsets, ... of which the basic ones, each once
       /\ NoDup(lst)
       /\ Range(lst) = SubsetVSFor(c, s, N, LAMBDA vs : vs \in isb)
  \* property: "the view/segment groups processed for the different subsets are disjoint and together
  \* contain every (segment, view, TOF bin) of the data exactly once" (every TOF bin is processed with its pair)
  /\ LET P == [s \in 0 .. N - 1 |-> ProcessedRec(SeqToVS(r.subs[s + 1]))] IN
     /\ IsPartition(P, N, AllVS(c))
     \* property: "reported as balanced exactly when all subsets process the same number of viewgrams"
     /\ r.bal <=> EqualSizes([s \in 0 .. N - 1 |-> Cardinality(P[s])], N)

(* projector / objective-function level: the (view, segment, TOF bin) viewgrams actually read or    *)
(* written for subset s of N, with multiplicity                                                    *)
TouchedOk(r) ==
  LET lst == [i \in 1 .. Len(r.codes) |-> VSTOf(r.codes[i])]
      B == SubsetVSFor(c, r.s, r.N, LAMBDA vs : vs \in isb) IN
  /\ r.N >= 1 /\ r.s \in 0 .. r.N - 1
  /\ ~r.err
  /\ NoDup(lst)
  /\ Range(lst) = (UNION { rel[b] : b \in B }) \X Tofs(c)
(* all subsets of one sweep together: every viewgram of the data exactly once *)
SweepOk(r) ==
  LET lst == [i \in 1 .. Len(r.codes) |-> VSTOf(r.codes[i])] IN
  /\ ~r.err /\ NoDup(lst) /\ Range(lst) = AllData(c)

(* "configuration that the library accepts": a call that announces an error before anything was read or written, for a   *)
(* segment range that is not closed under the symmetries used, is a refusal, not a violation                         *)
Refused(r) == r.err /\ Len(r.codes) = 0 /\ c.sseg /\ c.minSeg # -c.maxSeg

Explains(r) ==
  CASE r.e = "ConfigRejected" -> TRUE
    [] r.e = "Basic" -> c # NoCfg /\ BasicOk(r)
    [] r.e = "Related" -> c # NoCfg /\ RelatedOk(r)
    [] r.e = "Subsets" -> c # NoCfg /\ SubsetsOk(r)
    [] r.e = "Touched" -> c # NoCfg /\ (TouchedOk(r) \/ Refused(r))
    [] r.e = "Sweep" -> c # NoCfg /\ (SweepOk(r) \/ Refused(r))
    \* the objective function must accept every configuration with a symmetric segment range (the range it processes is
    \* -max_segment_num_to_process..max_segment_num_to_process; data with another range may be refused with an error);
    \* a child process that died inside the code under test ("Died") is never a legal behaviour
    [] r.e = "ObjectiveRejected" -> c # NoCfg /\ r.err /\ c.minSeg # -c.maxSeg
    [] r.e = "Died" -> FALSE
    [] OTHER -> FALSE

\* An unexplained line is attributed to a known finding only by the configuration class named in
\* known_findings.jsonl.  C06-asymseg: the segment range of the data is not symmetric (reduce_segment_range) and
\* (a) the projector uses the swap-segment symmetry (segments without partner are silently skipped, or the partner
\* outside the range is addressed: error / crash), or (b) the objective function processes -max..max
\* (max_segment_num_to_process) instead of min..max.  Everything else is new.
ObjectiveOps == {"grad", "value", "hess", "ahess", "sens", "osmaposl", "ossps"}
Classify(r, cc) ==
  IF cc # NoCfg /\ cc.minSeg # -cc.maxSeg
     /\ (cc.sseg \/ r.e = "ObjectiveRejected" \/ (r.e = "Touched" /\ r.op \in ObjectiveOps))
  THEN "C06-asymseg" ELSE "new"

Init == l = 1 /\ c = NoCfg /\ isb = {} /\ rel = << >> /\ bad = << >>
Next == /\ l <= Len(TraceLog)
        /\ LET r == TraceLog[l]
               okr == IF r.e = "Config" THEN ConfigOk(r) ELSE Explains(r) IN
           /\ c' = IF r.e = "Config" THEN CfgOf(r) ELSE c
           /\ isb' = IF r.e = "Config" THEN {} ELSE IF r.e = "Basic" THEN { VSOf(r.isb[i]) : i \in 1 .. Len(r.isb) } ELSE isb
           /\ rel' = IF r.e = "Config" THEN << >> ELSE IF r.e = "Related" THEN RelOf(r) ELSE rel
           /\ LET cls == IF okr THEN "ok" ELSE Classify(r, IF r.e = "Config" THEN CfgOf(r) ELSE c) IN
              \* new unexplained lines are all kept (cap 500); of a known class only the first 20 witnesses
              bad' = IF okr THEN bad
                     ELSE IF Len(SelectSeq(bad, LAMBDA x : x[2] = cls)) < (IF cls = "new" THEN 500 ELSE 20) THEN Append(bad, << l, cls >>) ELSE bad
        /\ l' = l + 1
Spec == Init /\ [][Next]_<< l, c, isb, rel, bad >>

Done == l > Len(TraceLog) => (bad = << >> \/ PrintT(<< "UNEXPLAINED", bad >>))
Consumed == IF TLCGet("stats").diameter - 1 = Len(TraceLog) THEN TRUE
            ELSE PrintT(<< "REJECTED_AT", TLCGet("stats").diameter >>) /\ FALSE
=============================================================================
