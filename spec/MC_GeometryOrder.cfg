SPECIFICATION Spec
CONSTANTS Ns = {4} MaxR = 3 Mashes = {1} TofMashes = {0}
INVARIANTS Inv10 Inv11 Inv12
CHECK_DEADLOCK FALSE
