SPECIFICATION Spec
CONSTANTS Variant = "no_prior_term" MaxLives = 1 Rich = FALSE
INVARIANTS InvBounds InvDenominator InvSchedule InvResume InvAscentDirection InvFixedPoint InvObject
CHECK_DEADLOCK FALSE
