---------------------------- MODULE Trace_Scatter ----------------------------
(* Trace validation for C16: every line recorded from real                    *)
(* SingleScatterSimulation objects (one line per public call, with the        *)
(* UCL_STIR_VERIF cache events observed during the call and the outputs in    *)
(* fixed point) must be explained by Scatter.tla:                             *)
(*  - the call's effect on _already_set_up / use_cache / number of scatter    *)
(*    points, the cache removals the specification requires, the "keep cache  *)
(*    if correct size" decisions of set_up, errors exactly where required;    *)
(*  - for process_data (and the direct detector-pair estimates) the hit/miss  *)
(*    pattern of every activity-cache entry against the model's cache         *)
(*    content, and every hit entry must be valid;                             *)
(*  - the property's clauses on the outputs: same settings => same output     *)
(*    whatever the history, the cache switch or the object (fresh objects     *)
(*    are ordinary objects of the same scenario), linear in the activity      *)
(*    image (relations between the pool images are logged and verified        *)
(*    here), zero for zero activity, never negative, symmetric under          *)
(*    exchange of the two detectors.                                          *)
(* Unexplained lines are collected in `bad' with a class: "new", or the id    *)
(* of a known finding whose signature (a property of the object's history     *)
(* tracked below) matches.                                                    *)
EXTENDS Scatter, TraceLib
VARIABLES l, cfg, objs, ids, memo, bad, cnt

NoCfg == [id |-> 0]
NoIds == [tm |-> 0, en |-> 0, act |-> 0, att |-> 0, spk |-> << 0, 0 >>, zoom |-> 0, effE |-> 0, autoT |-> 0, lastOut |-> FALSE]
ZeroCnt == [fresh |-> 0, same |-> 0, cache |-> 0, add |-> 0, scale |-> 0, zero |-> 0, sym |-> 0, errCompute |-> 0,
            errSetUp |-> 0, keep |-> 0, symOut |-> 0, hit |-> 0, off |-> 0, compute |-> 0, stale |-> 0]

(* ------------------------------ events -------------------------------- *)
RmKinds(r) == { r.ev[j][2] : j \in { i \in 1..Len(r.ev) : r.ev[i][1] = 1 } }
Inits(r) == SelectSeq(r.ev, LAMBDA e : e[1] = 2)
Samples(r) == SelectSeq(r.ev, LAMBDA e : e[1] = 3)
\* the call sampled the scatter points exactly once and reports their number
SampledOnce(r) == Len(Samples(r)) = 1 /\ Samples(r)[1][2] = r.np
\* the model follows the removals that were observed (a superfluous removal is not a violation)
ApplyRm(s, r) == [s EXCEPT !.actC = IF 1 \in RmKinds(r) THEN NoCache ELSE @, !.attC = IF 0 \in RmKinds(r) THEN NoCache ELSE @]
Flags(r, s) == r.asu = s.asu /\ r.uc = s.useCache
\* the removals the specification requires matter only for a cache that holds something
Needed(s, req) == { k \in req : (k = 1 /\ s.actC # NoCache) \/ (k = 0 /\ s.attC # NoCache) }
\* a setter (s: state before, s2: state specified after): no error, flags as specified, the
\* dependent caches removed, nothing allocated
SetterOK(r, s, s2, req, resample) ==
  /\ ~r.err /\ Flags(r, s2) /\ Needed(s, req) \subseteq RmKinds(r) /\ Len(Inits(r)) = 0
  /\ IF resample THEN SampledOnce(r) ELSE Len(Samples(r)) = 0 /\ r.np = s2.np

(* --------------------- known findings (signatures) --------------------- *)
\* C16-effstale: the efficiency for unscattered photons is memoised at the first computation after
\* a template was set and survives set_exam_info + set_up: a computation is affected iff the energy
\* window differs from the one of that first computation.
TaintE(i) == i.effE # 0 /\ i.effE # i.en
\* C16-zoomlatch: with automatic down-sampling settings the factors derived for the first template
\* are kept (and the derived image is not re-derived) when the template changes.
TaintZ(i) == i.zoom = 0 /\ i.spk[1] = 2 /\ i.autoT # 0 /\ cfg.geo[i.autoT] # cfg.geo[i.tm]
\* (C16-effstale is repaired in /repo by ff10b4636, C16-zoomlatch is still open: a history that carries both signatures
\* is attributed to the open one -- found when the thorough tier met such a history after the repair)
TaintOf(i) == IF TaintZ(i) THEN "C16-zoomlatch" ELSE IF TaintE(i) THEN "C16-effstale" ELSE "clean"

(* ------------------------------ outputs -------------------------------- *)
Key(i) == << i.act, i.att, i.spk[1], i.spk[2], i.tm, i.en >>
WithAct(k, a) == << a, k[2], k[3], k[4], k[5], k[6] >>
VecEq(a, b) == Len(a) = Len(b) /\ \A i \in 1..Len(a) : EqOK(a[i], b[i])
VecLin(t, a, b, ca, cb) == Len(t) = Len(a) /\ Len(t) = Len(b) /\ \A i \in 1..Len(t) : LinOK(t[i], a[i], b[i], ca, cb)
NonNeg(v) == \A i \in 1..Len(v) : v[i] >= 0
OutAt(n) == TraceLog[n].out

\* hit/miss pattern of one activity-cache entry: code = misses(0,1,2+) + 4*hit + 8*cache-off + 16*miss-after-hit
EntryOK(c, s, i) ==
  IF c = 0 THEN TRUE
  ELSE IF ~s.useCache THEN c = 8
  ELSE /\ (c \div 8) % 2 = 0 /\ (c \div 16) % 2 = 0
       /\ IF s.actC.ent[i] = Empty THEN c % 4 = 1                      \* computed once, then served from the cache
          ELSE c % 4 = 0 /\ s.actC.ent[i] = ActNow(s)                  \* served from the cache: must be valid
GetsOK(r, s) == /\ Usable(s) /\ Len(r.g) = s.np * s.nd /\ r.gOutside = 0 /\ r.gOther = 0
                /\ \A i \in 1..Len(r.g) : EntryOK(r.g[i], s, i)
Touched(r) == { i \in 1..Len(r.g) : r.g[i] # 0 }

(* ------------------------------ one line -------------------------------- *)
\* result: [ok, cls, s (object state), i (object ids), memo, cnt]
Res(ok, cls, s, i, m, c) == [ok |-> ok, cls |-> IF ok THEN "ok" ELSE cls, s |-> s, i |-> i, memo |-> m, cnt |-> c]
Plain(ok, s, i) == Res(ok, "new", s, i, memo, cnt)

ComputeLine(r, s, i, n) ==
  IF ComputeErr(s)
  THEN Res(r.err /\ Flags(r, s) /\ ~Has(r, "out"), "new", s, i, memo, [cnt EXCEPT !.errCompute = @ + 1])
  ELSE
    LET s2 == ComputeOp(s, Touched(r), Entries(s))
        i2 == [i EXCEPT !.effE = IF @ = 0 THEN i.en ELSE @, !.lastOut = TRUE]
        taint == TaintOf(i2)
        k == Key(i)
        basic == /\ ~r.err /\ r.ok /\ Flags(r, s) /\ r.ndp = s.nd /\ r.np = s.np /\ Len(r.ev) = 0
                 /\ Has(r, "out") /\ r.nf = 0 /\ NonNeg(r.out) /\ GetsOK(r, s)
        c1 == [cnt EXCEPT !.compute = @ + 1,
                          !.hit = @ + (IF \E x \in 1..Len(r.g) : r.g[x] = 4 THEN 1 ELSE 0),
                          !.off = @ + (IF s.useCache THEN 0 ELSE 1)]
    IN
    IF ~basic THEN Res(FALSE, "new", s2, i2, memo, c1)
    ELSE IF k \in DOMAIN memo
    THEN \* same settings seen before (any object, any history, any cache flag): same output
      LET e == memo[k]
          okc == VecEq(r.out, OutAt(e[1]))
          cls == IF taint # "clean" THEN taint ELSE IF e[3] # "clean" THEN e[3] ELSE "new" IN
      Res(okc, cls, s2, i2, memo,
          [c1 EXCEPT !.same = @ + 1, !.fresh = @ + (IF r.fresh THEN 1 ELSE 0), !.cache = @ + (IF e[2] # s.useCache THEN 1 ELSE 0),
                     !.stale = @ + (IF taint # "clean" \/ e[3] # "clean" THEN 1 ELSE 0)])
    ELSE IF r.fresh THEN Res(FALSE, "new", s2, i2, memo, c1)    \* a fresh object must reproduce settings already computed
    ELSE
      LET m2 == (k :> << n, s.useCache, taint >>) @@ memo
          outOf(a) == IF a = i.act THEN r.out ELSE OutAt(m2[WithAct(k, a)][1])
          rels == { x \in 1..Len(cfg.rels) :
                      /\ i.act \in { cfg.rels[x][1], cfg.rels[x][2], cfg.rels[x][3] }
                      /\ \A q \in 1..3 : WithAct(k, cfg.rels[x][q]) \in DOMAIN m2 }
          relOK(x) == LET rel == cfg.rels[x] IN VecLin(outOf(rel[1]), outOf(rel[2]), outOf(rel[3]), rel[4], rel[5])
          relTaint(x) == LET ts == { m2[WithAct(k, cfg.rels[x][q])][3] : q \in 1..3 } \ {"clean"} IN
                         IF ts = {} THEN "clean" ELSE CHOOSE t \in ts : TRUE
          badRels == { x \in rels : ~relOK(x) }
          kind(x) == IF cfg.rels[x][4] = 0 /\ cfg.rels[x][5] = 0 THEN "zero" ELSE IF cfg.rels[x][5] = 0 THEN "scale" ELSE "add"
          c2 == [c1 EXCEPT !.zero = @ + Cardinality({ x \in rels : kind(x) = "zero" }),
                           !.scale = @ + Cardinality({ x \in rels : kind(x) = "scale" }),
                           !.add = @ + Cardinality({ x \in rels : kind(x) = "add" })]
      IN Res(badRels = {}, IF \E x \in badRels : relTaint(x) = "clean" THEN "new" ELSE relTaint(CHOOSE x \in badRels : TRUE), s2, i2, m2, c2)

\* r.m = E(A,B) for every bin, then E(B,A) for every bin, then the bin's value in the output data
PairsLine(r, s, i) ==
  LET s2 == ComputeOp(s, Touched(r), Entries(s))
      i2 == [i EXCEPT !.effE = IF @ = 0 THEN i.en ELSE @]
      n == r.n IN
  Res(/\ s.asu /\ ~r.err /\ Flags(r, s) /\ r.ndp = s.nd /\ Len(r.ev) = 0 /\ GetsOK(r, s)
      /\ n > 0 /\ Len(r.pa) = n /\ Len(r.pb) = n
      /\ Has(r, "m") /\ Len(r.m) = 3 * n /\ r.nf = 0 /\ NonNeg(r.m)
      /\ \A b \in 1..n :
           /\ r.pa[b] \in 0..(s.nd - 1) /\ r.pb[b] \in 0..(s.nd - 1) /\ r.pa[b] # r.pb[b]
           \* "unchanged when the two detectors are exchanged"
           /\ EqOK(r.m[b], r.m[n + b])
           \* the output of the last process_data (if still current) is the estimate of the bin's detector pair
           /\ (i.lastOut => EqOK(r.m[b], r.m[2 * n + b])),
      "new", s2, i2, memo, [cnt EXCEPT !.sym = @ + 1, !.symOut = @ + (IF i.lastOut THEN 1 ELSE 0)])

SetUpLine(r, s, i) ==
  IF SetUpErr(s)
  THEN Res(r.err /\ Flags(r, s) /\ Len(r.ev) = 0 /\ r.np = s.np, "new", s, i, memo, [cnt EXCEPT !.errSetUp = @ + 1])
  ELSE
    \* the model follows the removals observed (they all precede the allocation decisions)
    LET s0 == ApplyRm(s, r)
        s1 == IF Derives(s) THEN NewPointsOp(s0, r.np) ELSE s0
        s2 == SetUpOp(s0, r.np)
        rmBeforeInit == \A x, y \in 1..Len(r.ev) : (r.ev[x][1] = 2 /\ r.ev[y][1] = 1) => y < x
        ins == Inits(r)
        initOK(e, c) == e[3] = (IF Keeps(c, s1.np, s1.nd) THEN 1 ELSE 0) /\ e[4] = s1.np /\ e[5] = s1.nd
        i2 == [i EXCEPT !.spk = IF Derives(s) THEN << 2, i.zoom >> ELSE @,
                        !.autoT = IF Derives(s) /\ i.zoom = 0 /\ @ = 0 THEN i.tm ELSE @]
    IN Res(/\ ~r.err /\ r.ok /\ Flags(r, s2) /\ r.hasSp /\ r.np = s2.np
           /\ rmBeforeInit
           /\ IF Derives(s) THEN SampledOnce(r) /\ Needed(s, {0, 1}) \subseteq RmKinds(r) ELSE Len(Samples(r)) = 0
           /\ IF s.useCache
              THEN /\ Len(ins) = 2 /\ { ins[1][2], ins[2][2] } = {0, 1}
                   /\ \A x \in 1..2 : initOK(ins[x], IF ins[x][2] = 1 THEN s1.actC ELSE s1.attC)
              ELSE Len(ins) = 0,
           "new", s2, i2, memo,
           [cnt EXCEPT !.keep = @ + (IF s.useCache /\ Keeps(s1.actC, s1.np, s1.nd) THEN 1 ELSE 0)])

Line(r, n) ==
  IF r.e = "Abort" \/ ~Has(r, "o") THEN Plain(FALSE, InitObj, NoIds)
  ELSE IF r.e = "New" THEN Plain(~r.err /\ Flags(r, InitObj) /\ r.np = 0 /\ Len(Inits(r)) = 0 /\ Len(Samples(r)) = 0
                                 /\ r.zoom \in 0..cfg.nZoom /\ (r.zoom = 0 <=> cfg.autoZoom),
                                 InitObj, [NoIds EXCEPT !.zoom = r.zoom])
  ELSE IF r.o \notin DOMAIN objs THEN Plain(FALSE, InitObj, NoIds)
  ELSE
    LET s == objs[r.o]
        i == ids[r.o] IN
    CASE r.e = "SetAct" ->
           LET s2 == ApplyRm(SetActOp(s), r) IN
           Plain(SetterOK(r, s, s2, {1}, FALSE) /\ r.id \in 1..cfg.nAct, s2, [i EXCEPT !.act = r.id])
      [] r.e = "SetAtt" ->
           LET s2 == ApplyRm(SetAttOp(s), r) IN
           Plain(SetterOK(r, s, s2, {0}, FALSE) /\ ~r.hasSp /\ r.id \in 1..cfg.nAtt, s2, [i EXCEPT !.att = r.id, !.spk = << 0, 0 >>])
      [] r.e = "SetSp" ->
           LET s2 == ApplyRm(SetSpOp(s, r.np), r) IN
           Plain(SetterOK(r, s, s2, {0, 1}, TRUE) /\ r.hasSp /\ r.id \in 1..cfg.nSp, s2, [i EXCEPT !.spk = << 1, r.id >>])
      [] r.e = "Downsample" ->
           IF DownsampleErr(s) THEN Plain(r.err /\ Flags(r, s) /\ r.np = s.np /\ Len(Samples(r)) = 0, s, i)
           ELSE LET s2 == ApplyRm(DownsampleOp(s, r.np), r) IN
                Plain(SetterOK(r, s, s2, {0, 1}, TRUE) /\ r.hasSp /\ r.zoom \in 1..cfg.nZoom, s2, [i EXCEPT !.spk = << 2, r.zoom >>, !.zoom = r.zoom])
      [] r.e = "SetTmpl" ->
           \* A scatter-point image derived with automatic (template-dependent) settings belongs to the
           \* old template.  Dropping it here (it is derived again by set_up) is the specified behaviour;
           \* keeping it is tolerated on this line only because its consequence - outputs that differ
           \* from a fresh object's - is caught at the next Compute (finding C16-zoomlatch).
           LET drop == i.zoom = 0 /\ i.spk[1] = 2 /\ ~r.hasSp
               t2 == SetTmplOp(s, cfg.dets[r.id], cfg.geo[r.id])
               s2 == ApplyRm(IF drop THEN DropDerivedOp(t2) ELSE t2, r) IN
           Plain(r.id \in 1..Len(cfg.dets) /\ SetterOK(r, s, s2, {0, 1}, FALSE) /\ r.ndp = 0 /\ (r.hasSp = (s2.spImg # 0)),
                 s2, [i EXCEPT !.tm = r.id, !.effE = 0, !.spk = IF drop THEN << 0, 0 >> ELSE @])
      [] r.e = "SetEnergy" ->
           LET s2 == ApplyRm(SetEnergyOp(s), r) IN
           Plain(SetterOK(r, s, s2, {}, FALSE) /\ r.id \in 1..Len(cfg.win), s2, [i EXCEPT !.en = r.id])
      [] r.e = "SetCache" ->
           LET s2 == ApplyRm(SetCacheOp(s, r.b), r) IN
           Plain(SetterOK(r, s, s2, IF r.b = s.useCache THEN {} ELSE {0, 1}, FALSE), s2, i)
      [] r.e = "SetOut" -> Plain(~r.err /\ s.tmpl > 0 /\ r.id = i.tm /\ Flags(r, s) /\ Len(r.ev) = 0, SetOutOp(s), i)
      [] r.e = "SetUp" -> SetUpLine(r, s, i)
      [] r.e = "Compute" -> ComputeLine(r, s, i, n)
      [] r.e = "Pairs" -> PairsLine(r, s, i)
      [] r.e = "Delete" -> Plain(TRUE, s, i)
      [] OTHER -> Plain(FALSE, s, i)

\* the logged relations between the activity images of the pool hold voxel by voxel (images in 1/8 units)
ConfigOK(r) ==
  /\ Len(r.acts) = r.nAct /\ Len(r.dets) = Len(r.geo)
  /\ \A a \in 1..r.nAct : NonNeg(r.acts[a]) /\ Len(r.acts[a]) = Len(r.acts[1])
  /\ \A x \in 1..Len(r.rels) :
       LET rel == r.rels[x] IN
       /\ \A q \in 1..3 : rel[q] \in 1..r.nAct
       /\ \A v \in 1..Len(r.acts[1]) : r.acts[rel[1]][v] = rel[4] * r.acts[rel[2]][v] + rel[5] * r.acts[rel[3]][v]
  /\ \A a, b \in 1..Len(r.win) : a # b => r.win[a] # r.win[b]

Init == l = 1 /\ cfg = NoCfg /\ objs = << >> /\ ids = << >> /\ memo = << >> /\ bad = << >> /\ cnt = ZeroCnt
AddBad(cls) == IF Len(SelectSeq(bad, LAMBDA x : x[2] = cls)) < 40 THEN Append(bad, << l, cls >>) ELSE bad
Next ==
  /\ l <= Len(TraceLog)
  /\ l' = l + 1
  /\ LET r == TraceLog[l] IN
     IF r.e = "Config"
     THEN /\ cfg' = r /\ objs' = << >> /\ ids' = << >> /\ memo' = << >> /\ cnt' = cnt
          /\ bad' = IF ConfigOK(r) THEN bad ELSE AddBad("new")
     ELSE IF cfg = NoCfg
     THEN /\ bad' = AddBad("new") /\ UNCHANGED << cfg, objs, ids, memo, cnt >>
     ELSE \E res \in { Line(r, l) } :
            /\ cfg' = cfg
            /\ bad' = IF res.ok THEN bad ELSE AddBad(res.cls)
            /\ memo' = res.memo /\ cnt' = res.cnt
            /\ IF ~Has(r, "o") THEN UNCHANGED << objs, ids >>
               ELSE IF r.e = "Delete"
               THEN /\ objs' = [o \in DOMAIN objs \ {r.o} |-> objs[o]]
                    /\ ids' = [o \in DOMAIN ids \ {r.o} |-> ids[o]]
               ELSE /\ objs' = (r.o :> res.s) @@ objs
                    \* lastOut: the output data hold the result of a process_data for the current settings
                    /\ ids' = (r.o :> [res.i EXCEPT !.lastOut = IF r.e \in {"Compute", "Pairs"} /\ ~r.err THEN @ ELSE FALSE]) @@ ids
Spec == Init /\ [][Next]_<< l, cfg, objs, ids, memo, bad, cnt >>

\* evaluated in the final state only (no successor): prints the unexplained lines and the counters
Done == l > Len(TraceLog) => /\ PrintT(<< "COUNTS", cnt >>)
                             /\ (bad = << >> \/ PrintT(<< "UNEXPLAINED", bad >>))
Consumed == IF TLCGet("stats").diameter - 1 = Len(TraceLog) THEN TRUE
            ELSE PrintT(<< "REJECTED_AT", TLCGet("stats").diameter >>) /\ FALSE
=============================================================================
