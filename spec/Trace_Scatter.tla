---------------------------- MODULE Trace_Scatter ----------------------------
(* Trace validation for C16: every line recorded from real                    *)
(* SingleScatterSimulation objects (one line per public call, with the        *)
(* UCL_STIR_VERIF cache events observed during the call and the outputs in    *)
(* fixed point) must be explained by Scatter.tla:                             *)
(*  - the call's effect on _already_set_up / use_cache / number of scatter    *)
(*    points, the cache removals the specification requires, the "keep cache  *)
(*    if correct size" decisions of set_up, errors exactly where required;    *)
(*  - for process_data (and the direct detector-pair estimates) the hit/miss  *)
(*    pattern of every activity-cache entry (and of every attenuation-cache   *)
(*    entry when the library reports them) against the model's cache content, *)
(*    and every hit entry must be valid;                                      *)
(*  - the property's clauses on the outputs: same settings => same output     *)
(*    whatever the history, the cache switch, the object or the route by      *)
(*    which it was configured (setters, parameter file, the object's own      *)
(*    parameter_info() parsed again), linear in the activity image (relations *)
(*    between the pool images are logged and verified here), zero for zero    *)
(*    activity, never negative, symmetric under exchange of the detectors;    *)
(*  - BEYOND THE PROPERTY (named sections): the settings the sampled points   *)
(*    and the derived scatter-point image depend on (threshold, random        *)
(*    placement, zoom factors, down-sampled images / scanner) and relations   *)
(*    between the energy-window / Compton functions ("Phys").                 *)
(* Unexplained lines are collected in `bad' with a class: "new", or the id    *)
(* of a finding whose signature (a property of the object's history tracked   *)
(* below) matches.                                                            *)
EXTENDS Scatter, TraceLib
VARIABLES l, cfg, objs, ids, memo, bad, cnt

NoCfg == [id |-> 0]
\* content ids: act/att (+ template under which downsample_images_to_scanner_size zoomed them), template
\* (+ downsample_scanner arguments), energy window, scatter-point source, zoom / threshold settings,
\* random placement (setting, and whether the current points were placed randomly)
NoIds == [tm |-> 0, tmDs |-> << 0, 0 >>, en |-> 0, act |-> 0, actDs |-> 0, att |-> 0, attDs |-> 0, spk |-> << 0, 0 >>, zoom |-> 0,
          thr |-> 1, rnd |-> FALSE, ptsRnd |-> FALSE, effE |-> 0, autoT |-> 0, lastOut |-> FALSE, info |-> ""]
ZeroCnt == [fresh |-> 0, same |-> 0, cache |-> 0, add |-> 0, scale |-> 0, zero |-> 0, sym |-> 0, errCompute |-> 0,
            errSetUp |-> 0, keep |-> 0, symOut |-> 0, hit |-> 0, off |-> 0, compute |-> 0, stale |-> 0,
            thr |-> 0, rnd |-> 0, zoomSet |-> 0, dsScanner |-> 0, dsImages |-> 0, parse |-> 0, roundTrip |-> 0, phys |-> 0,
            rndCompute |-> 0, attGets |-> 0, rederive |-> 0]

(* ------------------------------ events -------------------------------- *)
RmKinds(r) == { r.ev[j][2] : j \in { i \in 1..Len(r.ev) : r.ev[i][1] = 1 } }
Inits(r) == SelectSeq(r.ev, LAMBDA e : e[1] = 2)
Samples(r) == SelectSeq(r.ev, LAMBDA e : e[1] = 3)
\* the call sampled the scatter points exactly once and reports their number
SampledOnce(r) == Len(Samples(r)) = 1 /\ Samples(r)[1][2] = r.np
\* the model follows the removals that were observed (a superfluous removal is not a violation)
ApplyRm(s, r) == [s EXCEPT !.actC = IF 1 \in RmKinds(r) THEN NoCache ELSE @, !.attC = IF 0 \in RmKinds(r) THEN NoCache ELSE @]
Flags(r, s) == r.asu = s.asu /\ r.uc = s.useCache
\* the removals the specification requires matter only for a cache that holds something
Needed(s, req) == { k \in req : (k = 1 /\ s.actC # NoCache) \/ (k = 0 /\ s.attC # NoCache) }
\* a setter (s: state before, s2: state specified after): no error, flags as specified, the
\* dependent caches removed, nothing allocated
SetterOK(r, s, s2, req, resample) ==
  /\ ~r.err /\ Flags(r, s2) /\ Needed(s, req) \subseteq RmKinds(r) /\ Len(Inits(r)) = 0
  /\ IF resample THEN SampledOnce(r) ELSE Len(Samples(r)) = 0 /\ r.np = s2.np
\* (beyond the property) a setter of something the POINTS depend on may sample them again at once
\* (then both caches go) or leave that to set_up
MaySample(r, s, t) == IF Len(Samples(r)) = 0 THEN t ELSE ResampleOp(t, r.np)
MaySampleOK(r, s, s2) ==
  /\ ~r.err /\ Flags(r, s2) /\ Len(Inits(r)) = 0 /\ r.np = s2.np
  /\ IF Len(Samples(r)) = 0 THEN TRUE ELSE SampledOnce(r) /\ s.spImg # 0 /\ Needed(s, {0, 1}) \subseteq RmKinds(r)
\* a derived scatter-point image may be dropped by a setter of something it depends on (set_up derives it again)
Drops(r, s) == s.spImg # 0 /\ s.spFrom # Given /\ ~r.hasSp
MayDrop(r, s, t) == IF Drops(r, s) THEN DropDerivedOp(t) ELSE t

(* ------------------------- findings (signatures) ------------------------ *)
GeoOf(i) == IF i.tmDs = << 0, 0 >> THEN cfg.geo[i.tm] ELSE 1000 + 100 * i.tmDs[1] + i.tmDs[2]
\* C16-effstale (repaired by ff10b4636): efficiency for unscattered photons memoised at the first
\* computation after a template was set and surviving set_exam_info + set_up.
TaintE(i) == i.effE # 0 /\ i.effE # i.en
\* C16-zoomlatch: with automatic down-sampling settings the factors derived for the first template
\* are kept (and the derived image is not re-derived) when the template changes.
TaintZ(i) == i.zoom = 0 /\ i.spk[1] = 2 /\ i.autoT # 0 /\ cfg.geo[i.autoT] # GeoOf(i)
\* C16-derivedstale: the scatter-point image that set_up derived is out of date (set_image_downsample_factors
\* or downsample_images_to_scanner_size after the derivation) and set_up did not derive it again.
\* C16-thrstale: the points were sampled with another threshold / placement setting and not sampled again.
\* Both are read off the model state, which follows what the implementation was observed to do.
\* (C16-effstale is repaired in /repo, the others are open: a history that carries several signatures is attributed
\* to an open one -- found when the thorough tier met such a history after the repair)
TaintOf(i, s) == IF TaintZ(i) THEN "C16-zoomlatch"
                 ELSE IF SpStale(s) THEN (IF s.spFrom[3] # SpNow(s)[3] THEN "C16-zoomlatch" ELSE "C16-derivedstale")
                 ELSE IF PtsStale(s) THEN "C16-thrstale"
                 ELSE IF TaintE(i) THEN "C16-effstale" ELSE "clean"

(* ------------------------------ outputs -------------------------------- *)
Key(i) == << i.act, i.actDs, i.att, i.attDs, i.spk[1], IF i.spk[1] = 2 THEN i.zoom ELSE i.spk[2], i.tm, i.tmDs, i.en, i.thr, i.rnd >>
WithAct(k, a) == [k EXCEPT ![1] = a]
VecEq(a, b) == Len(a) = Len(b) /\ \A i \in 1..Len(a) : EqOK(a[i], b[i])
VecLin(t, a, b, ca, cb) == Len(t) = Len(a) /\ Len(t) = Len(b) /\ \A i \in 1..Len(t) : LinOK(t[i], a[i], b[i], ca, cb)
NonNeg(v) == \A i \in 1..Len(v) : v[i] >= 0
OutAt(n) == TraceLog[n].out

\* hit/miss pattern of one cache entry: code = misses(0,1,2+) + 4*hit + 8*cache-off + 16*miss-after-hit
EntryOK(c, uc, held, now) ==
  IF c = 0 THEN TRUE
  ELSE IF ~uc THEN c = 8
  ELSE /\ (c \div 8) % 2 = 0 /\ (c \div 16) % 2 = 0
       /\ IF held = Empty THEN c % 4 = 1                      \* computed once, then served from the cache
          ELSE c % 4 = 0 /\ held = now                        \* served from the cache: must be valid
AttReported(r) == r.gaSeen > 0
GetsOK(r, s) == /\ Usable(s) /\ Len(r.g) = s.np * s.nd /\ r.gOutside = 0 /\ r.gOther = 0
                /\ \A i \in 1..Len(r.g) : EntryOK(r.g[i], s.useCache, IF s.useCache THEN s.actC.ent[i] ELSE Empty, ActNow(s))
                /\ (AttReported(r) => /\ Len(r.ga) = s.np * s.nd
                                      /\ \A i \in 1..Len(r.ga) : EntryOK(r.ga[i], s.useCache, IF s.useCache THEN s.attC.ent[i] ELSE Empty, AttNow(s)))
Touched(r) == { i \in 1..Len(r.g) : r.g[i] # 0 }
\* every read of the attenuation cache is reported (if the library has the call-out at all): no report,
\* no entry filled.  Without the call-out the model's attenuation-cache content is never consulted.
TouchedAtt(r, s) == IF AttReported(r) THEN { i \in 1..Len(r.ga) : r.ga[i] # 0 } ELSE {}

(* ------------------------------ one line -------------------------------- *)
\* result: [ok, cls, s (object state), i (object ids), memo, cnt]
Res(ok, cls, s, i, m, c) == [ok |-> ok, cls |-> IF ok THEN "ok" ELSE cls, s |-> s, i |-> i, memo |-> m, cnt |-> c]
Plain(ok, s, i) == Res(ok, "new", s, i, memo, cnt)
Count(ok, s, i, c) == Res(ok, "new", s, i, memo, c)

ComputeLine(r, s, i, n) ==
  IF ComputeErr(s)
  THEN Res(r.err /\ Flags(r, s) /\ ~Has(r, "out"), "new", s, i, memo, [cnt EXCEPT !.errCompute = @ + 1])
  ELSE
    LET s2 == ComputeOp(s, Touched(r), TouchedAtt(r, s))
        i2 == [i EXCEPT !.effE = IF @ = 0 THEN i.en ELSE @, !.lastOut = TRUE]
        taint == TaintOf(i2, s)
        k == Key(i)
        basic == /\ ~r.err /\ r.ok /\ Flags(r, s) /\ r.ndp = s.nd /\ r.np = s.np /\ Len(r.ev) = 0
                 /\ Has(r, "out") /\ r.nf = 0 /\ NonNeg(r.out) /\ GetsOK(r, s)
        c1 == [cnt EXCEPT !.compute = @ + 1,
                          !.hit = @ + (IF \E x \in 1..Len(r.g) : r.g[x] = 4 THEN 1 ELSE 0),
                          !.off = @ + (IF s.useCache THEN 0 ELSE 1),
                          !.attGets = @ + (IF AttReported(r) THEN 1 ELSE 0)]
    IN
    IF ~basic THEN Res(FALSE, "new", s2, i2, memo, c1)
    \* randomly placed points are seeded by the clock: the output is not a function of the settings
    ELSE IF i.ptsRnd THEN Res(~r.fresh, "new", s2, i2, memo, [c1 EXCEPT !.rndCompute = @ + 1])
    ELSE IF k \in DOMAIN memo
    THEN \* same settings seen before (any object, any history, any cache flag): same output
      LET e == memo[k]
          okc == VecEq(r.out, OutAt(e[1]))
          cls == IF taint # "clean" THEN taint ELSE IF e[3] # "clean" THEN e[3] ELSE "new" IN
      Res(okc, cls, s2, i2, memo,
          [c1 EXCEPT !.same = @ + 1, !.fresh = @ + (IF r.fresh THEN 1 ELSE 0), !.cache = @ + (IF e[2] # s.useCache THEN 1 ELSE 0),
                     !.stale = @ + (IF taint # "clean" \/ e[3] # "clean" THEN 1 ELSE 0)])
    ELSE IF r.fresh THEN Res(FALSE, "new", s2, i2, memo, c1)    \* a fresh object must reproduce settings already computed
    ELSE
      LET m2 == (k :> << n, s.useCache, taint >>) @@ memo
          outOf(a) == IF a = i.act THEN r.out ELSE OutAt(m2[WithAct(k, a)][1])
          rels == { x \in 1..Len(cfg.rels) :
                      /\ i.act \in { cfg.rels[x][1], cfg.rels[x][2], cfg.rels[x][3] }
                      /\ \A q \in 1..3 : WithAct(k, cfg.rels[x][q]) \in DOMAIN m2 }
          relOK(x) == LET rel == cfg.rels[x] IN VecLin(outOf(rel[1]), outOf(rel[2]), outOf(rel[3]), rel[4], rel[5])
          relTaint(x) == LET ts == { m2[WithAct(k, cfg.rels[x][q])][3] : q \in 1..3 } \ {"clean"} IN
                         IF ts = {} THEN "clean" ELSE CHOOSE t \in ts : TRUE
          badRels == { x \in rels : ~relOK(x) }
          kind(x) == IF cfg.rels[x][4] = 0 /\ cfg.rels[x][5] = 0 THEN "zero" ELSE IF cfg.rels[x][5] = 0 THEN "scale" ELSE "add"
          c2 == [c1 EXCEPT !.zero = @ + Cardinality({ x \in rels : kind(x) = "zero" }),
                           !.scale = @ + Cardinality({ x \in rels : kind(x) = "scale" }),
                           !.add = @ + Cardinality({ x \in rels : kind(x) = "add" })]
      IN Res(badRels = {}, IF \E x \in badRels : relTaint(x) = "clean" THEN "new" ELSE relTaint(CHOOSE x \in badRels : TRUE), s2, i2, m2, c2)

\* r.m = E(A,B) for every bin, then E(B,A) for every bin, then the bin's value in the output data
PairsLine(r, s, i) ==
  LET s2 == ComputeOp(s, Touched(r), TouchedAtt(r, s))
      i2 == [i EXCEPT !.effE = IF @ = 0 THEN i.en ELSE @]
      n == r.n IN
  Res(/\ s.asu /\ ~r.err /\ Flags(r, s) /\ r.ndp = s.nd /\ Len(r.ev) = 0 /\ GetsOK(r, s)
      /\ n > 0 /\ Len(r.pa) = n /\ Len(r.pb) = n
      /\ Has(r, "m") /\ Len(r.m) = 3 * n /\ r.nf = 0 /\ NonNeg(r.m)
      /\ \A b \in 1..n :
           /\ r.pa[b] \in 0..(s.nd - 1) /\ r.pb[b] \in 0..(s.nd - 1) /\ r.pa[b] # r.pb[b]
           \* "unchanged when the two detectors are exchanged"
           /\ EqOK(r.m[b], r.m[n + b])
           \* the output of the last process_data (if still current) is the estimate of the bin's detector pair
           /\ (i.lastOut => EqOK(r.m[b], r.m[2 * n + b])),
      "new", s2, i2, memo, [cnt EXCEPT !.sym = @ + 1, !.symOut = @ + (IF i.lastOut THEN 1 ELSE 0)])

\* set_up.  Required: an error iff an input is missing; the image is derived if there is none.
\* (beyond the property) Specified as well: a derived image that is out of date is derived again and
\* points sampled with other settings are sampled again.  The model follows what was observed
\* (r.spNew: the object holds another scatter-point image than before the call); an omitted
\* re-derivation / re-sampling leaves the model state stale, which classifies the next Compute.
SetUpLine(r, s, i) ==
  IF SetUpErr(s)
  THEN Res(r.err /\ Flags(r, s) /\ Len(r.ev) = 0 /\ r.np = s.np, "new", s, i, memo, [cnt EXCEPT !.errSetUp = @ + 1])
  ELSE
    \* the model follows the removals observed (they all precede the allocation decisions)
    LET s0 == ApplyRm(s, r)
        derived == r.spNew
        sampled == Len(Samples(r)) > 0
        s1 == IF derived THEN DeriveOp(s0, r.np) ELSE IF sampled THEN ResampleOp(s0, r.np) ELSE s0
        s2 == FinishSetUp(s1)
        rmBeforeInit == \A x, y \in 1..Len(r.ev) : (r.ev[x][1] = 2 /\ r.ev[y][1] = 1) => y < x
        ins == Inits(r)
        \* (with no scatter point at all the arrays are empty either way: the keep decision is immaterial)
        initOK(e, c) == (s1.np * s1.nd > 0 => e[3] = (IF Keeps(c, s1.np, s1.nd) THEN 1 ELSE 0)) /\ e[4] = s1.np /\ e[5] = s1.nd
        i2 == [i EXCEPT !.spk = IF derived THEN << 2, i.zoom >> ELSE @,
                        !.autoT = IF derived /\ i.zoom = 0 /\ @ = 0 THEN i.tm ELSE @,
                        !.ptsRnd = IF sampled THEN i.rnd ELSE @]
    IN Res(/\ ~r.err /\ r.ok /\ Flags(r, s2) /\ r.hasSp /\ r.np = s2.np
           /\ rmBeforeInit
           /\ (Derives(s) => derived) /\ (derived => MustDerive(s))
           /\ (derived => sampled)
           /\ (sampled => SampledOnce(r) /\ Needed(s, {0, 1}) \subseteq RmKinds(r))
           /\ (sampled /\ ~derived => PtsStale(s0))
           /\ IF s.useCache
              THEN /\ Len(ins) = 2 /\ { ins[1][2], ins[2][2] } = {0, 1}
                   /\ \A x \in 1..2 : initOK(ins[x], IF ins[x][2] = 1 THEN s1.actC ELSE s1.attC)
              ELSE Len(ins) = 0,
           "new", s2, i2, memo,
           [cnt EXCEPT !.keep = @ + (IF s.useCache /\ Keeps(s1.actC, s1.np, s1.nd) THEN 1 ELSE 0),
                       !.rederive = @ + (IF derived /\ ~Derives(s) THEN 1 ELSE 0)])

\* An object configured from a parameter file: the constructor parses the keys and post_processing
\* calls the file-name setters in the order template (+ exam info), activity, attenuation,
\* scatter-point image.  r.rt # 0: the file was the parameter_info() of object r.rt.
ParseLine(r) ==
  LET s1 == [InitObj EXCEPT !.useCache = r.ucArg, !.zoomAuto = (r.zoom = 0)]
      s2 == SetEnergyOp(SetTmplOp(s1, cfg.dets[r.tm], cfg.geo[r.tm]))
      s3 == SetAttOp(SetActOp(s2))
      s4 == IF r.sp # 0 THEN SetSpOp(s3, r.np) ELSE s3
      i2 == [NoIds EXCEPT !.tm = r.tm, !.en = r.en, !.act = r.act, !.att = r.att, !.spk = IF r.sp # 0 THEN << 1, r.sp >> ELSE << 0, 0 >>,
                          !.zoom = r.zoom, !.thr = r.thr, !.info = r.info]
  IN Count(/\ ~r.err /\ Flags(r, s4) /\ r.np = s4.np /\ r.hasSp = (r.sp # 0) /\ Len(Inits(r)) = 0
           /\ Len(Samples(r)) = (IF r.sp # 0 THEN 1 ELSE 0)
           /\ r.tm \in 1..Len(cfg.dets) /\ r.en \in 1..Len(cfg.win) /\ r.act \in 1..cfg.nAct /\ r.att \in 1..cfg.nAtt
           \* KeyParser round trip: the parameter_info() of an object parsed from another object's parameter_info() is the same text
           /\ (r.rt # 0 => r.rt \in DOMAIN ids /\ ids[r.rt].info = r.info),
           s4, i2, [cnt EXCEPT !.parse = @ + 1, !.roundTrip = @ + (IF r.rt # 0 THEN 1 ELSE 0)])

(* BEYOND THE PROPERTY: relations between observations of the detection / Compton model.            *)
(* win = <<a,b>>, <<b,c>>, <<a,c>>, <<b,a>>, <<-5000,5000>>, <<c,c+100>>; eff[w][e] in 2^-22 units.      *)
PhysOK(r) ==
  LET E == 1..Len(r.energies)
      one == 4194304
      tol == 4
      C == 1..Len(r.cos8) IN
  /\ Len(r.eff) = 6 /\ \A w \in 1..6 : Len(r.eff[w]) = Len(r.energies)
  /\ \A e \in E :
       \* the efficiency is the integral of one Gaussian over the window: additive over adjacent windows,
       /\ Abs(r.eff[3][e] - (r.eff[1][e] + r.eff[2][e])) <= tol
       \* changes sign when the bounds are exchanged, grows with the window, lies in [0,1],
       /\ Abs(r.eff[4][e] + r.eff[1][e]) <= 1
       /\ r.eff[3][e] >= r.eff[1][e] - tol /\ r.eff[3][e] >= r.eff[2][e] - tol
       /\ \A w \in {1, 2, 3, 5, 6} : r.eff[w][e] >= 0 /\ r.eff[w][e] <= one + 1
       \* and is 1 for a window that contains everything
       /\ Abs(r.eff[5][e] - one) <= tol
  \* a window entirely above the photon energies: efficiency decreases with the distance to it
  /\ \A e \in E : e > 1 => r.eff[6][e] >= r.eff[6][e - 1]
  \* energy after Compton scatter: the 511 keV form equals the general form, grows with cos(theta),
  \* 511 keV for forward scatter and 511/3 for back-scatter
  /\ Len(r.e511) = Len(r.cos8) /\ Len(r.eGen) = Len(r.cos8) /\ Len(r.dif) = Len(r.cos8)
  /\ \A c \in C : /\ Abs(r.e511[c] - r.eGen[c]) <= 2 + r.e511[c] \div 1048576
                  /\ (c > 1 => r.e511[c] > r.e511[c - 1])
                  /\ r.dif[c] > 0
  /\ r.cos8[1] = -8 /\ r.cos8[Len(r.cos8)] = 8
  /\ Abs(r.e511[Len(r.cos8)] - 511 * 65536) <= 2 /\ Abs(3 * r.e511[1] - 511 * 65536) <= 8
  \* forward scatter is the most likely
  /\ \A c \in C : r.dif[c] <= r.dif[Len(r.cos8)]
  \* total cross section: decreases with energy; the "relative to 511 keV" form is the ratio of the absolute form
  /\ Len(r.tot) = Len(r.energies) /\ Len(r.rel) = Len(r.energies) /\ r.energies[Len(r.energies)] = 511
  /\ \A e \in E : /\ (e > 1 => r.tot[e] < r.tot[e - 1] /\ r.rel[e] < r.rel[e - 1])
                  /\ Abs(r.tot[e] * r.rel[Len(r.rel)] - r.rel[e] * r.tot[Len(r.tot)])
                       <= r.tot[e] + r.rel[e] + r.tot[Len(r.tot)] + r.rel[Len(r.rel)]
  /\ r.relK \in 0..14 /\ Abs(r.rel[Len(r.rel)] - 2 ^ r.relK) <= 1 + 2 ^ r.relK \div 4096        \* rel(511) = 1

Line(r, n) ==
  IF r.e = "Abort" \/ ~Has(r, "o") THEN Plain(FALSE, InitObj, NoIds)
  ELSE IF r.e = "New" THEN Plain(~r.err /\ Flags(r, InitObj) /\ r.np = 0 /\ Len(Inits(r)) = 0 /\ Len(Samples(r)) = 0
                                 /\ r.zoom \in 0..cfg.nZoom /\ (r.zoom = 0 <=> cfg.autoZoom),
                                 [InitObj EXCEPT !.zoomAuto = (r.zoom = 0)], [NoIds EXCEPT !.zoom = r.zoom])
  ELSE IF r.e = "Parse" THEN (IF Has(r, "info") THEN ParseLine(r) ELSE Plain(FALSE, InitObj, NoIds))
  ELSE IF r.e = "Phys" THEN Count(PhysOK(r), InitObj, NoIds, [cnt EXCEPT !.phys = @ + 1])
  ELSE IF r.o \notin DOMAIN objs THEN Plain(FALSE, InitObj, NoIds)
  ELSE
    LET s == objs[r.o]
        i == ids[r.o] IN
    CASE r.e = "SetAct" ->
           LET s2 == ApplyRm(SetActOp(s), r) IN
           Plain(SetterOK(r, s, s2, {1}, FALSE) /\ r.id \in 1..cfg.nAct, s2, [i EXCEPT !.act = r.id, !.actDs = 0])
      [] r.e = "SetAtt" ->
           LET s2 == ApplyRm(SetAttOp(s), r) IN
           Plain(SetterOK(r, s, s2, {0}, FALSE) /\ ~r.hasSp /\ r.id \in 1..cfg.nAtt, s2, [i EXCEPT !.att = r.id, !.attDs = 0, !.spk = << 0, 0 >>])
      [] r.e = "SetSp" ->
           LET s2 == ApplyRm(SetSpOp(s, r.np), r) IN
           Plain(SetterOK(r, s, s2, {0, 1}, TRUE) /\ r.hasSp /\ r.id \in 1..cfg.nSp, s2, [i EXCEPT !.spk = << 1, r.id >>, !.ptsRnd = i.rnd])
      [] r.e = "Downsample" ->
           IF DownsampleErr(s) THEN Plain(r.err /\ Flags(r, s) /\ r.np = s.np /\ Len(Samples(r)) = 0, s, i)
           ELSE LET s2 == ApplyRm(DownsampleOp(s, r.np), r) IN
                Plain(SetterOK(r, s, s2, {0, 1}, TRUE) /\ r.hasSp /\ r.zoom \in 1..cfg.nZoom, s2,
                      [i EXCEPT !.spk = << 2, r.zoom >>, !.zoom = r.zoom, !.ptsRnd = i.rnd])
      [] r.e = "SetTmpl" ->
           \* A scatter-point image derived with automatic (template-dependent) settings belongs to the
           \* old template.  Dropping it here (it is derived again by set_up) is the specified behaviour;
           \* keeping it is tolerated on this line only because its consequence - outputs that differ
           \* from a fresh object's - is caught at the next Compute (finding C16-zoomlatch).
           LET drop == i.zoom = 0 /\ i.spk[1] = 2 /\ ~r.hasSp
               t2 == SetTmplOp(s, cfg.dets[r.id], cfg.geo[r.id])
               s2 == ApplyRm(IF drop THEN DropDerivedOp(t2) ELSE t2, r) IN
           Plain(r.id \in 1..Len(cfg.dets) /\ SetterOK(r, s, s2, {0, 1}, FALSE) /\ r.ndp = 0 /\ (r.hasSp = (s2.spImg # 0)),
                 s2, [i EXCEPT !.tm = r.id, !.tmDs = << 0, 0 >>, !.effE = 0, !.spk = IF drop THEN << 0, 0 >> ELSE @])
      [] r.e = "SetEnergy" ->
           LET s2 == ApplyRm(SetEnergyOp(s), r) IN
           Plain(SetterOK(r, s, s2, {}, FALSE) /\ r.id \in 1..Len(cfg.win), s2, [i EXCEPT !.en = r.id])
      [] r.e = "SetCache" ->
           LET s2 == ApplyRm(SetCacheOp(s, r.b), r) IN
           Plain(SetterOK(r, s, s2, IF r.b = s.useCache THEN {} ELSE {0, 1}, FALSE), s2, i)
      [] r.e = "SetOut" -> Plain(~r.err /\ s.tmpl > 0 /\ r.id = i.tm /\ Flags(r, s) /\ Len(r.ev) = 0, SetOutOp(s), i)
      (* ------------- beyond the property's list of settings ------------- *)
      [] r.e = "SetThr" ->
           LET s2 == ApplyRm(MaySample(r, s, SetThrOp(s)), r) IN
           Count(MaySampleOK(r, s, s2) /\ r.id \in 1..cfg.nThr, s2, [i EXCEPT !.thr = r.id, !.ptsRnd = IF Len(Samples(r)) > 0 THEN i.rnd ELSE @],
                 [cnt EXCEPT !.thr = @ + 1])
      [] r.e = "SetRnd" ->
           LET s2 == ApplyRm(MaySample(r, s, SetRndOp(s, r.b)), r) IN
           Count(MaySampleOK(r, s, s2), s2, [i EXCEPT !.rnd = r.b, !.ptsRnd = IF Len(Samples(r)) > 0 THEN r.b ELSE @], [cnt EXCEPT !.rnd = @ + 1])
      [] r.e = "SetZoom" ->
           LET s2 == ApplyRm(MayDrop(r, s, SetZoomOp(s)), r) IN
           Count(SetterOK(r, s, s2, {}, FALSE) /\ (r.hasSp = (s2.spImg # 0)) /\ r.zoom \in 1..cfg.nZoom, s2,
                 [i EXCEPT !.zoom = r.zoom, !.spk = IF Drops(r, s) THEN << 0, 0 >> ELSE @], [cnt EXCEPT !.zoomSet = @ + 1])
      [] r.e = "DsScanner" ->
           \* downsample_scanner(rings, detectors): the template is replaced by a coarser one with exactly
           \* that many rings and detectors, and output data for it are installed
           LET s2 == ApplyRm(DownsampleScannerOp(s, r.dr * r.dd, 1000 + 100 * r.dr + r.dd), r) IN
           Count(/\ s.tmpl > 0 /\ r.ok /\ SetterOK(r, s, s2, {0, 1}, FALSE) /\ r.ndp = 0 /\ (r.hasSp = (s.spImg # 0))
                 /\ r.newN = r.dd /\ r.newR = r.dr /\ r.outInMemory /\ r.newTang <= r.newN,
                 s2, [i EXCEPT !.tmDs = << r.dr, r.dd >>, !.effE = 0], [cnt EXCEPT !.dsScanner = @ + 1])
      [] r.e = "DsImages" ->
           IF DownsampleImagesErr(s) THEN Plain(~r.err /\ ~r.ok /\ Flags(r, s) /\ Len(r.ev) = 0, s, i)
           ELSE LET s2 == ApplyRm(MayDrop(r, s, DownsampleImagesOp(s)), r) IN
                Count(r.ok /\ SetterOK(r, s, s2, (IF s.act # 0 THEN {1} ELSE {}) \cup (IF s.att # 0 THEN {0} ELSE {}), FALSE)
                      /\ (r.hasSp = (s2.spImg # 0)),
                      s2, [i EXCEPT !.actDs = IF i.act # 0 THEN i.tm ELSE @, !.attDs = IF i.att # 0 THEN i.tm ELSE @,
                                    !.spk = IF Drops(r, s) THEN << 0, 0 >> ELSE @],
                      [cnt EXCEPT !.dsImages = @ + 1])
      [] r.e = "SetUp" -> SetUpLine(r, s, i)
      [] r.e = "Compute" -> ComputeLine(r, s, i, n)
      [] r.e = "Pairs" -> PairsLine(r, s, i)
      [] r.e = "Delete" -> Plain(TRUE, s, i)
      [] OTHER -> Plain(FALSE, s, i)

\* the logged relations between the activity images of the pool hold voxel by voxel (images in 1/8 units)
ConfigOK(r) ==
  /\ Len(r.acts) = r.nAct /\ Len(r.dets) = Len(r.geo)
  /\ \A a \in 1..r.nAct : NonNeg(r.acts[a]) /\ Len(r.acts[a]) = Len(r.acts[1])
  /\ \A x \in 1..Len(r.rels) :
       LET rel == r.rels[x] IN
       /\ \A q \in 1..3 : rel[q] \in 1..r.nAct
       /\ \A v \in 1..Len(r.acts[1]) : r.acts[rel[1]][v] = rel[4] * r.acts[rel[2]][v] + rel[5] * r.acts[rel[3]][v]
  /\ \A a, b \in 1..Len(r.win) : a # b => r.win[a] # r.win[b]

Init == l = 1 /\ cfg = NoCfg /\ objs = << >> /\ ids = << >> /\ memo = << >> /\ bad = << >> /\ cnt = ZeroCnt
AddBad(cls) == IF Len(SelectSeq(bad, LAMBDA x : x[2] = cls)) < 40 THEN Append(bad, << l, cls >>) ELSE bad
Next ==
  /\ l <= Len(TraceLog)
  /\ l' = l + 1
  /\ LET r == TraceLog[l] IN
     IF r.e = "Config"
     THEN /\ cfg' = r /\ objs' = << >> /\ ids' = << >> /\ memo' = << >> /\ cnt' = cnt
          /\ bad' = IF ConfigOK(r) THEN bad ELSE AddBad("new")
     ELSE IF cfg = NoCfg
     THEN /\ bad' = AddBad("new") /\ UNCHANGED << cfg, objs, ids, memo, cnt >>
     ELSE \E res \in { Line(r, l) } :
            /\ cfg' = cfg
            /\ bad' = IF res.ok THEN bad ELSE AddBad(res.cls)
            /\ memo' = res.memo /\ cnt' = res.cnt
            /\ IF ~Has(r, "o") \/ r.e = "Phys" THEN UNCHANGED << objs, ids >>
               ELSE IF r.e = "Delete"
               THEN /\ objs' = [o \in DOMAIN objs \ {r.o} |-> objs[o]]
                    /\ ids' = [o \in DOMAIN ids \ {r.o} |-> ids[o]]
               ELSE /\ objs' = (r.o :> res.s) @@ objs
                    \* lastOut: the output data hold the result of a process_data for the current settings
                    /\ ids' = (r.o :> [res.i EXCEPT !.lastOut = IF r.e \in {"Compute", "Pairs"} /\ ~r.err THEN @ ELSE FALSE]) @@ ids
Spec == Init /\ [][Next]_<< l, cfg, objs, ids, memo, bad, cnt >>

\* evaluated in the final state only (no successor): prints the unexplained lines and the counters
Done == l > Len(TraceLog) => /\ PrintT(<< "COUNTS", cnt >>)
                             /\ (bad = << >> \/ PrintT(<< "UNEXPLAINED", bad >>))
Consumed == IF TLCGet("stats").diameter - 1 = Len(TraceLog) THEN TRUE
            ELSE PrintT(<< "REJECTED_AT", TLCGet("stats").diameter >>) /\ FALSE
=============================================================================
