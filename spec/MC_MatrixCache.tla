---------------------------- MODULE MC_MatrixCache ----------------------------
(* All histories of at most MaxLen calls on one matrix object: requests for  *)
(* the bins ReqBins, enable_cache, store_only_basic_bins_in_cache,           *)
(* clear_cache, set_do_symmetry_xxx, set_up for one of NumGens geometries      *)
(* (same data, different image index ranges).  Invariants: the cache is      *)
(* sound and every request returns the row of the current geometry.          *)
(* Defect # "none" replaces set_up / the insertion by a faulty variant; the  *)
(* checker uses those configurations to show that the invariants bite.       *)
EXTENDS MatrixCache
CONSTANTS MaxLen, NumGens, Defect, Impls
VARIABLES st, n, last, want   \* want: the geometry the caller last asked set_up for (history variable)

C1 == [N |-> 8, R |-> 2, span |-> 1, ge |-> FALSE, maxDelta |-> 1, mash |-> 1, tofMash |-> 0, maxT |-> 3,
       minTang |-> -1, maxTang |-> 1, minSeg |-> -1, maxSeg |-> 1]
GridOf(gen) == [zmin |-> 0, zmax |-> 2 + gen, nppr |-> 2, oz |-> 0, square |-> TRUE, xy0 |-> TRUE, tilt |-> FALSE, geom |-> "Cylindrical"]
ReqBins == { Bin(1, 0, 1, 1, 0), Bin(-1, 0, 1, 1, 0), Bin(1, 0, 3, -1, 0), Bin(0, 1, 2, 0, 0), Bin(0, 0, 0, 0, 0), Bin(-1, 0, 2, 1, 0) }
SwChoices == { AllSym, NoSym, [NoSym EXCEPT !.ss = TRUE, !.sz = TRUE] }

\* faulty variants (never used with Defect = "none")
SetUpV(s, gen) ==
  CASE Defect = "skipsetup" /\ s.done -> Out(s, << >>, NoRow)            \* re-set_up skipped although the geometry differs
    [] Defect = "stalecache" /\ ~SetUpSkipped(s, gen) ->                 \* cache survives set_up
         LET o == DoSetUp(s, gen, C1, GridOf(gen)) IN Out([o.st EXCEPT !.cache = s.cache], o.hooks, o.ret)
    [] OTHER -> DoSetUp(s, gen, C1, GridOf(gen))
GetV(s, b) ==
  IF Defect = "basickey" /\ ~s.basicOnly /\ s.cacheOn /\ s.done
  THEN \* the transformed row is stored under the key of the basic bin
       LET o == DoGet(s, b)  bb == FindBasic(s.c, s.esw, b) IN
       IF o.ret # NoRow /\ Find(s, b) = {} /\ Find(s, bb) = {} /\ bb # b
       THEN Out([s EXCEPT !.cache = @ \cup { [view |-> bb.view, seg |-> bb.seg, key |-> Key(bb), bin |-> bb, row |-> o.ret] }], o.hooks, o.ret)
       ELSE o
  ELSE DoGet(s, b)

Init == st \in { IF i = "FromFile" THEN NewFromFile(1, C1, GridOf(1), AllSym, TRUE, TRUE) ELSE NewMatrix(i, AllSym, TRUE, TRUE) : i \in Impls } /\ n = 0 /\ last = Out(DefaultMatrix, << >>, NoRow) /\ want = 0
Step(o) == n < MaxLen /\ st' = o.st /\ last' = o /\ n' = n + 1 /\ UNCHANGED want
Get == \E b \in ReqBins : st.gen >= 1 /\ Step(GetV(st, b))
EnableCache == \E v \in BOOLEAN : Step(DoEnableCache(st, v))
StoreOnlyBasic == \E v \in BOOLEAN : Step(DoStoreOnlyBasic(st, v))
Clear == st.gen >= 1 /\ Step(DoClear(st))
SetSwitches == \E sw \in SwChoices : st.impl = "RayTracing" /\ Step(DoSetSwitches(st, sw))
\* FromFile: a set_up for another geometry than the stored one is refused and changes nothing
SetUpFF == \E gen \in 1..NumGens :
             LET o == DoSetUpFromFile(st, gen) IN
             st.impl = "FromFile" /\ n < MaxLen /\ st' = o.st /\ last' = Out(o.st, << >>, NoRow) /\ n' = n + 1
             /\ want' = IF o.refused THEN want ELSE gen
SetUp == \E gen \in 1..NumGens : st.impl # "FromFile" /\ n < MaxLen /\ st' = SetUpV(st, gen).st /\ last' = SetUpV(st, gen) /\ n' = n + 1 /\ want' = gen
\* parsing (Interpolation) sets switches and cache mode at once
Parse == \E sw \in SwChoices : \E m \in {<<FALSE, FALSE>>, <<TRUE, TRUE>>, <<TRUE, FALSE>>} :
           st.impl = "Interpolation" /\ Step(DoParse(st, sw, m[1], m[2]))
\* a set_up that is refused; the caller still wants its previous geometry and must set up again before use
SetUpRefused == st.impl = "RayTracing" /\ n < MaxLen /\ st' = DoSetUpRefused(st).st /\ last' = DoSetUpRefused(st) /\ n' = n + 1 /\ want' = -1
Next == Get \/ EnableCache \/ StoreOnlyBasic \/ Clear \/ SetSwitches \/ SetUp \/ SetUpFF \/ Parse \/ SetUpRefused
Spec == Init /\ [][Next]_<<st, n, last, want>>
View == <<st, n, want>>

InvCache == CacheSound(st)
InvGet == st.gen >= 1 => \A b \in ReqBins : GetCorrect(st, b) /\ GetDefined(st, b)
\* the last call returned the row of the current geometry (or an error / no row)
InvLast == last.ret = NoRow \/ last.ret.gen = want \/ want = -1
\* "after setting the matrix up again for another geometry": the object is set up for the geometry asked for
InvGen == st.gen = want \/ (st.impl = "FromFile" /\ want = 0)
\* a set_up that is not skipped leaves an empty cache and announces it
InvSetUp == (last.hooks = << EvClear >>) => st.cache = {}
\* nothing is held for use after a refused set_up
InvRefused == st.gen = -1 => (st.cache = {} /\ ~st.done)
\* S4 on a small box (evaluated in the initial state only)
InvKey == n = 0 => (S4([ax |-> 2, tang |-> 2, tof |-> 2], 3) /\ S4([ax |-> 3, tang |-> 1, tof |-> 2], 4))
=============================================================================
