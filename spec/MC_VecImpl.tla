----------------------------- MODULE MC_VecImpl -----------------------------
(* Model check of the pointer-level model: for every history of at most      *)
(* MaxDepth operations (core alphabet) on VectorWithOffset<int> ("VI"),       *)
(* NumericVectorWithOffset<float> ("NF") and Array<1,float> ("A1")            *)
(*   - memory safety: no access outside the allocation, check_state() holds   *)
(*   - refinement: every operation commutes with VecAbstract!Apply            *)
EXTENDS VecImpl, VecAlphabet, IOUtils
CONSTANTS MaxDepth, Sel
VARIABLES ty, M, depth

Depth == IF "C11_DEPTH" \in DOMAIN IOEnv THEN atoi(IOEnv.C11_DEPTH) ELSE MaxDepth
Alphabet == { op \in AlphabetSel(Sel) : op.k \in ImplKinds }

M0 == [v |-> << IVec0, IVec0 >>, blk |-> [c \in 1..K |-> 100 + c], oob |-> FALSE]
Init == ty \in {"VI", "NF", "A1"} /\ M = M0 /\ depth = 0
Next == /\ depth < Depth
        /\ \E op \in Alphabet : Enabled(ty, Abs(M), op) /\ M' = Do(ty, M, op).m
        /\ depth' = depth + 1 /\ ty' = ty
Spec == Init /\ [][Next]_<< ty, M, depth >>

\* "no operation reads or writes outside the storage it owns" (the flag oob is sticky)
Inv_MemorySafe == MemorySafe(M)
\* the pointer-level model implements the index-range-map semantics
Inv_NoOob == ~M.oob
Inv_Refines == depth < Depth => \A op \in Alphabet : Enabled(ty, Abs(M), op) => Refines(ty, M, op)
Inv_AbsOK == StateOK(Abs(M)) /\ EmptyNormalised(M)
=============================================================================
