INIT GenInit
NEXT GenNext
CONSTANTS MaxCells = 4000 MaxKLCells = 700 Thin = 199
CHECK_DEADLOCK FALSE
