SPECIFICATION TSpec
INVARIANT Done
POSTCONDITION Consumed
CHECK_DEADLOCK FALSE
