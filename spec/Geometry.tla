------------------------------- MODULE Geometry -------------------------------
(***************************************************************************)
(* Detector pairs, ring pairs, the Michelogram, the CTI view/tangential    *)
(* interleaving and TOF mashing of a cylindrical PET scanner, as an        *)
(* abstract function over a configuration record.  Everything here is      *)
(* written from the class documentation (ProjDataInfo::construct_proj_     *)
(* data_info, ProjDataInfoCylindrical, ProjDataInfoCylindricalNoArcCorr);  *)
(* the only formula taken from the code is the documented CTI interleaving *)
(* VT2D.  The inverse map is defined declaratively (the unique preimage),  *)
(* never by transcribing the hand-inverted table of the implementation.    *)
(*                                                                         *)
(* A configuration c is a record                                           *)
(*   N        detectors per ring (even)                                    *)
(*   R        rings                                                        *)
(*   span     axial compression (odd: CTI; even: segment 0 gets span+1)    *)
(*   ge       TRUE for the mixed "GE" layout (ProjDataInfoGE)              *)
(*   maxDelta maximum ring difference                                      *)
(*   mash     view mashing factor (divides N/2)                            *)
(*   tofMash  TOF mashing factor (0 = non-TOF)                             *)
(*   maxT     scanner's max number of (unmashed) timing positions          *)
(*   minTang, maxTang   tangential range                                   *)
(*   minSeg, maxSeg     segment range (after reduce_segment_range)         *)
(***************************************************************************)
EXTENDS Integers, Sequences, FiniteSets, TLC

Abs(x) == IF x < 0 THEN -x ELSE x
Min2(a, b) == IF a < b THEN a ELSE b
Max2(a, b) == IF a > b THEN a ELSE b
Sgn(x) == IF x < 0 THEN -1 ELSE IF x > 0 THEN 1 ELSE 0

(* ---------------------------- Michelogram ------------------------------ *)
Half0(c) == IF c.ge THEN 1 ELSE IF c.span % 2 = 1 THEN (c.span - 1) \div 2 ELSE c.span \div 2
Width(c) == IF c.ge THEN 1 ELSE c.span           \* ring differences per segment beyond segment 0

\* ring-difference range of segment s >= 0 before truncation by maxDelta
PosMinRD(c, s) == IF s = 0 THEN -Half0(c) ELSE Half0(c) + 1 + (s - 1) * Width(c)
PosMaxRDu(c, s) == IF s = 0 THEN Half0(c) ELSE Half0(c) + s * Width(c)
PosMaxRD(c, s) == Min2(PosMaxRDu(c, s), c.maxDelta)

\* largest segment number of the full (unreduced) data: the first segment reaching maxDelta
FullMaxSeg(c) == CHOOSE s \in 0..(c.maxDelta + 1) : PosMaxRDu(c, s) >= c.maxDelta /\ \A u \in 0..(s - 1) : PosMaxRDu(c, u) < c.maxDelta

SegMinRD(c, s) == IF s >= 0 THEN PosMinRD(c, s) ELSE -PosMaxRD(c, -s)
SegMaxRD(c, s) == IF s >= 0 THEN PosMaxRD(c, s) ELSE -PosMinRD(c, -s)
Segs(c) == c.minSeg..c.maxSeg

\* smallest absolute ring difference in the segment (0 for segment 0)
MinAbsRD(c, s) == IF s = 0 THEN 0 ELSE PosMinRD(c, Abs(s))
\* axial positions per ring increment: 2 for axially compressed segments (half-ring sampling), else 1
Compressed(c, s) == IF c.ge THEN s = 0 ELSE c.span > 1
Inc(c, s) == IF Compressed(c, s) THEN 2 ELSE 1
\* number of axial positions = number of values of ring1+ring2 on the half-ring (resp. ring) grid
NumAx(c, s) == IF Compressed(c, s) THEN 2 * c.R - 1 - 2 * MinAbsRD(c, s) ELSE c.R - MinAbsRD(c, s)

Rings(c) == 0..(c.R - 1)
CoveredRD(c, d) == \E s \in Segs(c) : d >= SegMinRD(c, s) /\ d <= SegMaxRD(c, s)
SegOfRD(c, d) == CHOOSE s \in Segs(c) : d >= SegMinRD(c, s) /\ d <= SegMaxRD(c, s)
\* axial position of a ring pair inside its segment: the rank of ring1+ring2
AxOf(c, s, r1, r2) == ((r1 + r2 - MinAbsRD(c, s)) * Inc(c, s)) \div 2
RingPairsOf(c, s, ax) ==
  { rp \in Rings(c) \X Rings(c) :
       /\ rp[2] - rp[1] >= SegMinRD(c, s) /\ rp[2] - rp[1] <= SegMaxRD(c, s)
       /\ AxOf(c, s, rp[1], rp[2]) = ax }

\* closed form of the same set (theorem T7 below: equal to RingPairsOf), used on big scanners
SumOf(c, s, ax) == IF Inc(c, s) = 2 THEN ax + MinAbsRD(c, s) ELSE 2 * ax + MinAbsRD(c, s)
RingPairsFast(c, s, ax) ==
  LET sum == SumOf(c, s, ax) IN
  { << (sum - d) \div 2, (sum + d) \div 2 >> :
      d \in { x \in SegMinRD(c, s)..SegMaxRD(c, s) :
                (sum - x) % 2 = 0 /\ sum - x >= 0 /\ sum + x >= 0 /\ (sum - x) \div 2 < c.R /\ (sum + x) \div 2 < c.R } }

(* --------------------- in-plane: CTI interleaving ----------------------- *)
NV(c) == c.N \div 2                          \* unmashed views
Views(c) == 0..((NV(c) \div c.mash) - 1)
VT2D(N, v, tp) == << (v + (tp \div 2)) % N, (v - ((tp + 1) \div 2) + (N \div 2)) % N >>
FullTang(c) == (-(NV(c)) + 1)..(NV(c) - 1)     \* tangential positions with det1 # det2
\* declarative inverse: the in-plane coordinates of the ORDERED detector pair <<d1,d2>>:
\* same = TRUE when VT2D gives the pair in this order, FALSE when exchanged.
InPlaneCands(c, d1, d2) ==
  { x \in [v : 0..(NV(c) - 1), tp : FullTang(c), same : BOOLEAN] :
       VT2D(c.N, x.v, x.tp) = (IF x.same THEN <<d1, d2>> ELSE <<d2, d1>>) }
InPlaneOf(c, d1, d2) == CHOOSE x \in InPlaneCands(c, d1, d2) : TRUE
\* O(mash) verification that <<view, tang, same>> are the coordinates of <<d1,d2>>
IsInPlaneOf(c, d1, d2, view, tang, same) ==
  /\ tang \in FullTang(c)
  /\ view \in Views(c)
  /\ \E k \in 0..(c.mash - 1) :
        VT2D(c.N, view * c.mash + k, tang) = (IF same THEN <<d1, d2>> ELSE <<d2, d1>>)

(* ------------------------------- TOF ----------------------------------- *)
\* stir::round(t / tofMash): round half away from zero
RoundDiv(t, m) == Sgn(t) * ((2 * Abs(t) + m) \div (2 * m))
TofBin(c, t) == IF c.tofMash = 0 THEN 0 ELSE RoundDiv(t, c.tofMash)
NumTof(c) == IF c.tofMash = 0 THEN 1 ELSE c.maxT \div c.tofMash
MinTof(c) == IF c.tofMash = 0 THEN 0 ELSE -(NumTof(c) \div 2)
MaxTof(c) == IF c.tofMash = 0 THEN 0 ELSE MinTof(c) + NumTof(c) - 1
TofBins(c) == MinTof(c)..MaxTof(c)
\* unmashed timing positions that fall into a bin of the data
UnmashedT(c) == IF c.tofMash = 0 THEN {0} ELSE { t \in (-(c.maxT))..c.maxT : TofBin(c, t) \in TofBins(c) }

(* --------------------- detector pairs <-> bins ------------------------- *)
\* p = <<d1, r1, d2, r2, t>>
Bin(s, a, v, tp, k) == [seg |-> s, ax |-> a, view |-> v, tang |-> tp, tof |-> k]
NoBin == [seg |-> 9999, ax |-> 0, view |-> 0, tang |-> 0, tof |-> 0]
\* the bin given the in-plane coordinates
BinGiven(c, p, view, tang, same) ==
  LET ra == IF same THEN p[2] ELSE p[4]
      rb == IF same THEN p[4] ELSE p[2]
      k == IF same THEN TofBin(c, p[5]) ELSE -TofBin(c, p[5])
  IN IF CoveredRD(c, rb - ra)
     THEN LET s == SegOfRD(c, rb - ra) IN Bin(s, AxOf(c, s, ra, rb), view, tang, k)
     ELSE NoBin
BinOf(c, p) == LET x == InPlaneOf(c, p[1], p[3]) IN BinGiven(c, p, x.v \div c.mash, x.tp, x.same)
InTangRange(c, b) == b.tang >= c.minTang /\ b.tang <= c.maxTang

AllBins(c) == { b \in [seg : Segs(c), ax : 0..(2 * c.R), view : Views(c), tang : c.minTang..c.maxTang, tof : TofBins(c)] :
                  b.ax < NumAx(c, b.seg) }
AllPairs(c) == { p \in (0..(c.N - 1)) \X Rings(c) \X (0..(c.N - 1)) \X Rings(c) \X UnmashedT(c) : p[1] # p[3] }
SwapPair(p) == << p[3], p[4], p[1], p[2], -p[5] >>      \* the same physical event, detectors exchanged
NumPairs(c, b, spatialOnly) ==
  Cardinality(RingPairsFast(c, b.seg, b.ax)) * c.mash * (IF spatialOnly THEN 1 ELSE Max2(1, c.tofMash))
\* pairs modulo the exchange of the two detectors (with the timing position negated)
CanonPair(p) == IF p[1] < p[3] THEN p ELSE SwapPair(p)

(* ----------------- theorems checked by TLC (MC_Geometry) ---------------- *)
\* T1: the interleaving is a bijection between (view, tang # N/2) x orientation and ordered pairs
T1(c) == \A d1, d2 \in 0..(c.N - 1) : d1 # d2 => Cardinality(InPlaneCands(c, d1, d2)) = 1
\* T2: ring pairs are partitioned over (segment, axial position)
T2(c) == \A r1, r2 \in Rings(c) :
           LET d == r2 - r1 IN
           /\ Cardinality({ s \in Segs(c) : d >= SegMinRD(c, s) /\ d <= SegMaxRD(c, s) }) <= 1
           /\ CoveredRD(c, d) =>
                LET s == SegOfRD(c, d) IN
                /\ AxOf(c, s, r1, r2) \in 0..(NumAx(c, s) - 1)
                /\ Cardinality({ sa \in { x \in Segs(c) \X (0..(2 * c.R)) : x[2] < NumAx(c, x[1]) } :
                                    <<r1, r2>> \in RingPairsOf(c, sa[1], sa[2]) }) = 1
\* T3: the pairs assigned to a bin number exactly NumPairs
\* (tables ipT / binT only memoise InPlaneOf / BinOf; factor 2: AllPairs holds both orientations of
\* each physical event)
IpTable(c) == [ dd \in { x \in (0..(c.N - 1)) \X (0..(c.N - 1)) : x[1] # x[2] } |-> InPlaneOf(c, dd[1], dd[2]) ]
BinOfT(c, ipT, p) == LET x == ipT[<<p[1], p[3]>>] IN BinGiven(c, p, x.v \div c.mash, x.tp, x.same)
BinTable(c, ipT) == [ p \in AllPairs(c) |-> BinOfT(c, ipT, p) ]
T3(c, binT) == LET
             inRange == { p \in AllPairs(c) : binT[p] # NoBin /\ InTangRange(c, binT[p]) }
         IN /\ \A b \in AllBins(c) : Cardinality({ p \in inRange : binT[p] = b }) = 2 * NumPairs(c, b, FALSE)
            /\ \A p \in inRange : binT[p] \in AllBins(c)
\* T4: exchanging the detectors (same unmashed timing position) negates the TOF bin only
T4(c, binT) ==
         \A p \in AllPairs(c) :
           LET b == binT[p]  q == binT[<<p[3], p[4], p[1], p[2], p[5]>>] IN
           IF b = NoBin THEN q = NoBin ELSE q = [b EXCEPT !.tof = -b.tof]
\* T5: uncompressed data: one physical pair per bin
T5(c) == (c.span = 1 /\ ~c.ge /\ c.mash = 1 /\ c.tofMash \in {0, 1}) =>
           \A b \in AllBins(c) : NumPairs(c, b, FALSE) = 1
\* T6: an event and its exchanged description are the same bin
T6(c, binT) == \A p \in AllPairs(c) : binT[SwapPair(p)] = binT[p]

\* T7: the closed form of the ring-pair sets
T7(c) == \A s \in Segs(c) : \A ax \in 0..(NumAx(c, s) - 1) : RingPairsFast(c, s, ax) = RingPairsOf(c, s, ax)

LegalConfig(c) ==
  /\ c.N % 2 = 0 /\ c.N >= 4 /\ c.R >= 1
  /\ NV(c) % c.mash = 0
  /\ c.maxDelta <= c.R - 1
  /\ (IF c.ge THEN c.maxDelta >= 1 ELSE c.span >= 1 /\ c.span <= 2 * c.R - 1 /\ c.maxDelta >= Half0(c))
  /\ c.minSeg = -c.maxSeg /\ c.maxSeg >= 0 /\ c.maxSeg <= FullMaxSeg(c)
  /\ c.minTang >= -(NV(c)) + 1 /\ c.maxTang <= NV(c) - 1 /\ c.minTang <= c.maxTang
  /\ (c.tofMash = 0 \/ (c.tofMash >= 1 /\ c.tofMash <= c.maxT /\ (c.maxT \div c.tofMash) % 2 = 1))
\* configuration class in which the unchanged implementation is known to be inconsistent
\* (known finding C01-truncseg): compressed data whose last segment is truncated to one ring difference
TruncSingleRD(c) == \E s \in Segs(c) : s # 0 /\ Compressed(c, s) /\ SegMinRD(c, s) = SegMaxRD(c, s)
=============================================================================
