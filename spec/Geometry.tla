------------------------------- MODULE Geometry -------------------------------
(***************************************************************************)
(* Detector pairs, ring pairs, the Michelogram, the CTI view/tangential    *)
(* interleaving and TOF mashing of a cylindrical PET scanner, as an        *)
(* abstract function over a configuration record.  Everything here is      *)
(* written from the class documentation (ProjDataInfo::construct_proj_     *)
(* data_info, ProjDataInfoCylindrical, ProjDataInfoCylindricalNoArcCorr);  *)
(* the only formula taken from the code is the documented CTI interleaving *)
(* VT2D.  The inverse map is defined declaratively (the unique preimage),  *)
(* never by transcribing the hand-inverted table of the implementation.    *)
(*                                                                         *)
(* A configuration c is a record                                           *)
(*   N        detectors per ring (even)                                    *)
(*   R        rings                                                        *)
(*   span     axial compression (odd: CTI; even: segment 0 gets span+1)    *)
(*   ge       TRUE for the mixed "GE" layout (ProjDataInfoGE)              *)
(*   maxDelta maximum ring difference                                      *)
(*   mash     view mashing factor (divides N/2)                            *)
(*   tofMash  TOF mashing factor (0 = non-TOF)                             *)
(*   maxT     scanner's max number of (unmashed) timing positions          *)
(*   minTang, maxTang   tangential range                                   *)
(*   minSeg, maxSeg     segment range (after reduce_segment_range)         *)
(***************************************************************************)
EXTENDS Integers, Sequences, FiniteSets, TLC

Abs(x) == IF x < 0 THEN -x ELSE x
Min2(a, b) == IF a < b THEN a ELSE b
Max2(a, b) == IF a > b THEN a ELSE b
Sgn(x) == IF x < 0 THEN -1 ELSE IF x > 0 THEN 1 ELSE 0

(* ---------------------------- Michelogram ------------------------------ *)
Half0(c) == IF c.ge THEN 1 ELSE IF c.span % 2 = 1 THEN (c.span - 1) \div 2 ELSE c.span \div 2
Width(c) == IF c.ge THEN 1 ELSE c.span           \* ring differences per segment beyond segment 0

\* ring-difference range of segment s >= 0 before truncation by maxDelta
PosMinRD(c, s) == IF s = 0 THEN -Half0(c) ELSE Half0(c) + 1 + (s - 1) * Width(c)
PosMaxRDu(c, s) == IF s = 0 THEN Half0(c) ELSE Half0(c) + s * Width(c)
PosMaxRD(c, s) == Min2(PosMaxRDu(c, s), c.maxDelta)

\* largest segment number of the full (unreduced) data: the first segment reaching maxDelta
FullMaxSeg(c) == CHOOSE s \in 0..(c.maxDelta + 1) : PosMaxRDu(c, s) >= c.maxDelta /\ \A u \in 0..(s - 1) : PosMaxRDu(c, u) < c.maxDelta

SegMinRD(c, s) == IF s >= 0 THEN PosMinRD(c, s) ELSE -PosMaxRD(c, -s)
SegMaxRD(c, s) == IF s >= 0 THEN PosMaxRD(c, s) ELSE -PosMinRD(c, -s)
Segs(c) == c.minSeg..c.maxSeg

\* smallest absolute ring difference in the segment (0 for segment 0)
MinAbsRD(c, s) == IF s = 0 THEN 0 ELSE PosMinRD(c, Abs(s))
\* axial positions per ring increment: 2 for axially compressed segments (half-ring sampling), else 1
Compressed(c, s) == IF c.ge THEN s = 0 ELSE c.span > 1
Inc(c, s) == IF Compressed(c, s) THEN 2 ELSE 1
\* number of axial positions = number of values of ring1+ring2 on the half-ring (resp. ring) grid
NumAx(c, s) == IF Compressed(c, s) THEN 2 * c.R - 1 - 2 * MinAbsRD(c, s) ELSE c.R - MinAbsRD(c, s)

Rings(c) == 0..(c.R - 1)
CoveredRD(c, d) == \E s \in Segs(c) : d >= SegMinRD(c, s) /\ d <= SegMaxRD(c, s)
SegOfRD(c, d) == CHOOSE s \in Segs(c) : d >= SegMinRD(c, s) /\ d <= SegMaxRD(c, s)
\* axial position of a ring pair inside its segment: the rank of ring1+ring2
AxOf(c, s, r1, r2) == ((r1 + r2 - MinAbsRD(c, s)) * Inc(c, s)) \div 2
RingPairsOf(c, s, ax) ==
  { rp \in Rings(c) \X Rings(c) :
       /\ rp[2] - rp[1] >= SegMinRD(c, s) /\ rp[2] - rp[1] <= SegMaxRD(c, s)
       /\ AxOf(c, s, rp[1], rp[2]) = ax }

\* closed form of the same set (theorem T7 below: equal to RingPairsOf), used on big scanners
SumOf(c, s, ax) == IF Inc(c, s) = 2 THEN ax + MinAbsRD(c, s) ELSE 2 * ax + MinAbsRD(c, s)
RingPairsFast(c, s, ax) ==
  LET sum == SumOf(c, s, ax) IN
  { << (sum - d) \div 2, (sum + d) \div 2 >> :
      d \in { x \in SegMinRD(c, s)..SegMaxRD(c, s) :
                (sum - x) % 2 = 0 /\ sum - x >= 0 /\ sum + x >= 0 /\ (sum - x) \div 2 < c.R /\ (sum + x) \div 2 < c.R } }

(* --------------------- in-plane: CTI interleaving ----------------------- *)
NV(c) == c.N \div 2                          \* unmashed views
Views(c) == 0..((NV(c) \div c.mash) - 1)
VT2D(N, v, tp) == << (v + (tp \div 2)) % N, (v - ((tp + 1) \div 2) + (N \div 2)) % N >>
FullTang(c) == (-(NV(c)) + 1)..(NV(c) - 1)     \* tangential positions with det1 # det2
\* declarative inverse: the in-plane coordinates of the ORDERED detector pair <<d1,d2>>:
\* same = TRUE when VT2D gives the pair in this order, FALSE when exchanged.
InPlaneCands(c, d1, d2) ==
  { x \in [v : 0..(NV(c) - 1), tp : FullTang(c), same : BOOLEAN] :
       VT2D(c.N, x.v, x.tp) = (IF x.same THEN <<d1, d2>> ELSE <<d2, d1>>) }
InPlaneOf(c, d1, d2) == CHOOSE x \in InPlaneCands(c, d1, d2) : TRUE
\* O(mash) verification that <<view, tang, same>> are the coordinates of <<d1,d2>>
IsInPlaneOf(c, d1, d2, view, tang, same) ==
  /\ tang \in FullTang(c)
  /\ view \in Views(c)
  /\ \E k \in 0..(c.mash - 1) :
        VT2D(c.N, view * c.mash + k, tang) = (IF same THEN <<d1, d2>> ELSE <<d2, d1>>)

(* ------------------------------- TOF ----------------------------------- *)
\* stir::round(t / tofMash): round half away from zero
RoundDiv(t, m) == Sgn(t) * ((2 * Abs(t) + m) \div (2 * m))
TofBin(c, t) == IF c.tofMash = 0 THEN 0 ELSE RoundDiv(t, c.tofMash)
NumTof(c) == IF c.tofMash = 0 THEN 1 ELSE c.maxT \div c.tofMash
MinTof(c) == IF c.tofMash = 0 THEN 0 ELSE -(NumTof(c) \div 2)
MaxTof(c) == IF c.tofMash = 0 THEN 0 ELSE MinTof(c) + NumTof(c) - 1
TofBins(c) == MinTof(c)..MaxTof(c)
\* unmashed timing positions that fall into a bin of the data
UnmashedT(c) == IF c.tofMash = 0 THEN {0} ELSE { t \in (-(c.maxT))..c.maxT : TofBin(c, t) \in TofBins(c) }

(* --------------------- detector pairs <-> bins ------------------------- *)
\* p = <<d1, r1, d2, r2, t>>
Bin(s, a, v, tp, k) == [seg |-> s, ax |-> a, view |-> v, tang |-> tp, tof |-> k]
NoBin == [seg |-> 9999, ax |-> 0, view |-> 0, tang |-> 0, tof |-> 0]
\* the bin given the in-plane coordinates
BinGiven(c, p, view, tang, same) ==
  LET ra == IF same THEN p[2] ELSE p[4]
      rb == IF same THEN p[4] ELSE p[2]
      k == IF same THEN TofBin(c, p[5]) ELSE -TofBin(c, p[5])
  IN IF CoveredRD(c, rb - ra)
     THEN LET s == SegOfRD(c, rb - ra) IN Bin(s, AxOf(c, s, ra, rb), view, tang, k)
     ELSE NoBin
BinOf(c, p) == LET x == InPlaneOf(c, p[1], p[3]) IN BinGiven(c, p, x.v \div c.mash, x.tp, x.same)
InTangRange(c, b) == b.tang >= c.minTang /\ b.tang <= c.maxTang

AllBins(c) == { b \in [seg : Segs(c), ax : 0..(2 * c.R), view : Views(c), tang : c.minTang..c.maxTang, tof : TofBins(c)] :
                  b.ax < NumAx(c, b.seg) }
AllPairs(c) == { p \in (0..(c.N - 1)) \X Rings(c) \X (0..(c.N - 1)) \X Rings(c) \X UnmashedT(c) : p[1] # p[3] }
SwapPair(p) == << p[3], p[4], p[1], p[2], -p[5] >>      \* the same physical event, detectors exchanged
NumPairs(c, b, spatialOnly) ==
  Cardinality(RingPairsFast(c, b.seg, b.ax)) * c.mash * (IF spatialOnly THEN 1 ELSE Max2(1, c.tofMash))
\* pairs modulo the exchange of the two detectors (with the timing position negated)
CanonPair(p) == IF p[1] < p[3] THEN p ELSE SwapPair(p)

(* ----------------- theorems checked by TLC (MC_Geometry) ---------------- *)
\* T1: the interleaving is a bijection between (view, tang # N/2) x orientation and ordered pairs
T1(c) == \A d1, d2 \in 0..(c.N - 1) : d1 # d2 => Cardinality(InPlaneCands(c, d1, d2)) = 1
\* T2: ring pairs are partitioned over (segment, axial position)
T2(c) == \A r1, r2 \in Rings(c) :
           LET d == r2 - r1 IN
           /\ Cardinality({ s \in Segs(c) : d >= SegMinRD(c, s) /\ d <= SegMaxRD(c, s) }) <= 1
           /\ CoveredRD(c, d) =>
                LET s == SegOfRD(c, d) IN
                /\ AxOf(c, s, r1, r2) \in 0..(NumAx(c, s) - 1)
                /\ Cardinality({ sa \in { x \in Segs(c) \X (0..(2 * c.R)) : x[2] < NumAx(c, x[1]) } :
                                    <<r1, r2>> \in RingPairsOf(c, sa[1], sa[2]) }) = 1
\* T3: the pairs assigned to a bin number exactly NumPairs
\* (tables ipT / binT only memoise InPlaneOf / BinOf; factor 2: AllPairs holds both orientations of
\* each physical event)
IpTable(c) == [ dd \in { x \in (0..(c.N - 1)) \X (0..(c.N - 1)) : x[1] # x[2] } |-> InPlaneOf(c, dd[1], dd[2]) ]
BinOfT(c, ipT, p) == LET x == ipT[<<p[1], p[3]>>] IN BinGiven(c, p, x.v \div c.mash, x.tp, x.same)
BinTable(c, ipT) == [ p \in AllPairs(c) |-> BinOfT(c, ipT, p) ]
T3(c, binT) == LET
             inRange == { p \in AllPairs(c) : binT[p] # NoBin /\ InTangRange(c, binT[p]) }
         IN /\ \A b \in AllBins(c) : Cardinality({ p \in inRange : binT[p] = b }) = 2 * NumPairs(c, b, FALSE)
            /\ \A p \in inRange : binT[p] \in AllBins(c)
\* T4: exchanging the detectors (same unmashed timing position) negates the TOF bin only
T4(c, binT) ==
         \A p \in AllPairs(c) :
           LET b == binT[p]  q == binT[<<p[3], p[4], p[1], p[2], p[5]>>] IN
           IF b = NoBin THEN q = NoBin ELSE q = [b EXCEPT !.tof = -b.tof]
\* T5: uncompressed data: one physical pair per bin
T5(c) == (c.span = 1 /\ ~c.ge /\ c.mash = 1 /\ c.tofMash \in {0, 1}) =>
           \A b \in AllBins(c) : NumPairs(c, b, FALSE) = 1
\* T6: an event and its exchanged description are the same bin
T6(c, binT) == \A p \in AllPairs(c) : binT[SwapPair(p)] = binT[p]

\* T7: the closed form of the ring-pair sets
T7(c) == \A s \in Segs(c) : \A ax \in 0..(NumAx(c, s) - 1) : RingPairsFast(c, s, ax) = RingPairsOf(c, s, ax)

LegalConfig(c) ==
  /\ c.N % 2 = 0 /\ c.N >= 4 /\ c.R >= 1
  /\ NV(c) % c.mash = 0
  /\ c.maxDelta <= c.R - 1
  /\ (IF c.ge THEN c.maxDelta >= 1 ELSE c.span >= 1 /\ c.span <= 2 * c.R - 1 /\ c.maxDelta >= Half0(c))
  /\ c.minSeg = -c.maxSeg /\ c.maxSeg >= 0 /\ c.maxSeg <= FullMaxSeg(c)
  /\ c.minTang >= -(NV(c)) + 1 /\ c.maxTang <= NV(c) - 1 /\ c.minTang <= c.maxTang
  /\ (c.tofMash = 0 \/ (c.tofMash >= 1 /\ c.tofMash <= c.maxT /\ (c.maxT \div c.tofMash) % 2 = 1))
\* configuration class in which the unchanged implementation is known to be inconsistent
\* (known finding C01-truncseg): compressed data whose last segment is truncated to one ring difference
TruncSingleRD(c) == \E s \in Segs(c) : s # 0 /\ Compressed(c, s) /\ SegMinRD(c, s) = SegMaxRD(c, s)

(***************************************************************************)
(* Second round (C01): more of the behaviour behind the property.          *)
(* Nothing above this line is changed; everything below is an addition.    *)
(***************************************************************************)

(* ------------- asymmetric segment ranges (reduce_segment_range) --------- *)
\* ProjDataInfo::reduce_segment_range(min, max): "the new range has to be 'smaller' than the old one";
\* nothing asks for a symmetric range.
LegalConfigA(c) ==
  /\ LegalConfig([c EXCEPT !.minSeg = 0, !.maxSeg = 0])
  /\ c.minSeg <= c.maxSeg /\ c.minSeg >= -FullMaxSeg(c) /\ c.maxSeg <= FullMaxSeg(c)

(* ------------------------------ sizes ----------------------------------- *)
\* ProjDataInfo.h: get_num_non_tof_sinograms "is the sum of the number of axial poss over all segments",
\* get_num_sinograms "will count TOF sinograms as well", size_all "the total size of the data"
NumTangOf(c) == c.maxTang - c.minTang + 1
NumViewsOf(c) == NV(c) \div c.mash
RECURSIVE SumAx(_, _, _)
\* (binary splitting: the recursion depth stays logarithmic in the number of segments)
SumAx(c, lo, hi) == IF lo > hi THEN 0
                    ELSE IF lo = hi THEN NumAx(c, lo)
                    ELSE LET mid == (lo + hi) \div 2 IN SumAx(c, lo, mid) + SumAx(c, mid + 1, hi)
NumNonTofSinos(c) == SumAx(c, c.minSeg, c.maxSeg)
NumSinos(c) == NumNonTofSinos(c) * NumTof(c)
SizeAll(c) == NumSinos(c) * (NumViewsOf(c) * NumTangOf(c))      \* small configurations only (32-bit)
\* products beyond 2^31: 15-bit limbs, least significant first (both factors < 2^30)
LimbBase == 32768
WideMul(a, b) ==
  LET a0 == a % LimbBase  a1 == a \div LimbBase  b0 == b % LimbBase  b1 == b \div LimbBase
      p0 == a0 * b0  p1 == a1 * b0 + a0 * b1  p2 == a1 * b1
      t1 == p1 + (p0 \div LimbBase)  t2 == p2 + (t1 \div LimbBase)
  IN << p0 % LimbBase, t1 % LimbBase, t2 % LimbBase, t2 \div LimbBase >>
SizeAllWide(c) == WideMul(NumSinos(c), NumViewsOf(c) * NumTangOf(c))
WideOfSmall(x) == << x % LimbBase, (x \div LimbBase) % LimbBase, x \div (LimbBase * LimbBase), 0 >>
\* T8: the sizes count the bins
T8(c) == /\ SizeAll(c) = Cardinality(AllBins(c))
         /\ SizeAllWide(c) = WideOfSmall(SizeAll(c))
         /\ NumSinos(c) = Cardinality({ << b.seg, b.ax, b.tof >> : b \in AllBins(c) })
         /\ NumNonTofSinos(c) = Cardinality({ << b.seg, b.ax >> : b \in AllBins(c) })

(* --------------------- view subsets (ProjDataInfoSubsetByView) ---------- *)
\* vs: the sequence of original view numbers of the subset ("views are the views to subset over");
\* subset view i (0-based) is original view vs[i+1].
SeqRange(vs) == { vs[i] : i \in 1..Len(vs) }
LegalViews(c, vs) == /\ Len(vs) >= 1
                     /\ \A i \in 1..Len(vs) : vs[i] \in Views(c)
                     /\ \A i, j \in 1..Len(vs) : i # j => vs[i] # vs[j]
\* "Get the Bin of the original ProjDataInfo corresponding to a Bin for this subset"
SubOrgBin(vs, b) == [b EXCEPT !.view = vs[b.view + 1]]
\* "Get the Bin for this subset corresponding to a Bin of the original ProjDataInfo"
SubFromOrg(vs, ob) == [ob EXCEPT !.view = (CHOOSE i \in 1..Len(vs) : vs[i] = ob.view) - 1]
SubBins(c, vs) == { b \in [seg : Segs(c), ax : 0..(2 * c.R), view : 0..(Len(vs) - 1), tang : c.minTang..c.maxTang, tof : TofBins(c)] :
                      b.ax < NumAx(c, b.seg) }
SubSizeAll(c, vs) == NumSinos(c) * (Len(vs) * NumTangOf(c))
SubSizeAllWide(c, vs) == WideMul(NumSinos(c), Len(vs) * NumTangOf(c))
\* T9: the bins of the subset are, one to one, the bins of the full data whose view is in the subset; the two maps
\* are mutual inverses; the detector pairs of the full data whose bin has a view of the subset are partitioned
\* over the bins of the subset with the counts of the full data
T9(c, vs, binT) ==
  LET inSub == { p \in AllPairs(c) : binT[p] # NoBin /\ InTangRange(c, binT[p]) /\ binT[p].view \in SeqRange(vs) } IN
  /\ { SubOrgBin(vs, b) : b \in SubBins(c, vs) } = { b \in AllBins(c) : b.view \in SeqRange(vs) }
  /\ \A b \in SubBins(c, vs) : SubFromOrg(vs, SubOrgBin(vs, b)) = b
  /\ \A ob \in AllBins(c) : ob.view \in SeqRange(vs) => SubOrgBin(vs, SubFromOrg(vs, ob)) = ob /\ SubFromOrg(vs, ob) \in SubBins(c, vs)
  /\ Cardinality(SubBins(c, vs)) = SubSizeAll(c, vs)
  /\ \A b \in SubBins(c, vs) :
       Cardinality({ p \in inSub : SubFromOrg(vs, binT[p]) = b }) = 2 * NumPairs(c, SubOrgBin(vs, b), FALSE)

(* ------------- equality and the partial order of configurations --------- *)
\* ProjDataInfo::operator== "check equality"; operator>= "Check if *this contains proj": "true only if the types
\* are the same, they are equal, or the range for the TOF, segments, axial and tangential positions is at least
\* as large.  Currently view and TOF ranges have to be identical."
\* (a configuration record describes the data of ONE scanner; the scanner and the class are compared by the caller)
SameSampling(a, b) == a.N = b.N /\ a.R = b.R /\ a.maxT = b.maxT /\ a.mash = b.mash /\ a.tofMash = b.tofMash
SegTableEq(a, b, s) == SegMinRD(a, s) = SegMinRD(b, s) /\ SegMaxRD(a, s) = SegMaxRD(b, s)
CfgEq(a, b) == /\ SameSampling(a, b)
               /\ a.minSeg = b.minSeg /\ a.maxSeg = b.maxSeg /\ a.minTang = b.minTang /\ a.maxTang = b.maxTang
               /\ \A s \in Segs(a) : SegTableEq(a, b, s) /\ NumAx(a, s) = NumAx(b, s)
CfgGE(a, b) == /\ SameSampling(a, b)
               /\ b.minSeg >= a.minSeg /\ b.maxSeg <= a.maxSeg /\ b.minTang >= a.minTang /\ b.maxTang <= a.maxTang
               /\ \A s \in Segs(b) : SegTableEq(a, b, s) /\ NumAx(b, s) <= NumAx(a, s)
\* the pairs (both orientations) assigned to bin b of configuration c
PairSetOf(c, binT, b) == { p \in AllPairs(c) : binT[p] = b }
\* T10: a >= b iff every bin of b is a bin of a with the same detector pairs (same scanner and view/TOF sampling)
T10(a, binTa, b, binTb) ==
  SameSampling(a, b) =>
    (CfgGE(a, b) <=> /\ AllBins(b) \subseteq AllBins(a)
                     /\ \A x \in AllBins(b) : PairSetOf(a, binTa, x) = PairSetOf(b, binTb, x))
\* T11: equality is mutual containment; >= is reflexive (antisymmetry is T11 itself, transitivity T12)
T11(a, b) == /\ CfgGE(a, a)
             /\ (CfgEq(a, b) <=> (CfgGE(a, b) /\ CfgGE(b, a)))
T12(a, b, d) == (CfgGE(a, b) /\ CfgGE(b, d)) => CfgGE(a, d)
\* subsets: "check all of smaller_proj_data_info org_views are in this subset"
SubGE(a, va, b, vb) == CfgGE(a, b) /\ SeqRange(vb) \subseteq SeqRange(va)
SubEq(a, va, b, vb) == CfgEq(a, b) /\ va = vb

(* ------- changing one object in place (set_... members of the classes) --- *)
\* set_num_views (the view mashing factor is "num_detectors_per_ring / 2 / num_views"), set_min/max_tangential_pos_num,
\* set_tof_mash_factor, reduce_segment_range, set_min/max_ring_difference of the two outermost segments (= another
\* maximum ring difference).  what: name of the change, x, y: its arguments.
ApplySet(c, what, x, y) ==
  CASE what = "views" -> [c EXCEPT !.mash = NV(c) \div x]
    [] what = "tang" -> [c EXCEPT !.minTang = x, !.maxTang = y]
    [] what = "tofmash" -> [c EXCEPT !.tofMash = IF c.maxT > 0 /\ x > 0 THEN x ELSE 0]
    [] what = "segrange" -> [c EXCEPT !.minSeg = x, !.maxSeg = y]
    [] what = "maxdelta" -> [c EXCEPT !.maxDelta = x]
    [] OTHER -> c
\* arguments for which the classes document the change as legal
SetArgsOk(c, what, x, y) ==
  CASE what = "views" -> x >= 1 /\ NV(c) % x = 0
    [] what = "tang" -> x <= y /\ x >= -(NV(c)) + 1 /\ y <= NV(c) - 1
    [] what = "tofmash" -> x <= 0 \/ c.maxT = 0 \/ (x <= c.maxT /\ (c.maxT \div x) % 2 = 1)
    [] what = "segrange" -> x <= y /\ x >= c.minSeg /\ y <= c.maxSeg
    \* only the outermost segments change and they keep their first ring difference
    [] what = "maxdelta" -> /\ c.maxSeg = FullMaxSeg(c) /\ c.minSeg = -c.maxSeg /\ c.maxSeg >= 1 /\ x <= c.R - 1
                            /\ x >= PosMinRD(c, c.maxSeg) /\ x <= PosMaxRDu(c, c.maxSeg)
    [] OTHER -> FALSE
\* T13: legal changes lead from legal configurations to legal configurations, with the same Michelogram for the
\* segments that are kept
T13(c, what, x, y) ==
  (LegalConfigA(c) /\ SetArgsOk(c, what, x, y)) =>
     LET d == ApplySet(c, what, x, y) IN
     /\ LegalConfigA(d)
     /\ what \in {"views", "tang", "tofmash", "segrange"} => \A s \in Segs(d) : SegTableEq(c, d, s) /\ NumAx(c, s) = NumAx(d, s)
     /\ what = "maxdelta" => /\ d.minSeg = c.minSeg /\ d.maxSeg = c.maxSeg
                             /\ \A s \in Segs(d) : Abs(s) # c.maxSeg => SegTableEq(c, d, s)
                             /\ \A s \in Segs(d) : NumAx(c, s) = NumAx(d, s)
     /\ what = "segrange" => CfgGE(c, d)
     /\ what = "tang" /\ x >= c.minTang /\ y <= c.maxTang => CfgGE(c, d)

(* ------ DetectionPosition, DetectionPositionPair, Bin: comparisons ------- *)
\* DetectionPosition<> as << tangential, axial, radial >>: "comparison operators"; operator< orders by
\* tangential, then axial, then radial coordinate
DPEq(x, y) == x[1] = y[1] /\ x[2] = y[2] /\ x[3] = y[3]
DPLt(x, y) == x[1] < y[1] \/ (x[1] = y[1] /\ (x[2] < y[2] \/ (x[2] = y[2] /\ x[3] < y[3])))
\* DetectionPositionPair: "we need to be able to cope with reverse order of detectors.  If so, the TOF bin should
\* swap as well": q = << pos1, pos2, timing >>
DPPEq(p, q) == \/ (DPEq(p[1], q[1]) /\ DPEq(p[2], q[2]) /\ p[3] = q[3])
               \/ (DPEq(p[1], q[2]) /\ DPEq(p[2], q[1]) /\ p[3] = -q[3])
\* Bin: all coordinates, the time frame and the value; operator< is the one of ViewgramIndices ("comparison
\* operator, only useful for sorting": view, then segment, then timing position)
BinRecEq(x, y) == x.seg = y.seg /\ x.ax = y.ax /\ x.view = y.view /\ x.tang = y.tang /\ x.tof = y.tof /\ x.frame = y.frame /\ x.val = y.val
BinRecLt(x, y) == x.view < y.view \/ (x.view = y.view /\ (x.seg < y.seg \/ (x.seg = y.seg /\ x.tof < y.tof)))
\* T14: < is a strict total order on detection positions, == its equality; pair equality is an equivalence that
\* identifies a pair with its exchanged description and nothing else; bins: == refines the sorting order
T14dp(D) == \A x, y, z \in D :
               /\ (DPLt(x, y) \/ DPLt(y, x) \/ DPEq(x, y))
               /\ ~(DPLt(x, y) /\ DPLt(y, x)) /\ ~(DPLt(x, y) /\ DPEq(x, y))
               /\ (DPLt(x, y) /\ DPLt(y, z)) => DPLt(x, z)
               /\ (DPEq(x, y) <=> x = y)
T14dpp(P) == \A p, q, r \in P :
               /\ DPPEq(p, p)
               /\ DPPEq(p, q) => DPPEq(q, p)
               /\ (DPPEq(p, q) /\ DPPEq(q, r)) => DPPEq(p, r)
               /\ DPPEq(p, << p[2], p[1], -p[3] >>)
               /\ DPPEq(p, q) <=> (q = p \/ q = << p[2], p[1], -p[3] >>)
T14bin(B) == \A x, y, z \in B :
               /\ ~BinRecLt(x, x)
               /\ (BinRecLt(x, y) /\ BinRecLt(y, z)) => BinRecLt(x, z)
               /\ BinRecEq(x, y) => (~BinRecLt(x, y) /\ ~BinRecLt(y, x))
               /\ (BinRecEq(x, y) <=> x = y)

(* ------------------------ Scanner: table-like facts ---------------------- *)
\* Scanner.h / Scanner.inl: num_transaxial_blocks = num_detectors_per_ring / num_transaxial_crystals_per_block,
\* num_axial_blocks = (num_rings + virtual axial crystals) / num_axial_crystals_per_block, buckets = blocks /
\* blocks_per_bucket, crystals_per_bucket = blocks_per_bucket * crystals_per_block; check_consistency:
\* "inconsistent transaxial block info", "... block/bucket info", "num_detectors_per_ring should be a multiple of
\* num_transaxial_crystals_per_singles_unit", ... (each only when the information is set, i.e. > 0).
\* s: record of the scanner's integer parameters as its get_ members report them.
ScDerivedOk(s) ==
  /\ (s.tCrysPerBlock > 0 => s.tBlocks = s.N \div s.tCrysPerBlock)
  /\ (s.aCrysPerBlock > 0 => s.aBlocks = (s.R + s.aVirt) \div s.aCrysPerBlock)
  /\ (s.tBlocksPerBucket > 0 /\ s.tCrysPerBlock > 0 => s.tBuckets = s.tBlocks \div s.tBlocksPerBucket)
  /\ (s.aBlocksPerBucket > 0 /\ s.aCrysPerBlock > 0 => s.aBuckets = s.aBlocks \div s.aBlocksPerBucket)
  /\ s.tCrysPerBucket = s.tBlocksPerBucket * s.tCrysPerBlock
  /\ s.aCrysPerBucket = s.aBlocksPerBucket * s.aCrysPerBlock
ScBlocksOk(s) ==
  /\ (s.tCrysPerBlock > 0 /\ s.tBlocks > 0) => s.tBlocks * s.tCrysPerBlock = s.N
  /\ (s.tBlocksPerBucket > 0 /\ s.tBuckets > 0) => s.tBuckets * s.tBlocksPerBucket = s.tBlocks
  /\ (s.aCrysPerBlock > 0 /\ s.aBlocks > 0) => s.aBlocks * s.aCrysPerBlock = s.R + s.aVirt
  /\ (s.aBlocksPerBucket > 0 /\ s.aBuckets > 0) => s.aBuckets * s.aBlocksPerBucket = s.aBlocks
ScSinglesOk(s) ==
  /\ s.tCrysPerSU > 0 => (s.N % s.tCrysPerSU = 0 /\ s.tCrysPerBucket % s.tCrysPerSU = 0)
  /\ s.aCrysPerSU > 0 => (s.R % s.aCrysPerSU = 0 /\ s.aCrysPerBucket % s.aCrysPerSU = 0)
ScIntFactsOk(s) == ScBlocksOk(s) /\ ScSinglesOk(s)
=============================================================================
